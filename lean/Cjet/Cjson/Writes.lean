/-
  Cjet.Cjson.Writes — parse_string never stores more bytes than its first pass allocated.

  The first pass counts "units": a backslash together with the byte behind it is one unit, every other byte is
  one unit; `allocation_length = 1 + units` (the opening quote is counted too) and the allocation has one byte
  more.  The second pass reads the same bytes but can see the escape structure differently: after `\uXXXX`
  whose four "digits" contain a backslash it continues in the middle of a unit of the first pass.  The
  invariant that survives this: bytes stored so far ≤ units started so far (`unesc_writes`, both alignments).
-/
import Cjet.Cjson.Bounds

namespace Cjet.Cjson

/-- units of the first pass of parse_string in a stretch of bytes -/
def units : Bytes → Nat
  | [] => 0
  | c :: r =>
    if c = 0x5C then
      match r with
      | [] => 1
      | _ :: r2 => units r2 + 1
    else units r + 1

theorem units_nil : units [] = 0 := by simp [units]
theorem units_cons_ne {c : UInt8} (r : Bytes) (h : c ≠ 0x5C) : units (c :: r) = units r + 1 := by
  rw [units.eq_def]; dsimp only; rw [if_neg h]
theorem units_bs_nil : units [0x5C] = 1 := by rw [units.eq_def]; simp
theorem units_bs_cons (x : UInt8) (r : Bytes) : units (0x5C :: x :: r) = units r + 1 := by
  rw [units.eq_def]; simp

/-- Tokenising `p ++ tail` costs at least half of `p` and then either all of `tail`, or - when the last byte of
    `p` is a backslash that swallows the first byte of `tail` - all of `tail` behind that byte. -/
theorem units_append : ∀ (k : Nat) (p tail : Bytes), p.length ≤ k →
    ((p.length + 1) / 2 + units tail ≤ units (p ++ tail)) ∨
    (∃ x t', tail = x :: t' ∧ (p.length + 2) / 2 + units t' ≤ units (p ++ tail)) := by
  intro k
  induction k with
  | zero =>
    intro p tail hk
    cases p with
    | nil => left; simp
    | cons _ _ => simp at hk
  | succ k ih =>
    intro p tail hk
    cases p with
    | nil => left; simp
    | cons c p1 =>
      by_cases hc : c = 0x5C
      · subst hc
        cases p1 with
        | nil =>
          cases tail with
          | nil => left; simp [units_bs_nil, units_nil]
          | cons x t' =>
            right
            refine ⟨x, t', rfl, ?_⟩
            simp only [List.cons_append, List.nil_append, units_bs_cons, List.length_cons, List.length_nil]
            omega
        | cons d p2 =>
          simp only [List.cons_append, units_bs_cons, List.length_cons]
          have := ih p2 tail (by simp only [List.length_cons] at hk; omega)
          rcases this with h | ⟨x, t', ht, h⟩
          · left; omega
          · right; exact ⟨x, t', ht, by omega⟩
      · simp only [List.cons_append, units_cons_ne _ hc, List.length_cons]
        have := ih p1 tail (by simp only [List.length_cons] at hk; omega)
        rcases this with h | ⟨x, t', ht, h⟩
        · left; omega
        · right; exact ⟨x, t', ht, by omega⟩

/-- what the first pass computes: on the bytes in front of the closing quote, units = length - skipped_bytes -/
theorem scanEnd_units : ∀ (k : Nat) (body : Bytes), body.length ≤ k → ∀ n s, scanEnd body = some (n, s) →
    units (body.take n) + s = n := by
  intro k
  induction k with
  | zero =>
    intro body hk n s h
    cases body with
    | nil => simp [scanEnd] at h
    | cons _ _ => simp at hk
  | succ k ih =>
    intro body hk n s h
    cases body with
    | nil => simp [scanEnd] at h
    | cons c r =>
      unfold scanEnd at h
      split at h
      · simp only [Option.some.injEq, Prod.mk.injEq] at h
        obtain ⟨rfl, rfl⟩ := h
        simp [units_nil]
      · split at h
        · rename_i hq hc
          subst hc
          cases r with
          | nil => cases h
          | cons c1 r2 =>
            dsimp only at h
            split at h
            · rename_i n' s' he
              have := ih r2 (by simp only [List.length_cons] at hk; omega) n' s' he
              simp only [Option.some.injEq, Prod.mk.injEq] at h
              obtain ⟨rfl, rfl⟩ := h
              simp only [List.take_succ_cons, units_bs_cons]
              omega
            · cases h
        · rename_i hq hc
          split at h
          · rename_i n' s' he
            have := ih r (by simp only [List.length_cons] at hk; omega) n' s' he
            simp only [Option.some.injEq, Prod.mk.injEq] at h
            obtain ⟨rfl, rfl⟩ := h
            simp only [List.take_succ_cons, units_cons_ne _ hc]
            omega
          · cases h

/-- number of bytes the second pass has stored when it stops (also when it stops with a failure) -/
def SRes.wlen : SRes → Nat
  | .ok out => out.length
  | .fail out _ => out.length
  | .oob _ => 0
  | .nofuel => 0

theorem SRes.wlen_push (pre : Bytes) (r : SRes) : (r.push pre).wlen ≤ pre.length + r.wlen := by
  cases r <;> simp [SRes.push, SRes.wlen]

theorem unesc_zero_wlen (f p : Nat) (rest : Bytes) : (unesc f p 0 rest).wlen = 0 := by
  cases f with
  | zero => simp [unesc, SRes.wlen]
  | succ f' => unfold unesc; simp [SRes.wlen]

theorem unesc_nil_wlen (f p n : Nat) : (unesc f p n []).wlen = 0 := by
  cases f with
  | zero => simp [unesc, SRes.wlen]
  | succ f' => unfold unesc; split <;> simp [SRes.wlen]

/-- Both alignments at once: (A) the second pass is at a unit boundary of the first pass, (B) it is in the middle
    of a unit (the byte `x` it looks at was swallowed by a backslash in the first pass' view). -/
theorem unesc_writes : ∀ (fuel p n : Nat) (rest : Bytes), (n = 0 ∨ n < rest.length) →
    (unesc fuel p n rest).wlen ≤ units (rest.take n) ∧
    (∀ x s, rest = x :: s → (unesc fuel p n rest).wlen ≤ 1 + units (s.take (n - 1))) := by
  intro fuel
  induction fuel with
  | zero => intro p n rest _; simp [unesc, SRes.wlen]
  | succ f ih =>
    intro p n rest hn
    by_cases hn0 : n = 0
    · subst hn0
      rw [unesc_zero_wlen]
      exact ⟨Nat.zero_le _, fun _ _ _ => Nat.zero_le _⟩
    · have hlt : n < rest.length := by omega
      unfold unesc
      rw [if_neg hn0]
      cases rest with
      | nil => simp at hlt
      | cons c r1 =>
        simp only [List.length_cons] at hlt
        dsimp only
        by_cases hc : c ≠ 0x5C
        · -- ordinary byte
          rw [if_pos hc]
          obtain ⟨m, rfl⟩ : ∃ m, n = m + 1 := ⟨n - 1, by omega⟩
          simp only [Nat.add_sub_cancel]
          have hI := ih (p + 1) m r1 (by omega)
          have hp := SRes.wlen_push [c] (unesc f (p + 1) m r1)
          simp only [List.length_cons, List.length_nil] at hp
          constructor
          · simp only [List.take_succ_cons, units_cons_ne _ hc]
            omega
          · intro x s hxs
            simp only [List.cons.injEq] at hxs
            obtain ⟨rfl, rfl⟩ := hxs
            omega
        · rw [if_neg hc]
          have hc' : c = 0x5C := Decidable.not_not.mp hc
          subst hc'
          cases r1 with
          | nil => simp only [List.length_nil] at hlt; omega
          | cons c1 r2 =>
            simp only [List.length_cons] at hlt
            dsimp only
            cases hse : simpleEsc c1 with
            | some e =>
              -- two-byte escape
              dsimp only
              by_cases hn1 : n = 1
              · subst hn1
                have hp := SRes.wlen_push [e] (unesc f (p + 2) (1 - 2) r2)
                have h0 : (unesc f (p + 2) (1 - 2) r2).wlen = 0 := unesc_zero_wlen _ _ _
                simp only [List.length_cons, List.length_nil] at hp
                constructor
                · simp only [List.take_succ_cons, List.take_zero, units_bs_nil]
                  omega
                · intro x s hxs
                  omega
              · obtain ⟨m, rfl⟩ : ∃ m, n = m + 2 := ⟨n - 2, by omega⟩
                simp only [Nat.add_sub_cancel]
                have hI := ih (p + 2) m r2 (by omega)
                have hp := SRes.wlen_push [e] (unesc f (p + 2) m r2)
                simp only [List.length_cons, List.length_nil] at hp
                constructor
                · simp only [List.take_succ_cons, units_bs_cons]
                  omega
                · intro x s hxs
                  simp only [List.cons.injEq] at hxs
                  obtain ⟨rfl, rfl⟩ := hxs
                  have e1 : m + 2 - 1 = m + 1 := by omega
                  rw [e1, List.take_succ_cons]
                  by_cases hc1 : c1 = 0x5C
                  · subst hc1
                    -- the first pass pairs this backslash with the byte behind it
                    cases r2 with
                    | nil =>
                      rw [unesc_nil_wlen] at hp
                      omega
                    | cons y s'' =>
                      cases m with
                      | zero =>
                        rw [unesc_zero_wlen] at hp
                        omega
                      | succ m' =>
                        have hB := hI.2 y s'' rfl
                        simp only [List.take_succ_cons, units_bs_cons, Nat.add_sub_cancel] at hB ⊢
                        omega
                  · simp only [units_cons_ne _ hc1]
                    omega
            | none =>
              dsimp only
              by_cases hu : c1 = 0x75
              · rw [if_pos hu]
                subst hu
                cases hut : utf16 p n (0x5C :: 0x75 :: r2) with
                | fail => simp [SRes.wlen]
                | oob i => simp [SRes.wlen]
                | ok bytes len =>
                  dsimp only
                  have hok := utf16_ok hut
                  -- split the bytes in front of the quote at the end of the escape sequence
                  have key : ∀ (l k : Nat), len = l + 2 → bytes.length ≤ k → k ≤ (l + 1) / 2 + 1 → k + 1 ≤ (l + 2) / 2 + 1 →
                      (SRes.push bytes (unesc f (p + len) (n - len) ((0x5C :: 0x75 :: r2).drop len))).wlen
                        ≤ units (r2.take (n - 2)) + 1 := by
                    intro l k hl hk h1 h2
                    subst hl
                    have hd : (0x5C :: 0x75 :: r2).drop (l + 2) = r2.drop l := by simp
                    rw [hd]
                    have hlen : (r2.take l).length = l := by
                      simp only [List.length_take]; omega
                    obtain ⟨q, hq⟩ : ∃ q, n = l + 2 + q := ⟨n - (l + 2), by omega⟩
                    subst hq
                    have e2 : l + 2 + q - (l + 2) = q := by omega
                    have e3 : l + 2 + q - 2 = l + q := by omega
                    rw [e2, e3, List.take_add]
                    have hI := ih (p + (l + 2)) q (r2.drop l) (by simp only [List.length_drop]; omega)
                    have hp := SRes.wlen_push bytes (unesc f (p + (l + 2)) q (r2.drop l))
                    rcases units_append _ (r2.take l) ((r2.drop l).take q) (Nat.le_refl _) with h | ⟨x, t', hx, h⟩
                    · rw [hlen] at h
                      have := hI.1
                      omega
                    · rw [hlen] at h
                      cases hr : r2.drop l with
                      | nil => rw [hr] at hx; simp at hx
                      | cons y s' =>
                        rw [hr] at hx hI hp h
                        cases q with
                        | zero => simp at hx
                        | succ q' =>
                          simp only [List.take_succ_cons, List.cons.injEq] at hx
                          obtain ⟨rfl, rfl⟩ := hx
                          have hB := hI.2 y s' rfl
                          simp only [Nat.add_sub_cancel] at hB
                          omega
                  have hmain : (SRes.push bytes (unesc f (p + len) (n - len) ((0x5C :: 0x75 :: r2).drop len))).wlen
                        ≤ units (r2.take (n - 2)) + 1 := by
                    rcases hok.1 with ⟨h6, hb⟩ | ⟨h12, hb⟩
                    · exact key 4 3 (by omega) hb (by omega) (by omega)
                    · exact key 10 4 (by omega) hb (by omega) (by omega)
                  obtain ⟨m, rfl⟩ : ∃ m, n = m + 2 := ⟨n - 2, by omega⟩
                  simp only [Nat.add_sub_cancel] at hmain
                  constructor
                  · simp only [List.take_succ_cons, units_bs_cons]
                    exact hmain
                  · intro x s hxs
                    simp only [List.cons.injEq] at hxs
                    obtain ⟨rfl, rfl⟩ := hxs
                    have e1 : m + 2 - 1 = m + 1 := by omega
                    rw [e1, List.take_succ_cons, units_cons_ne _ (by decide)]
                    omega
              · rw [if_neg hu]; simp [SRes.wlen]

/-- parse_string: the bytes the second pass stores, plus the terminating NUL, fit `allocation_length`
    (the allocation has one byte more than that). -/
theorem unesc_fits_alloc {body : Bytes} {n s : Nat} (h : scanEnd body = some (n, s)) (p : Nat) :
    (unesc (n + 1) p n body).wlen + 1 ≤ n + 1 - s := by
  have h1 := scanEnd_some _ _ _ h
  have h2 := scanEnd_units _ body (Nat.le_refl _) n s h
  have h3 := (unesc_writes (n + 1) p n body (Or.inr h1.1)).1
  omega

/-- what a successful parse_string returns: the bytes stored plus the terminating NUL fit `allocation_length` -/
theorem parseString_written_le {inp : Bytes} {b : PB} {s : StrOut} {b' : PB} (h : parseString inp b = .ok s b') :
    s.written.length + 1 ≤ s.alloc := by
  unfold parseString at h
  split at h
  · cases h
  · rename_i q body hd
    split at h
    · cases h
    · split at h
      · cases h
      · rename_i n sk hs
        have hf := unesc_fits_alloc hs (b.off + 1)
        split at h
        · rename_i out hu
          rw [hu] at hf
          simp only [Res.ok.injEq] at h
          obtain ⟨rfl, _⟩ := h
          simpa [SRes.wlen] using hf
        · cases h
        · cases h
        · cases h

end Cjet.Cjson
