import Cjet.Drv.Alloc
/-- Driver executable for component `alloc`: see `Cjet/Drv/Alloc.lean`. -/
def main (args : List String) : IO UInt32 := Cjet.Drv.Alloc.run args
