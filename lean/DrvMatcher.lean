import Cjet.Drv.Matcher
/-- Driver executable for component `matcher`: see `Cjet/Drv/Matcher.lean`. -/
def main (args : List String) : IO UInt32 := Cjet.Drv.Matcher.run args
