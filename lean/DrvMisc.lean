import Cjet.Drv.Misc
/-- Driver executable for component `misc`: see `Cjet/Drv/Misc.lean`. -/
def main (args : List String) : IO UInt32 := Cjet.Drv.Misc.run args
