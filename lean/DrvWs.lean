import Cjet.Drv.Ws
/-- Driver executable for component `ws`: see `Cjet/Drv/Ws.lean`. -/
def main (args : List String) : IO UInt32 := Cjet.Drv.Ws.run args
