import Cjet.Drv.Daemon
/-- Driver executable for component `daemon`: see `Cjet/Drv/Daemon.lean`. -/
def main (args : List String) : IO UInt32 := Cjet.Drv.Daemon.run args
