import Cjet.Drv.Authfile
/-- Driver executable for component `authfile`: see `Cjet/Drv/Authfile.lean`. -/
def main (args : List String) : IO UInt32 := Cjet.Drv.Authfile.run args
