import Cjet.Drv.Accept
/-- Driver executable for component `accept`: see `Cjet/Drv/Accept.lean`. -/
def main (args : List String) : IO UInt32 := Cjet.Drv.Accept.run args
