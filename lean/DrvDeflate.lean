import Cjet.Drv.Deflate
/-- Driver executable for component `deflate`: see `Cjet/Drv/Deflate.lean`. -/
def main (args : List String) : IO UInt32 := Cjet.Drv.Deflate.run args
