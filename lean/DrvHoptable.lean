import Cjet.Drv.Hoptable
/-- Driver executable for component `hoptable`: see `Cjet/Drv/Hoptable.lean`. -/
def main (args : List String) : IO UInt32 := Cjet.Drv.Hoptable.run args
