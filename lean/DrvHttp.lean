import Cjet.Drv.Http
/-- Driver executable for component `http`: see `Cjet/Drv/Http.lean`. -/
def main (args : List String) : IO UInt32 := Cjet.Drv.Http.run args
