import Cjet.Drv.Utf8
/-- Driver executable for component `utf8`: see `Cjet/Drv/Utf8.lean`. -/
def main (args : List String) : IO UInt32 := Cjet.Drv.Utf8.run args
