import Cjet.Drv.Startup
/-- Driver executable for component `startup`: see `Cjet/Drv/Startup.lean`. -/
def main (args : List String) : IO UInt32 := Cjet.Drv.Startup.run args
