import Cjet.Drv.Evloop
/-- Driver executable for component `evloop`: see `Cjet/Drv/Evloop.lean`. -/
def main (args : List String) : IO UInt32 := Cjet.Drv.Evloop.run args
