# C12 directed replays of defects found (and fixed) in /repo; format: script of harness/comp/ws.c,
# `## ` starts a case.  They run on every check as ordinary regression cases.
## F5 first fragment of a text message with the daemon's callback set (NULL text_frame_received call before 89ea380)
conn server daemon stub 512
frame 0184112233447740525615
## F5 first fragment of a binary message (NULL binary_frame_received call)
conn server daemon stub 512
frame 0284112233447740525615
## F5 fragment, through the real reader
conn server daemon real 0
frame 0184112233447740525615 chunks=1,2,3
## F33 control frame whose declared length exceeds the read buffer (1001 before 47c68af)
conn server daemon stub 512
frame 89fe025811223344
## F33 close frame with a 64 bit declared length
conn server daemon real 0
frame 88ff000000010000000011223344
## F51 unmasked data frame larger than the read buffer (1001 before 2dc4431)
conn server daemon stub 512
frame 817e0258
## F51 RSV1 on a data frame larger than the read buffer
conn server daemon real 0
frame c1fe025811223344
## F51 reserved opcode on a frame larger than the read buffer
conn server daemon stub 512
frame 83fe025811223344
## F51 fragmented ping (FIN=0) larger than the read buffer
conn server daemon stub 512
frame 09fe025811223344
## F52 empty pong frame (memcpy from NULL in the daemon's pong callback before 2c6e6f4)
conn server daemon stub 512
frame 8a8011223344
frame 898011223344
## F52 empty pong through the real reader
conn server daemon real 0
frame 8a8011223344 chunks=1,1,1,1,1,1
