/*
 * C09 component harness: the REAL read side of /repo/src/buffered_socket.c (go_reading, read_function,
 * fill_buffer, reorganize_read_buffer, get_read_ptr, internal_read_until, buffered_socket_read_exactly /
 * _read_until) and the REAL raw-socket framing of /repo/src/socket_peer.c (read_msg_length / read_msg)
 * over a scripted kernel (`socket_read` is the stub below; the same seam the unit tests use).
 *
 * Build: this file (#includes buffered_socket.c and socket_peer.c so that the statics are reachable and the
 * read buffer size can be overridden with -DBR_CAP=n), linux/jet_string.c (memmem), linux/jet_endian.c.
 *
 * Script (stdin), one op per line — the same script the Lean driver `drv_bufread` reads:
 *   new <cap> <raw|line|ws|mix> <fill hex byte> <answers>
 *        fresh buffered_socket whose read buffer is pre-filled with <fill>; the client arms its first reader,
 *        which runs go_reading once (first_run path) with these kernel answers
 *   event <answers>       one readiness event: bs->ev.read_function(&bs->ev)
 * answers: comma separated: C<hex> bytes arrive (a read asking for less gets a prefix, the rest stays for the
 *   next call; C- = read() returns 0), W / B = EAGAIN / EWOULDBLOCK, E = read() returns 0, X = ECONNRESET,
 *   "-" = none.  When the list is exhausted the kernel answers EAGAIN.
 * clients:
 *   raw   real socket_peer.c (alloc_jet_peer/init_socket_peer, error handler free_peer_on_error);
 *         parse_message is stubbed: it refuses a message whose first byte is 0xff
 *   line  read_until("\r\n") as http_connection.c arms it; the callback does not re-arm; a line starting
 *         with 0xff is refused (connection closed)
 *   ws    the header machine of websocket.c (1,1,[2|8],[4],payload) re-implemented thinly over the real
 *         reader API, server side; a frame whose payload starts with 0xff is refused
 *   mix   test client: last byte x of each delivery selects the next reader: 0xff closes, x >= 0x80 arms
 *         read_until("\r\n"), else read_exactly(x % 8)
 * Observation lines (the model prints the same):
 *   read <asked> <C<hex>|W|E|X> / deliver <hex> / cb0 / closed / error
 *   end <wouldblock|peerclosed|clientclosed|error> ret=<continue|removed|-> (r= w= buf= req= | dead) unused=<n>
 *   dead    (event on a connection that is gone)
 * FAULT lines report broken memory discipline seen from outside: read target outside the buffer, asked size
 * 0 or beyond the buffer end, slice outside [read_buffer, write_ptr), parse_message not given the slice.
 * With ASan the region [write_ptr, end) is poisoned while the code under test runs, so any access to
 * bytes the kernel never wrote there aborts.
 */
#include <errno.h>
#include <stdarg.h>
#include <stdbool.h>
#include <stdint.h>
#include <stdio.h>
#include <stdlib.h>
#include <string.h>

#if defined(__SANITIZE_ADDRESS__)
#include <sanitizer/asan_interface.h>
#define POISON(p, n) ASAN_POISON_MEMORY_REGION((p), (n))
#define UNPOISON(p, n) ASAN_UNPOISON_MEMORY_REGION((p), (n))
#else
#define POISON(p, n) ((void)(p), (void)(n))
#define UNPOISON(p, n) ((void)(p), (void)(n))
#endif

#include "generated/cjet_config.h"
#ifdef BR_CAP
#define CONFIG_MAX_MESSAGE_SIZE BR_CAP
#endif

#include "buffered_socket.c"
#include "socket_peer.c"

/* ------------------------------------------------------------------ stubs for the rest of cjet */
void log_err(const char *format, ...) { (void)format; }
void log_warn(const char *format, ...) { (void)format; }
void log_info(const char *format, ...) { (void)format; }
void *cjet_malloc(size_t size) { return malloc(size); }
void cjet_free(void *ptr) { free(ptr); }
void *cjet_calloc(size_t nmemb, size_t size) { return calloc(nmemb, size); }
int init_peer(struct peer *p, bool is_local_connection, struct eventloop *loop)
{
	(void)p; (void)is_local_connection; (void)loop;
	return 0;
}
void free_peer_resources(struct peer *p) { (void)p; }

/* ------------------------------------------------------------------ state */
#define FD 42
static struct buffered_socket *bs;   /* NULL when the connection is gone */
static struct eventloop loop;
static unsigned faults;

static void fault(const char *fmt, ...)
{
	va_list ap;
	va_start(ap, fmt);
	printf("FAULT ");
	vprintf(fmt, ap);
	printf("\n");
	va_end(ap);
	faults++;
}

static void print_hex(const uint8_t *p, size_t n)
{
	if (n == 0) {
		printf("-");
	}
	for (size_t i = 0; i < n; i++) {
		printf("%02x", p[i]);
	}
}

/* ------------------------------------------------------------------ scripted kernel */
#define MAXANS 8192
static struct { char kind; uint8_t *data; size_t len; } answers[MAXANS];
static size_t n_answers, next_answer;
static const uint8_t *pending;
static size_t pending_len;
static enum cjet_system_error last_error;
static bool saw_cb0, saw_closed, saw_error;

static void poison_tail(void)
{
	if (bs != NULL) {
		uint8_t *end = &bs->read_buffer[CONFIG_MAX_MESSAGE_SIZE];
		if (bs->write_ptr >= bs->read_buffer && bs->write_ptr <= end) {
			POISON(bs->write_ptr, (size_t)(end - bs->write_ptr));
		}
	}
}

static void unpoison_all(void)
{
	if (bs != NULL) {
		UNPOISON(bs->read_buffer, CONFIG_MAX_MESSAGE_SIZE);
	}
}

cjet_ssize_t socket_read(socket_type sock, void *buf, size_t count)
{
	uint8_t *p = buf;
	if (sock != FD) {
		fault("socket_read on fd %d", sock);
	}
	if (bs == NULL) {
		fault("socket_read after the connection was closed");
		errno = EBADF;
		last_error = (enum cjet_system_error)EBADF;
		return -1;
	}
	uint8_t *end = &bs->read_buffer[CONFIG_MAX_MESSAGE_SIZE];
	if (p < bs->read_buffer || p > end || count > (size_t)(end - p)) {
		fault("socket_read target [%td,+%zu) outside the read buffer", p - bs->read_buffer, count);
		printf("read %zu X\n", count);
		last_error = (enum cjet_system_error)EFAULT;
		return -1;
	}
	if (p != bs->write_ptr) {
		fault("socket_read target %td is not write_ptr %td", p - bs->read_buffer, bs->write_ptr - bs->read_buffer);
	}
	if (bs->read_ptr < bs->read_buffer || bs->read_ptr > bs->write_ptr) {
		fault("read_ptr %td outside [0, write_ptr=%td]", bs->read_ptr - bs->read_buffer, bs->write_ptr - bs->read_buffer);
	}
	if (count == 0) {
		fault("socket_read asked for 0 bytes");
	}
	printf("read %zu ", count);
	if (pending_len == 0 && next_answer < n_answers && answers[next_answer].kind == 'C') {
		pending = answers[next_answer].data;
		pending_len = answers[next_answer].len;
		next_answer++;
		if (pending_len == 0 || count == 0) {
			/* read() = 0 */
			printf("E\n");
			return 0;
		}
	}
	if (pending_len > 0) {
		if (count == 0) {
			printf("E\n");
			return 0;
		}
		size_t n = pending_len < count ? pending_len : count;
		UNPOISON(p, count);
		memcpy(p, pending, n);
		POISON(p + n, count - n);
		pending += n;
		pending_len -= n;
		printf("C");
		print_hex(p, n);
		printf("\n");
		return (cjet_ssize_t)n;
	}
	char kind = 'W';
	if (next_answer < n_answers) {
		kind = answers[next_answer].kind;
		next_answer++;
	}
	switch (kind) {
	case 'E':
		printf("E\n");
		return 0;
	case 'X':
		printf("X\n");
		errno = ECONNRESET;
		last_error = (enum cjet_system_error)ECONNRESET;
		return -1;
	case 'B':
		printf("W\n");
		errno = EWOULDBLOCK;
		last_error = operation_would_block;
		return -1;
	default:
		printf("W\n");
		errno = EAGAIN;
		last_error = resource_unavailable_try_again;
		return -1;
	}
}

cjet_ssize_t socket_writev_with_prefix(socket_type sock, void *buf, size_t len, struct socket_io_vector *io_vec, unsigned int count)
{
	(void)sock; (void)buf; (void)io_vec; (void)count;
	size_t total = len;
	for (unsigned int i = 0; i < count; i++) {
		total += io_vec[i].iov_len;
	}
	return (cjet_ssize_t)total;
}

int socket_close(socket_type sock)
{
	if (sock != FD) {
		fault("socket_close on fd %d", sock);
	}
	if (bs == NULL) {
		fault("socket_close twice");
	}
	unpoison_all();
	bs = NULL; /* buffered_socket_close releases the object right after this call */
	return 0;
}

enum cjet_system_error get_socket_error(void) { return last_error; }
const char *get_socket_error_msg(enum cjet_system_error err) { (void)err; return "scripted"; }

static enum eventloop_return loop_add(const void *this_ptr, const struct io_event *ev)
{
	(void)this_ptr; (void)ev;
	return EL_CONTINUE_LOOP;
}
static void loop_remove(void *this_ptr, const struct io_event *ev)
{
	(void)this_ptr; (void)ev;
}

/* ------------------------------------------------------------------ observing every read callback */
static read_handler cur_handler;
static void *cur_ctx;
static const uint8_t *last_slice;
static size_t last_slice_len;

static enum bs_read_callback_return tramp(void *ctx, uint8_t *buf, size_t len)
{
	(void)ctx;
	if (len == 0) {
		saw_cb0 = true;
		printf("cb0\n");
	} else {
		if (bs == NULL) {
			fault("callback after close");
		} else {
			if (buf < bs->read_buffer || buf + len != bs->read_ptr || bs->read_ptr > bs->write_ptr ||
			    bs->write_ptr > &bs->read_buffer[CONFIG_MAX_MESSAGE_SIZE]) {
				fault("slice [%td,+%zu) not inside [read_buffer, write_ptr=%td) / read_ptr=%td", buf - bs->read_buffer, len,
				      bs->write_ptr - bs->read_buffer, bs->read_ptr - bs->read_buffer);
			}
		}
		last_slice = buf;
		last_slice_len = len;
		printf("deliver ");
		print_hex(buf, len);
		printf("\n");
	}
	read_handler h = cur_handler;
	void *c = cur_ctx;
	enum bs_read_callback_return ret = h(c, buf, len);
	if (len != 0 && ret == BS_CLOSED) {
		saw_closed = true;
		printf("closed\n");
	}
	return ret;
}

static int shim_read_exactly(void *this_ptr, size_t num, read_handler handler, void *handler_context)
{
	cur_handler = handler;
	cur_ctx = handler_context;
	return buffered_socket_read_exactly(this_ptr, num, tramp, NULL);
}

static int shim_read_until(void *this_ptr, const char *delim, read_handler handler, void *handler_context)
{
	cur_handler = handler;
	cur_ctx = handler_context;
	return buffered_socket_read_until(this_ptr, delim, tramp, NULL);
}

static int shim_writev(void *this_ptr, struct socket_io_vector *io_vec, unsigned int count)
{
	(void)this_ptr; (void)io_vec; (void)count;
	return 0;
}

static struct buffered_reader reader;

/* ------------------------------------------------------------------ raw client: real socket_peer.c */
static struct socket_peer *raw_peer;

int parse_message(const char *msg, size_t length, struct peer *p)
{
	(void)p;
	if ((const uint8_t *)msg != last_slice || length != last_slice_len) {
		fault("parse_message(msg,len) is not the slice the reader delivered");
	}
	if (length > 0 && (uint8_t)msg[0] == 0xff) {
		return -1;
	}
	return 0;
}

static void raw_error(void *context)
{
	saw_error = true;
	printf("error\n");
	free_peer_on_error(context);
}

/* ------------------------------------------------------------------ thin clients */
#define CRLF_STR "\r\n"

static void thin_close(void)
{
	if (bs != NULL) {
		reader.close(reader.this_ptr);
	}
}

static void thin_error(void *context)
{
	(void)context;
	saw_error = true;
	printf("error\n");
	thin_close();
}

/* http_connection.c: read_start_line without the parser */
static enum bs_read_callback_return line_cb(void *context, uint8_t *buf, size_t len)
{
	(void)context;
	if (len == 0) {
		thin_close();
		return BS_CLOSED;
	}
	if (buf[0] == 0xff) {
		thin_close();
		return BS_CLOSED;
	}
	return BS_OK;
}

/* websocket.c: ws_get_header .. ws_get_payload, server side, frame handling replaced by a predicate */
static struct { unsigned mask; uint64_t length; } ws;
static enum bs_read_callback_return ws_hdr(void *context, uint8_t *buf, size_t len);

static enum bs_read_callback_return ws_payload(void *context, uint8_t *buf, size_t len)
{
	(void)context;
	if (len == 0 && ws.length != 0) {
		thin_close();
		return BS_CLOSED;
	}
	if (ws.mask == 0) {
		thin_close();
		return BS_CLOSED;
	}
	if (len > 0 && buf[0] == 0xff) {
		thin_close();
		return BS_CLOSED;
	}
	reader.read_exactly(reader.this_ptr, 1, ws_hdr, NULL);
	return BS_OK;
}

static enum bs_read_callback_return ws_mask(void *context, uint8_t *buf, size_t len)
{
	(void)buf;
	if (len == 0) {
		thin_close();
		return BS_CLOSED;
	}
	if (ws.length > 0) {
		reader.read_exactly(reader.this_ptr, ws.length, ws_payload, NULL);
		return BS_OK;
	}
	return ws_payload(context, NULL, 0);
}

static enum bs_read_callback_return ws_mask_or_payload(void)
{
	if (ws.mask == 1) {
		reader.read_exactly(reader.this_ptr, 4, ws_mask, NULL);
		return BS_OK;
	}
	if (ws.length > 0) {
		reader.read_exactly(reader.this_ptr, ws.length, ws_payload, NULL);
		return BS_OK;
	}
	return ws_payload(NULL, NULL, 0);
}

static enum bs_read_callback_return ws_len16(void *context, uint8_t *buf, size_t len)
{
	(void)context;
	if (len == 0) {
		thin_close();
		return BS_CLOSED;
	}
	uint16_t field;
	memcpy(&field, buf, sizeof(field));
	ws.length = jet_be16toh(field);
	return ws_mask_or_payload();
}

static enum bs_read_callback_return ws_len64(void *context, uint8_t *buf, size_t len)
{
	(void)context;
	if (len == 0) {
		thin_close();
		return BS_CLOSED;
	}
	uint64_t field;
	memcpy(&field, buf, sizeof(field));
	ws.length = jet_be64toh(field);
	return ws_mask_or_payload();
}

static enum bs_read_callback_return ws_len1(void *context, uint8_t *buf, size_t len)
{
	(void)context;
	if (len == 0) {
		thin_close();
		return BS_CLOSED;
	}
	uint8_t field = buf[0];
	ws.mask = (field & 0x80) ? 1 : 0;
	field = field & ~0x80;
	if (field < 126) {
		ws.length = field;
		return ws_mask_or_payload();
	} else if (field == 126) {
		reader.read_exactly(reader.this_ptr, 2, ws_len16, NULL);
		return BS_OK;
	} else {
		reader.read_exactly(reader.this_ptr, 8, ws_len64, NULL);
		return BS_OK;
	}
}

static enum bs_read_callback_return ws_hdr(void *context, uint8_t *buf, size_t len)
{
	(void)context; (void)buf;
	if (len == 0) {
		thin_close();
		return BS_CLOSED;
	}
	reader.read_exactly(reader.this_ptr, 1, ws_len1, NULL);
	return BS_OK;
}

static enum bs_read_callback_return mix_cb(void *context, uint8_t *buf, size_t len)
{
	(void)context;
	if (len == 0) {
		thin_close();
		return BS_CLOSED;
	}
	uint8_t x = buf[len - 1];
	if (x == 0xff) {
		thin_close();
		return BS_CLOSED;
	}
	if (x >= 0x80) {
		reader.read_until(reader.this_ptr, CRLF_STR, mix_cb, NULL);
	} else {
		reader.read_exactly(reader.this_ptr, x % 8, mix_cb, NULL);
	}
	return BS_OK;
}

/* ------------------------------------------------------------------ script handling */
static void free_answers(void)
{
	for (size_t i = 0; i < n_answers; i++) {
		free(answers[i].data);
		answers[i].data = NULL;
	}
	n_answers = 0;
	next_answer = 0;
	pending = NULL;
	pending_len = 0;
}

static int hexval(int c)
{
	if (c >= '0' && c <= '9') return c - '0';
	if (c >= 'a' && c <= 'f') return c - 'a' + 10;
	if (c >= 'A' && c <= 'F') return c - 'A' + 10;
	return -1;
}

static int parse_answers(char *s)
{
	free_answers();
	if (strcmp(s, "-") == 0) {
		return 0;
	}
	char *save = NULL;
	for (char *tok = strtok_r(s, ",", &save); tok != NULL; tok = strtok_r(NULL, ",", &save)) {
		if (n_answers == MAXANS) {
			return -1;
		}
		if (tok[0] == 'C') {
			const char *h = tok + 1;
			size_t hl = strlen(h);
			if (strcmp(h, "-") == 0) {
				hl = 0;
			}
			if (hl % 2 != 0) {
				return -1;
			}
			uint8_t *d = malloc(hl / 2 + 1);
			for (size_t i = 0; i < hl / 2; i++) {
				int a = hexval(h[2 * i]), b = hexval(h[2 * i + 1]);
				if (a < 0 || b < 0) {
					free(d);
					return -1;
				}
				d[i] = (uint8_t)(a * 16 + b);
			}
			answers[n_answers].kind = 'C';
			answers[n_answers].data = d;
			answers[n_answers].len = hl / 2;
		} else if ((tok[0] == 'W' || tok[0] == 'B' || tok[0] == 'E' || tok[0] == 'X') && tok[1] == '\0') {
			answers[n_answers].kind = tok[0];
			answers[n_answers].data = NULL;
			answers[n_answers].len = 0;
		} else {
			return -1;
		}
		n_answers++;
	}
	return 0;
}

static void print_end(const char *ret)
{
	const char *outcome = "wouldblock";
	if (saw_error) {
		outcome = "error";
	} else if (saw_cb0) {
		outcome = "peerclosed";
	} else if (saw_closed) {
		outcome = "clientclosed";
	}
	size_t unused = (n_answers - next_answer) + (pending_len > 0 ? 1 : 0);
	printf("end %s ret=%s ", outcome, ret);
	if (bs == NULL) {
		printf("dead");
	} else {
		unpoison_all();
		printf("r=%td w=%td buf=", bs->read_ptr - bs->read_buffer, bs->write_ptr - bs->read_buffer);
		print_hex(bs->read_buffer, CONFIG_MAX_MESSAGE_SIZE);
		if (bs->reader == get_read_ptr) {
			printf(" req=E%zu", bs->reader_context.num);
		} else if (bs->reader == internal_read_until) {
			printf(" req=U");
			print_hex((const uint8_t *)bs->reader_context.ptr, strlen(bs->reader_context.ptr));
		} else {
			printf(" req=?");
		}
		poison_tail();
	}
	printf(" unused=%zu\n", unused);
}

static void drop_connection(void)
{
	if (bs != NULL) {
		unpoison_all();
		free(bs);
		bs = NULL;
		if (raw_peer != NULL) {
			free(raw_peer);
		}
	}
	raw_peer = NULL;
}

static void op_new(size_t cap, const char *client, unsigned fill)
{
	drop_connection();
	if (cap != CONFIG_MAX_MESSAGE_SIZE) {
		fault("script wants cap %zu, harness compiled with %d", cap, (int)CONFIG_MAX_MESSAGE_SIZE);
		return;
	}
	saw_cb0 = saw_closed = saw_error = false;
	loop.this_ptr = &loop;
	loop.add = loop_add;
	loop.remove = loop_remove;
	bs = buffered_socket_acquire();
	memset(bs, 0xa5, sizeof(*bs));
	memset(bs->read_buffer, (int)fill, CONFIG_MAX_MESSAGE_SIZE);
	reader.this_ptr = bs;
	reader.close = buffered_socket_close;
	reader.read_exactly = shim_read_exactly;
	reader.read_until = shim_read_until;
	reader.set_error_handler = buffered_socket_set_error;
	reader.writev = shim_writev;
	if (strcmp(client, "raw") == 0) {
		raw_peer = alloc_jet_peer();
		buffered_socket_init(bs, FD, &loop, raw_error, raw_peer);
		poison_tail();
		init_socket_peer(raw_peer, &reader, false);
		if (bs == NULL) {
			raw_peer = NULL; /* released by free_jet_peer */
		}
	} else {
		buffered_socket_init(bs, FD, &loop, thin_error, NULL);
		poison_tail();
		if (strcmp(client, "line") == 0) {
			reader.read_until(reader.this_ptr, CRLF_STR, line_cb, NULL);
		} else if (strcmp(client, "ws") == 0) {
			reader.read_exactly(reader.this_ptr, 1, ws_hdr, NULL);
		} else if (strcmp(client, "mix") == 0) {
			reader.read_exactly(reader.this_ptr, 1, mix_cb, NULL);
		} else {
			fault("unknown client %s", client);
		}
	}
	print_end("-");
}

static void op_event(void)
{
	if (bs == NULL) {
		printf("dead\n");
		return;
	}
	saw_cb0 = saw_closed = saw_error = false;
	enum eventloop_return ret = bs->ev.read_function(&bs->ev);
	if (bs == NULL) {
		raw_peer = NULL;
	}
	print_end(ret == EL_EVENT_REMOVED ? "removed" : ret == EL_CONTINUE_LOOP ? "continue" : "abort");
}

int main(void)
{
	char *line = NULL;
	size_t cap = 0;
	ssize_t n;
	while ((n = getline(&line, &cap, stdin)) > 0) {
		while (n > 0 && (line[n - 1] == '\n' || line[n - 1] == '\r' || line[n - 1] == ' ')) {
			line[--n] = '\0';
		}
		if (n == 0) {
			continue;
		}
		char op[16] = "", a1[32] = "", a2[32] = "", a3[32] = "";
		char *ans = malloc((size_t)n + 2);
		ans[0] = '\0';
		if (sscanf(line, "%15s", op) != 1) {
			free(ans);
			continue;
		}
		if (strcmp(op, "new") == 0 && sscanf(line, "%*s %31s %31s %31s %s", a1, a2, a3, ans) == 4 &&
		    parse_answers(ans) == 0) {
			op_new((size_t)strtoul(a1, NULL, 10), a2, (unsigned)strtoul(a3, NULL, 16));
		} else if (strcmp(op, "event") == 0 && sscanf(line, "%*s %s", ans) == 1 && parse_answers(ans) == 0) {
			op_event();
		} else {
			printf("BADOP %s\n", line);
		}
		free(ans);
		fflush(stdout);
	}
	free(line);
	drop_connection();
	free_answers();
	return faults ? 3 : 0;
}
