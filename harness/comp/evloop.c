/*
 * Component harness for the epoll dispatcher: the REAL /repo/src/linux/eventloop_epoll.c
 * (eventloop_epoll_init/run/add/remove/destroy with its static dispatch_events/handle_events)
 * over a scripted kernel and scripted callbacks.
 *
 * Build: this file + src/linux/eventloop_epoll.c, linked with
 *   -Wl,--wrap=epoll_create,--wrap=epoll_ctl,--wrap=epoll_wait,--wrap=close
 * under ASan/UBSan.  An io_event that is removed is really free()d, so that a dispatcher that
 * touches it afterwards is caught by the sanitizer as well as by the trace.
 *
 * Script (stdin), one op per line — the same script the Lean driver `drv_evloop` reads; see
 * lean/Cjet/Drv/Evloop.lean for the grammar and for the observation lines.  Extra lines only this
 * side can print: `FAULT …` (epoll_ctl/close on a descriptor that is not the loop's, a callback
 * entered with an io_event that is not alive, pending array left behind).
 */
#include <errno.h>
#include <stdarg.h>
#include <stdint.h>
#include <stdio.h>
#include <stdlib.h>
#include <string.h>
#include <sys/epoll.h>
#include <unistd.h>

#include "eventloop.h"
#include "generated/os_config.h"
#include "linux/eventloop_epoll.h"

void __sanitizer_set_death_callback(void (*cb)(void));

void log_err(const char *format, ...) { (void)format; }
void log_warn(const char *format, ...) { (void)format; }
void log_info(const char *format, ...) { (void)format; }

/* ------------------------------------------------------------------ tables */
#define MAXID 256
#define EPFD 777
#define MAXQ 4096
#define MAXACT 16

struct obj {
	struct io_event *ev; /* NULL = not alive */
	int r, w;            /* function pointers non-NULL */
};
static struct obj objs[MAXID];

/* every pointer ever handed out, newest last: pointer -> id without touching the object */
static struct { const void *p; int id; int alive; } hist[1 << 16];
static size_t n_hist;

/* the kernel's interest list */
static struct { int fd; void *ptr; } interest[MAXID];
static size_t n_interest;
static int epfd_open;
static int next_add_fails;

struct act { char kind; int id; };
struct answer { char ret; int n_acts; struct act acts[MAXACT]; };
static struct answer answers[MAXQ];
static size_t n_answers, next_answer;

struct wait { char kind; /* 'B' batch, 'I' EINTR, 'E' other errno */ int n; int ids[64]; uint32_t masks[64]; };
static struct wait waits[MAXQ];
static size_t n_waits, next_wait;

static struct eventloop_epoll loop;
static int go_ahead = 1;
static int in_run;

static void fault(const char *fmt, ...)
{
	va_list ap;
	va_start(ap, fmt);
	printf("FAULT ");
	vprintf(fmt, ap);
	printf("\n");
	va_end(ap);
}

static void flush_all(void) { fflush(stdout); }

/* pointer -> id; *alive tells whether that object still exists */
static int id_of(const void *p, int *alive)
{
	for (size_t i = n_hist; i-- > 0;) {
		if (hist[i].p == p && hist[i].alive) { *alive = 1; return hist[i].id; }
	}
	for (size_t i = n_hist; i-- > 0;) {
		if (hist[i].p == p) { *alive = 0; return hist[i].id; }
	}
	*alive = 0;
	return -1;
}

static void show_ptr(const void *p)
{
	if (p == NULL) { printf("-"); return; }
	int alive;
	int id = id_of(p, &alive);
	if (id < 0) printf("?");
	else if (alive) printf("%d", id);
	else printf("%d!freed", id);
}

static int cmp_int(const void *a, const void *b) { return *(const int *)a - *(const int *)b; }

static void show_state(void)
{
	printf("STATE cur=");
	show_ptr(loop.current_ev);
	printf(" pend=");
	if (loop.pending_events == NULL) {
		if (loop.num_pending_events != 0) printf("NULL(%d)", loop.num_pending_events);
		else printf("-");
	} else if (!in_run) {
		/* the array lived in eventloop_epoll_run's frame: do not touch it */
		printf("STALE(%d)", loop.num_pending_events);
	} else if (loop.num_pending_events <= 0) {
		printf("-");
	} else {
		for (int i = 0; i < loop.num_pending_events; i++) {
			if (i) printf(",");
			show_ptr(loop.pending_events[i].data.ptr);
			printf(":%x", (unsigned)loop.pending_events[i].events);
		}
	}
	printf(" reg=");
	if (n_interest == 0) printf("-");
	else {
		int fds[MAXID];
		for (size_t i = 0; i < n_interest; i++) fds[i] = interest[i].fd;
		qsort(fds, n_interest, sizeof(int), cmp_int);
		for (size_t i = 0; i < n_interest; i++) printf("%s%d", i ? "," : "", fds[i]);
	}
	printf(" go=%d\n", go_ahead ? 1 : 0);
}

/* ------------------------------------------------------------------ the scripted kernel */
int __wrap_epoll_create(int size)
{
	(void)size;
	epfd_open = 1;
	return EPFD;
}

int __real_close(int fd);
int __wrap_close(int fd)
{
	if (fd == EPFD) {
		if (!epfd_open) fault("close of the epoll descriptor twice");
		epfd_open = 0;
		return 0;
	}
	fault("close of foreign descriptor %d", fd);
	return __real_close(fd);
}

int __wrap_epoll_ctl(int epfd, int op, int fd, struct epoll_event *event)
{
	if (epfd != EPFD || !epfd_open) {
		fault("epoll_ctl on descriptor %d", epfd);
		errno = EBADF;
		return -1;
	}
	size_t at = n_interest;
	for (size_t i = 0; i < n_interest; i++) if (interest[i].fd == fd) at = i;
	if (op == EPOLL_CTL_ADD) {
		if (event == NULL) { fault("EPOLL_CTL_ADD without event"); errno = EFAULT; return -1; }
		if (next_add_fails) { next_add_fails = 0; errno = ENOSPC; return -1; }
		if (at < n_interest) { errno = EEXIST; return -1; }
		if (n_interest == MAXID) { errno = ENOSPC; return -1; }
		interest[n_interest].fd = fd;
		interest[n_interest].ptr = event->data.ptr;
		n_interest++;
		return 0;
	}
	if (op == EPOLL_CTL_DEL) {
		if (at == n_interest) { errno = ENOENT; return -1; }
		memmove(&interest[at], &interest[at + 1], (n_interest - at - 1) * sizeof(interest[0]));
		n_interest--;
		return 0;
	}
	fault("epoll_ctl op %d", op);
	errno = EINVAL;
	return -1;
}

int __wrap_epoll_wait(int epfd, struct epoll_event *events, int maxevents, int timeout)
{
	(void)timeout;
	if (epfd != EPFD || !epfd_open) fault("epoll_wait on descriptor %d", epfd);
	if (next_wait >= n_waits) {
		/* termination request while blocked: the signal handler clears go_ahead */
		go_ahead = 0;
		printf("TERM\n");
		errno = EINTR;
		return -1;
	}
	struct wait *w = &waits[next_wait++];
	if (w->kind == 'I') {
		printf("EINTR\n");
		errno = EINTR;
		return -1;
	}
	if (w->kind == 'E') {
		printf("WAITERR\n");
		errno = EBADF;
		return -1;
	}
	int n = 0;
	for (int k = 0; k < w->n && n < maxevents; k++) {
		for (size_t i = 0; i < n_interest; i++) {
			if (interest[i].fd == w->ids[k]) {
				memset(&events[n], 0, sizeof(events[n]));
				events[n].data.ptr = interest[i].ptr;
				events[n].events = w->masks[k];
				n++;
				break;
			}
		}
	}
	printf("HARVEST n=%d ", n);
	if (n == 0) printf("-");
	for (int i = 0; i < n; i++) {
		if (i) printf(",");
		show_ptr(events[i].data.ptr);
		printf(":%x", (unsigned)events[i].events);
	}
	printf("\n");
	return n;
}

/* ------------------------------------------------------------------ io_events and their callbacks */
static enum eventloop_return cb_read(struct io_event *ev);
static enum eventloop_return cb_write(struct io_event *ev);
static enum eventloop_return cb_error(struct io_event *ev);

static void do_add(int id, int kernel_ok)
{
	struct io_event *ev = objs[id].ev;
	int fresh = 0;
	if (ev == NULL) {
		ev = malloc(sizeof(*ev));
		memset(ev, 0, sizeof(*ev));
		ev->sock = id;
		ev->read_function = objs[id].r ? cb_read : NULL;
		ev->write_function = objs[id].w ? cb_write : NULL;
		ev->error_function = cb_error;
		ev->loop = &loop.loop;
		fresh = 1;
		hist[n_hist].p = ev;
		hist[n_hist].id = id;
		hist[n_hist].alive = 1;
		n_hist++;
		if (n_hist == sizeof(hist) / sizeof(hist[0])) n_hist = 0;
	}
	next_add_fails = !kernel_ok;
	enum eventloop_return rc = eventloop_epoll_add(&loop, ev);
	next_add_fails = 0;
	if (rc == EL_CONTINUE_LOOP) {
		objs[id].ev = ev;
		printf("ADD %d ok\n", id);
	} else {
		if (rc != EL_ABORT_LOOP) fault("eventloop_epoll_add returned %d", (int)rc);
		printf("ADD %d fail\n", id);
		if (fresh) {
			for (size_t i = n_hist; i-- > 0;) if (hist[i].p == ev && hist[i].alive) { hist[i].alive = 0; break; }
			free(ev);
		}
	}
}

static void do_remove(int id)
{
	struct io_event *ev = objs[id].ev;
	if (ev == NULL) {
		/* not registered: remove of an io_event the loop has never seen (or has forgotten) */
		struct io_event tmp;
		memset(&tmp, 0, sizeof(tmp));
		tmp.sock = id;
		eventloop_epoll_remove(&loop, &tmp);
		printf("REMOVE %d\n", id);
		return;
	}
	eventloop_epoll_remove(&loop, ev);
	for (size_t i = n_hist; i-- > 0;) if (hist[i].p == ev && hist[i].alive) { hist[i].alive = 0; break; }
	objs[id].ev = NULL;
	free(ev);
	printf("REMOVE %d\n", id);
}

static enum eventloop_return cb(struct io_event *ev, const char *fn)
{
	int alive;
	int id = id_of(ev, &alive);
	if (id < 0) printf("CALL ? %s\n", fn);
	else printf("CALL %d %s\n", id, fn);
	if (!alive) fault("%s function entered with io_event %d that is not alive", fn, id);
	struct answer none = { 'C', 0, { { 0, 0 } } };
	struct answer *a = next_answer < n_answers ? &answers[next_answer++] : &none;
	for (int i = 0; i < a->n_acts; i++) {
		switch (a->acts[i].kind) {
		case '-': do_remove(a->acts[i].id); break;
		case '+': do_add(a->acts[i].id, 1); break;
		case '!': do_add(a->acts[i].id, 0); break;
		case 'S': go_ahead = 0; printf("STOP\n"); break;
		}
	}
	show_state();
	printf("RETCB %c\n", a->ret);
	switch (a->ret) {
	case 'A': return EL_ABORT_LOOP;
	case 'R': return EL_EVENT_REMOVED;
	default: return EL_CONTINUE_LOOP;
	}
}

static enum eventloop_return cb_read(struct io_event *ev) { return cb(ev, "read"); }
static enum eventloop_return cb_write(struct io_event *ev) { return cb(ev, "write"); }
static enum eventloop_return cb_error(struct io_event *ev) { return cb(ev, "error"); }

/* ------------------------------------------------------------------ script */
static void reset(void)
{
	for (int i = 0; i < MAXID; i++) {
		if (objs[i].ev != NULL) free(objs[i].ev);
		objs[i].ev = NULL;
		objs[i].r = 1;
		objs[i].w = 1;
	}
	n_hist = 0;
	if (epfd_open) eventloop_epoll_destroy(&loop);
	n_interest = 0;
	n_answers = next_answer = 0;
	n_waits = next_wait = 0;
	go_ahead = 1;
	memset(&loop, 0xa5, sizeof(loop));
	if (eventloop_epoll_init(&loop) != 0) fault("eventloop_epoll_init failed");
	printf("RESET max=%d in=%x out=%x\n", (int)CONFIG_MAX_EPOLL_EVENTS, (unsigned)EPOLLIN, (unsigned)EPOLLOUT);
}

static int parse_id(const char *s, int *id)
{
	char *end;
	long v = strtol(s, &end, 10);
	if (end == s || *end != '\0' || v < 0 || v >= MAXID) return -1;
	*id = (int)v;
	return 0;
}

int main(void)
{
	static char line[1 << 16];
	static char outbuf[1 << 16];
	setvbuf(stdout, outbuf, _IOFBF, sizeof(outbuf));
	__sanitizer_set_death_callback(flush_all);
	for (int i = 0; i < MAXID; i++) { objs[i].r = 1; objs[i].w = 1; }
	while (fgets(line, sizeof(line), stdin) != NULL) {
		char *tok[512];
		int n = 0;
		for (char *p = strtok(line, " \t\r\n"); p != NULL && n < 512; p = strtok(NULL, " \t\r\n")) tok[n++] = p;
		if (n == 0 || tok[0][0] == '#') continue;
		int id;
		if (strcmp(tok[0], "reset") == 0 && n == 1) {
			reset();
		} else if (strcmp(tok[0], "ev") == 0 && n == 3 && parse_id(tok[1], &id) == 0) {
			objs[id].r = strchr(tok[2], 'r') != NULL;
			objs[id].w = strchr(tok[2], 'w') != NULL;
			printf("EV %d r=%d w=%d\n", id, objs[id].r, objs[id].w);
		} else if (strcmp(tok[0], "add") == 0 && n == 3 && parse_id(tok[1], &id) == 0) {
			do_add(id, strcmp(tok[2], "ok") == 0);
			show_state();
		} else if (strcmp(tok[0], "remove") == 0 && n == 2 && parse_id(tok[1], &id) == 0) {
			do_remove(id);
			show_state();
		} else if (strcmp(tok[0], "ans") == 0 && n >= 2 && n_answers < MAXQ) {
			struct answer *a = &answers[n_answers];
			a->ret = tok[1][0];
			a->n_acts = 0;
			int bad = (strchr("CAR", a->ret) == NULL) || tok[1][1] != '\0';
			for (int i = 2; i < n && !bad; i++) {
				struct act *c = &a->acts[a->n_acts];
				if (a->n_acts == MAXACT) { bad = 1; break; }
				c->kind = tok[i][0];
				c->id = 0;
				if (c->kind == 'S' && tok[i][1] == '\0') { a->n_acts++; continue; }
				if (strchr("-+!", c->kind) == NULL || parse_id(tok[i] + 1, &c->id) != 0) { bad = 1; break; }
				a->n_acts++;
			}
			if (bad) printf("ERROR bad answer\n"); else n_answers++;
		} else if (strcmp(tok[0], "wait") == 0 && n_waits < MAXQ) {
			struct wait *w = &waits[n_waits];
			w->n = 0;
			if (n == 2 && strcmp(tok[1], "EINTR") == 0) { w->kind = 'I'; n_waits++; continue; }
			if (n == 2 && strcmp(tok[1], "ERR") == 0) { w->kind = 'E'; n_waits++; continue; }
			w->kind = 'B';
			int bad = 0;
			for (int i = 1; i < n && !bad; i++) {
				char *colon = strchr(tok[i], ':');
				if (colon == NULL || w->n == 64) { bad = 1; break; }
				*colon = '\0';
				char *end;
				unsigned long m = strtoul(colon + 1, &end, 16);
				if (parse_id(tok[i], &w->ids[w->n]) != 0 || end == colon + 1 || *end != '\0') { bad = 1; break; }
				w->masks[w->n] = (uint32_t)m;
				w->n++;
			}
			if (bad) printf("ERROR bad ready list\n"); else n_waits++;
		} else if (strcmp(tok[0], "run") == 0 && n == 1) {
			in_run = 1;
			int rc = eventloop_epoll_run(&loop, &go_ahead);
			in_run = 0;
			printf("RET %d\n", rc);
			show_state();
			printf("LEFT answers=%zu\n", n_answers - next_answer);
			n_answers = next_answer = 0;
			n_waits = next_wait = 0;
			go_ahead = 1;
		} else {
			printf("ERROR unknown op\n");
		}
	}
	fflush(stdout);
	return 0;
}
