/*
 * Component harness `cjson`: the REAL /repo/src/json/cJSON.c (#included below so that the statics
 * parse_string / print_number are reachable and strtod can be observed; nothing in it is edited).
 *
 * Script (stdin), one op per line - the same script the Lean driver `drv_cjson` reads:
 *
 *   p <hex>          cJSON_ParseWithLengthOpts(buf, len, &end, 0) exactly as src/parse.c calls it.  The
 *                    bytes live in a malloc(len) block WITHOUT a trailing NUL, so ASan sees any read at
 *                    offset >= len.   ->  `ok <end-buf> <tree> <printed hex>`  |  `FAIL <end-buf>`
 *                    (<printed hex> = cJSON_PrintUnformatted of the parsed tree; the driver omits it)
 *   s <off> <hex>    parse_string() alone on a parse_buffer {content, length, offset=<off>}; the allocation
 *                    is pre-filled with a sentinel so that the number of bytes written is visible
 *                    ->  `ok <new offset> alloc=<allocation_length> raw=<hex of the bytes written>`
 *                     |  `FAIL <new offset>`
 *   w <tree>         build the tree with the public constructors and cJSON_PrintUnformatted it
 *                    ->  `ok <hex>` | `FAIL`
 *   n <bits16>       print_number() of the double with that IEEE-754 image -> `ok <hex>` (the number oracle)
 *
 * <tree> (prefix form, blank separated):  n | t | f | N<token hex>:<bits hex> | s<hex> | a<k> item*k |
 *   o<k> (<key hex> value)*k ; `-` is the empty byte string.  For a parsed number <token> is the span
 *   strtod consumed and <bits> the double it returned; for `w` the harness uses <bits> only.
 *
 * A sanitizer report ends the process (the check restarts the script after the offending line).
 */
#include <stdint.h>
#include <stdio.h>
#include <stdlib.h>
#include <string.h>
#include <math.h>
#include <limits.h>
#include <ctype.h>
#include <float.h>

/* ---- strtod observer: every call parse_number makes, in order */
#define MAXNUM 65536
static struct { unsigned char tok[64]; unsigned len; } numlog[MAXNUM];
static unsigned numlog_n;

static double h_strtod(const char *s, char **end)
{
	double d = strtod(s, end);
	if (numlog_n < MAXNUM) {
		size_t used = (size_t)(*end - s);
		if (used > 63) used = 63;
		memcpy(numlog[numlog_n].tok, s, used);
		numlog[numlog_n].len = (unsigned)used;
		numlog_n++;
	}
	return d;
}

#define strtod h_strtod
#include "json/cJSON.c"
#undef strtod

#if defined(__SANITIZE_ADDRESS__)
#include <sanitizer/common_interface_defs.h>
static void on_death(void) { fflush(stdout); }
#endif

/* ------------------------------------------------------------------ hex */
static int nib(int c)
{
	if (c >= '0' && c <= '9') return c - '0';
	if (c >= 'a' && c <= 'f') return c - 'a' + 10;
	if (c >= 'A' && c <= 'F') return c - 'A' + 10;
	return -1;
}

/* decodes into an exactly sized malloc block (malloc(1) for the empty string, length 0) */
static unsigned char *unhex(const char *s, size_t *len)
{
	size_t n = strlen(s);
	if (strcmp(s, "-") == 0) n = 0;
	*len = n / 2;
	unsigned char *b = malloc(*len ? *len : 1);
	for (size_t i = 0; i < *len; i++) b[i] = (unsigned char)(nib(s[2 * i]) * 16 + nib(s[2 * i + 1]));
	return b;
}

static void puthex(const unsigned char *b, size_t n)
{
	static const char d[] = "0123456789abcdef";
	if (n == 0) { putchar('-'); return; }
	for (size_t i = 0; i < n; i++) { putchar(d[b[i] >> 4]); putchar(d[b[i] & 15]); }
}

/* ------------------------------------------------------------------ tree dump */
static unsigned num_cursor;

static void dump(const cJSON *it)
{
	switch (it->type & 0xFF) {
	case cJSON_NULL: fputs(" n", stdout); break;
	case cJSON_False: fputs(" f", stdout); break;
	case cJSON_True: fputs(" t", stdout); break;
	case cJSON_Number: {
		uint64_t bits;
		double d = it->valuedouble;
		memcpy(&bits, &d, 8);
		fputs(" N", stdout);
		if (num_cursor < numlog_n) puthex(numlog[num_cursor].tok, numlog[num_cursor].len); else putchar('?');
		num_cursor++;
		printf(":%llx", (unsigned long long)bits);
		break;
	}
	case cJSON_String:
		fputs(" s", stdout);
		puthex((const unsigned char *)it->valuestring, strlen(it->valuestring));
		break;
	case cJSON_Array: {
		int k = 0;
		for (const cJSON *c = it->child; c; c = c->next) k++;
		printf(" a%d", k);
		for (const cJSON *c = it->child; c; c = c->next) dump(c);
		break;
	}
	case cJSON_Object: {
		int k = 0;
		for (const cJSON *c = it->child; c; c = c->next) k++;
		printf(" o%d", k);
		for (const cJSON *c = it->child; c; c = c->next) {
			putchar(' ');
			puthex((const unsigned char *)c->string, strlen(c->string));
			dump(c);
		}
		break;
	}
	default: printf(" ?%d", it->type); break;
	}
}

/* ------------------------------------------------------------------ tree reader (for `w`) */
static char *next_tok(char **sp)
{
	char *s = *sp;
	while (*s == ' ') s++;
	if (*s == 0 || *s == '\n') return NULL;
	char *t = s;
	while (*s && *s != ' ' && *s != '\n') s++;
	if (*s) *s++ = 0;
	*sp = s;
	return t;
}

static char *cstr_of_hex(const char *h)
{
	size_t n;
	unsigned char *b = unhex(h, &n);
	char *c = malloc(n + 1);
	memcpy(c, b, n);
	c[n] = 0;
	free(b);
	return c;
}

static cJSON *build(char **sp)
{
	char *t = next_tok(sp);
	if (!t) return NULL;
	switch (t[0]) {
	case 'n': return cJSON_CreateNull();
	case 't': return cJSON_CreateTrue();
	case 'f': return cJSON_CreateFalse();
	case 'N': {
		char *c = strchr(t, ':');
		if (!c) return NULL;
		uint64_t bits = strtoull(c + 1, NULL, 16);
		double d;
		memcpy(&d, &bits, 8);
		return cJSON_CreateNumber(d);
	}
	case 's': {
		char *c = cstr_of_hex(t + 1);
		cJSON *r = cJSON_CreateString(c);
		free(c);
		return r;
	}
	case 'a': {
		int k = atoi(t + 1);
		cJSON *a = cJSON_CreateArray();
		for (int i = 0; i < k; i++) {
			cJSON *e = build(sp);
			if (!e) { cJSON_Delete(a); return NULL; }
			cJSON_AddItemToArray(a, e);
		}
		return a;
	}
	case 'o': {
		int k = atoi(t + 1);
		cJSON *o = cJSON_CreateObject();
		for (int i = 0; i < k; i++) {
			char *kt = next_tok(sp);
			if (!kt) { cJSON_Delete(o); return NULL; }
			char *key = cstr_of_hex(kt);
			cJSON *e = build(sp);
			if (!e) { free(key); cJSON_Delete(o); return NULL; }
			cJSON_AddItemToObject(o, key, e);
			free(key);
		}
		return o;
	}
	default: return NULL;
	}
}

/* ------------------------------------------------------------------ parse_string alone */
static unsigned char *last_alloc;
static size_t last_alloc_size;
static unsigned alloc_calls;

static void *sentinel_alloc(size_t n)
{
	unsigned char *p = malloc(n ? n : 1);
	memset(p, 0xAA, n);
	last_alloc = p;
	last_alloc_size = n;
	alloc_calls++;
	return p;
}

static void op_string(size_t off, const char *hex)
{
	size_t len;
	unsigned char *buf = unhex(hex, &len);
	parse_buffer pb = { 0, 0, 0, 0, { 0, 0, 0 } };
	cJSON item;
	memset(&item, 0, sizeof item);
	pb.content = buf;
	pb.length = len;
	pb.offset = off;
	pb.hooks.allocate = sentinel_alloc;
	pb.hooks.deallocate = free;
	pb.hooks.reallocate = NULL;
	alloc_calls = 0;
	last_alloc = NULL;
	if (parse_string(&item, &pb)) {
		/* bytes written = everything before the last byte that is not the sentinel (the terminator) */
		size_t w = last_alloc_size;
		while (w > 0 && last_alloc[w - 1] == 0xAA) w--;
		/* last_alloc[w-1] is the terminating NUL */
		printf("ok %zu alloc=%zu raw=", pb.offset, last_alloc_size - 1);
		puthex(last_alloc, w ? w - 1 : 0);
		putchar('\n');
		free(item.valuestring);
	} else {
		printf("FAIL %zu\n", pb.offset);
	}
	free(buf);
}

/* ------------------------------------------------------------------ main loop */
int main(void)
{
	static char line[1 << 22];
#if defined(__SANITIZE_ADDRESS__)
	__sanitizer_set_death_callback(on_death);
#endif
	while (fgets(line, sizeof line, stdin)) {
		char *sp = line;
		char *op = next_tok(&sp);
		if (!op) { puts("-"); continue; }
		if (strcmp(op, "p") == 0) {
			char *h = next_tok(&sp);
			size_t len;
			unsigned char *buf = unhex(h ? h : "-", &len);
			const char *end = NULL;
			numlog_n = 0;
			num_cursor = 0;
			cJSON *root = cJSON_ParseWithLengthOpts((const char *)buf, len, &end, 0);
			if (!root) {
				printf("FAIL %td\n", end ? end - (const char *)buf : (ptrdiff_t)-1);
			} else {
				printf("ok %td", end - (const char *)buf);
				dump(root);
				char *txt = cJSON_PrintUnformatted(root);
				putchar(' ');
				if (txt) puthex((unsigned char *)txt, strlen(txt)); else fputs("PRINTFAIL", stdout);
				putchar('\n');
				free(txt);
				cJSON_Delete(root);
			}
			free(buf);
		} else if (strcmp(op, "s") == 0) {
			char *o = next_tok(&sp);
			char *h = next_tok(&sp);
			op_string((size_t)strtoull(o ? o : "0", NULL, 10), h ? h : "-");
		} else if (strcmp(op, "w") == 0) {
			cJSON *t = build(&sp);
			char *txt = t ? cJSON_PrintUnformatted(t) : NULL;
			if (!txt) puts("FAIL");
			else { fputs("ok ", stdout); puthex((unsigned char *)txt, strlen(txt)); putchar('\n'); }
			free(txt);
			cJSON_Delete(t);
		} else if (strcmp(op, "n") == 0) {
			char *b = next_tok(&sp);
			uint64_t bits = strtoull(b ? b : "0", NULL, 16);
			cJSON item;
			memset(&item, 0, sizeof item);
			memcpy(&item.valuedouble, &bits, 8);
			unsigned char out[64];
			printbuffer pbuf;
			memset(&pbuf, 0, sizeof pbuf);
			memset(out, 0, sizeof out);
			pbuf.buffer = out;
			pbuf.length = sizeof out;
			pbuf.noalloc = 1;
			if (print_number(&item, &pbuf)) { fputs("ok ", stdout); puthex(out, strlen((char *)out)); putchar('\n'); }
			else puts("FAIL");
		} else {
			puts("error op");
		}
	}
	fflush(stdout);
	return 0;
}
