/*
 * Component harness `utf8` (property C18): runs the REAL utf8_checker.c of the tree under test on a
 * line script (stdin) and prints one observation line per op: verdict + the real struct fields.
 * The Lean driver drv_utf8 (lean/Cjet/Drv/Utf8.lean) answers the same script from the model.
 *
 *   info                          -> info width=<sizeof(uint_fast16_t)> le=<0|1>
 *   reset                         -> st ss ll nn
 *   set <ss> <ll> <nn>            -> st ss ll nn               (hex bytes; sets the struct directly)
 *   state                         -> st ss ll nn
 *   bytes <hex|-> <c>             -> r <0|1> st ss ll nn        cjet_is_byte_sequence_valid
 *   text  <hex|-> <c>             -> r ...                      cjet_is_text_valid
 *   word32 <c> <w>...             -> r ...                      cjet_is_word_sequence_valid (word VALUES, hex)
 *   word64 <c> <w>...             -> r ...                      cjet_is_word64_sequence_valid
 *   auto <align> <hex|-> <c>      -> r ...                      cjet_is_word_sequence_valid_auto_alligned, data placed
 *                                                               at offset <align> (0..7) of an 8-aligned buffer
 *   row <ss> <ll> <nn>            -> row r:ss:ll:nn x256        one-byte call (complete=0) from that state, every byte
 *   prod32 <ss> <ll> <nn> <c> <reps>  -> prod32 n= acc= digest= one-word call for every 4-tuple of the bytes <reps>
 *   prod32v ...                   -> one line per word `w <word> r .. st ..`
 *   prod64 / prod64v              -> same, 8-tuples
 *   spec <hex|->                  -> spec <0|1>                 C-coded reference automaton (complete text)
 *   refprod32 / refprod64 <ss> <ll> <nn> <c> <reps>             the product through the reference automaton
 *   sweep32 <lo> <hi> <c>         -> sweep32 n= acc= mism= first= digest=   every word in [lo,hi) from the initial
 *                                    state: real code against the reference automaton (harness only)
 *   sweep64 <reps> <lo> <hi> <c>  -> sweep64 ...  tuples lo..hi-1 of reps^8 as 64-bit words, likewise (harness only)
 */
#include <stdbool.h>
#include <stdint.h>
#include <stdio.h>
#include <stdlib.h>
#include <string.h>

#include "utf8_checker.h"

/* ------------------------------------------------------------------ reference automaton (RFC 3629 grammar) */
/* Independent of utf8_checker.c: state = (lead byte, bytes seen so far of the current character).
 * pos 0 = at a character boundary. */
struct ref { uint8_t lead; uint8_t pos; };

static int ref_len(uint8_t b)
{
	if (b <= 0x7F) return 1;
	if (b >= 0xC2 && b <= 0xDF) return 2;
	if (b >= 0xE0 && b <= 0xEF) return 3;
	if (b >= 0xF0 && b <= 0xF4) return 4;
	return 0;
}

/* returns false when the byte cannot continue a well-formed text; the state is then back at a boundary */
static bool ref_step(struct ref *r, uint8_t b)
{
	if (r->pos == 0) {
		int l = ref_len(b);
		if (l == 0) return false;
		if (l > 1) { r->lead = b; r->pos = 1; }
		return true;
	}
	uint8_t lo = 0x80, hi = 0xBF;
	if (r->pos == 1) {
		if (r->lead == 0xE0) lo = 0xA0;
		if (r->lead == 0xED) hi = 0x9F;
		if (r->lead == 0xF0) lo = 0x90;
		if (r->lead == 0xF4) hi = 0x8F;
	}
	if (b < lo || b > hi) { r->pos = 0; r->lead = 0; return false; }
	r->pos++;
	if (r->pos == ref_len(r->lead)) { r->pos = 0; r->lead = 0; }
	return true;
}

/* the reference state rendered as the checker struct a correct implementation would hold */
static void ref_as_checker(const struct ref *r, uint8_t out[3])
{
	if (r->pos == 0) { out[0] = 0xFF; out[1] = 1; out[2] = 1; return; }
	out[0] = r->lead; out[1] = (uint8_t) ref_len(r->lead); out[2] = (uint8_t) (r->pos + 1);
}

static bool ref_from_checker(struct ref *r, uint8_t ss, uint8_t ll, uint8_t nn)
{
	if (ss == 0xFF && ll == 1 && nn == 1) { r->lead = 0; r->pos = 0; return true; }
	if (ref_len(ss) >= 2 && ll == ref_len(ss) && nn >= 2 && nn <= ll) { r->lead = ss; r->pos = (uint8_t) (nn - 1); return true; }
	return false;
}

static bool ref_run(struct ref *r, const uint8_t *p, size_t n, bool complete)
{
	for (size_t i = 0; i < n; i++) {
		if (!ref_step(r, p[i])) return false;
	}
	if (complete && r->pos != 0) { r->pos = 0; r->lead = 0; return false; }
	return true;
}

/* ------------------------------------------------------------------ helpers */
static struct cjet_utf8_checker chk;

static uint64_t fnv;
static void fnv_init(void) { fnv = 0xcbf29ce484222325ULL; }
static inline void fnv_byte(uint8_t b) { fnv ^= b; fnv *= 0x100000001b3ULL; }

static int hexval(int c)
{
	if (c >= '0' && c <= '9') return c - '0';
	if (c >= 'a' && c <= 'f') return c - 'a' + 10;
	if (c >= 'A' && c <= 'F') return c - 'A' + 10;
	return -1;
}

/* parses hex (or "-") into a malloc'ed buffer; returns length or -1 */
static long parse_hex(const char *s, uint8_t **out)
{
	*out = NULL;
	if (s == NULL) return -1;
	if (strcmp(s, "-") == 0) { *out = malloc(1); return 0; }
	size_t n = strlen(s);
	if (n % 2) return -1;
	uint8_t *b = malloc(n / 2 + 1);
	for (size_t i = 0; i < n / 2; i++) {
		int a = hexval(s[2 * i]), c = hexval(s[2 * i + 1]);
		if (a < 0 || c < 0) { free(b); return -1; }
		b[i] = (uint8_t) (a * 16 + c);
	}
	*out = b;
	return (long) (n / 2);
}

static void print_r(bool r)
{
	printf("r %d st %02x %02x %02x\n", r ? 1 : 0, chk.start_byte, chk.length, chk.next_byte);
}

static void print_st(void)
{
	printf("st %02x %02x %02x\n", chk.start_byte, chk.length, chk.next_byte);
}

#define MAXTOK 4100
static char *tok[MAXTOK];
static int ntok;

static void split(char *line)
{
	ntok = 0;
	char *save = NULL;
	for (char *t = strtok_r(line, " \t\r\n", &save); t && ntok < MAXTOK; t = strtok_r(NULL, " \t\r\n", &save)) tok[ntok++] = t;
}

static uint8_t hx8(const char *s) { return (uint8_t) strtoul(s, NULL, 16); }

/* one-word call through the real code (wide = 4 or 8), from a given state */
static bool real_word(int wide, uint64_t w, uint8_t ss, uint8_t ll, uint8_t nn, bool complete)
{
	chk.start_byte = ss; chk.length = ll; chk.next_byte = nn;
	if (wide == 4) {
		uint32_t w32 = (uint32_t) w;
		return cjet_is_word_sequence_valid(&chk, &w32, 1, complete);
	}
	return cjet_is_word64_sequence_valid(&chk, &w, 1, complete);
}

/* product of representative bytes: tuple index counts with byte 0 fastest; word = little-endian packing
 * (byte j of the tuple is bits 8j..8j+7 of the word value) */
static void do_prod(int wide, bool verbose, bool reference)
{
	if (ntok < 6) { printf("error args\n"); return; }
	uint8_t ss = hx8(tok[1]), ll = hx8(tok[2]), nn = hx8(tok[3]);
	bool complete = atoi(tok[4]) != 0;
	uint8_t *reps;
	long k = parse_hex(tok[5], &reps);
	if (k <= 0) { printf("error reps\n"); free(reps); return; }
	uint64_t total = 1;
	for (int i = 0; i < wide; i++) total *= (uint64_t) k;
	uint64_t acc = 0;
	fnv_init();
	int idx[8] = {0};
	for (uint64_t t = 0; t < total; t++) {
		uint64_t w = 0;
		uint8_t bytes[8];
		for (int j = 0; j < wide; j++) { bytes[j] = reps[idx[j]]; w |= ((uint64_t) bytes[j]) << (8 * j); }
		bool r;
		uint8_t st[3];
		if (reference) {
			struct ref rf;
			if (!ref_from_checker(&rf, ss, ll, nn)) { printf("error state\n"); free(reps); return; }
			r = ref_run(&rf, bytes, (size_t) wide, complete);
			ref_as_checker(&rf, st);
		} else {
			r = real_word(wide, w, ss, ll, nn, complete);
			st[0] = chk.start_byte; st[1] = chk.length; st[2] = chk.next_byte;
		}
		if (r) acc++;
		fnv_byte(r ? 1 : 0); fnv_byte(st[0]); fnv_byte(st[1]); fnv_byte(st[2]);
		if (verbose) {
			if (wide == 4) printf("w %08x r %d st %02x %02x %02x\n", (unsigned) w, r ? 1 : 0, st[0], st[1], st[2]);
			else printf("w %016llx r %d st %02x %02x %02x\n", (unsigned long long) w, r ? 1 : 0, st[0], st[1], st[2]);
		}
		for (int j = 0; j < wide; j++) { if (++idx[j] < k) break; idx[j] = 0; }
	}
	printf("%s%s%d n=%llu acc=%llu digest=%016llx\n", reference ? "ref" : "", "prod", wide * 8, (unsigned long long) total,
	       (unsigned long long) acc, (unsigned long long) fnv);
	free(reps);
}

static void do_sweep32(void)
{
	if (ntok < 4) { printf("error args\n"); return; }
	uint64_t lo = strtoull(tok[1], NULL, 16), hi = strtoull(tok[2], NULL, 16);
	bool complete = atoi(tok[3]) != 0;
	uint64_t acc = 0, mism = 0, first = 0;
	fnv_init();
	for (uint64_t w = lo; w < hi; w++) {
		bool r = real_word(4, w, 0xFF, 1, 1, complete);
		uint8_t bytes[4] = {(uint8_t) w, (uint8_t) (w >> 8), (uint8_t) (w >> 16), (uint8_t) (w >> 24)};
		struct ref rf = {0, 0};
		bool rr = ref_run(&rf, bytes, 4, complete);
		uint8_t st[3];
		ref_as_checker(&rf, st);
		if (r) acc++;
		if (r != rr || st[0] != chk.start_byte || st[1] != chk.length || st[2] != chk.next_byte) {
			if (mism == 0) first = w;
			mism++;
		}
		fnv_byte(r ? 1 : 0); fnv_byte(chk.start_byte); fnv_byte(chk.length); fnv_byte(chk.next_byte);
	}
	if (mism) printf("sweep32 n=%llu acc=%llu mism=%llu first=%08llx digest=%016llx\n", (unsigned long long) (hi - lo),
		         (unsigned long long) acc, (unsigned long long) mism, (unsigned long long) first, (unsigned long long) fnv);
	else printf("sweep32 n=%llu acc=%llu mism=0 first=- digest=%016llx\n", (unsigned long long) (hi - lo),
		    (unsigned long long) acc, (unsigned long long) fnv);
}

/* sweep64 <reps> <lo> <hi> <c>: tuples number lo..hi-1 of reps^8 (byte 0 fastest) as one 64-bit word from
 * the initial state: real code against the reference automaton (harness only) */
static void do_sweep64(void)
{
	if (ntok < 5) { printf("error args\n"); return; }
	uint8_t *reps;
	long k = parse_hex(tok[1], &reps);
	if (k <= 0) { printf("error reps\n"); free(reps); return; }
	uint64_t lo = strtoull(tok[2], NULL, 16), hi = strtoull(tok[3], NULL, 16);
	bool complete = atoi(tok[4]) != 0;
	uint64_t acc = 0, mism = 0, first = 0;
	int idx[8];
	uint64_t t0 = lo;
	for (int j = 0; j < 8; j++) { idx[j] = (int) (t0 % (uint64_t) k); t0 /= (uint64_t) k; }
	fnv_init();
	for (uint64_t t = lo; t < hi; t++) {
		uint8_t bytes[8];
		uint64_t w = 0;
		for (int j = 0; j < 8; j++) { bytes[j] = reps[idx[j]]; w |= ((uint64_t) bytes[j]) << (8 * j); }
		bool r = real_word(8, w, 0xFF, 1, 1, complete);
		struct ref rf = {0, 0};
		bool rr = ref_run(&rf, bytes, 8, complete);
		uint8_t st[3];
		ref_as_checker(&rf, st);
		if (r) acc++;
		if (r != rr || st[0] != chk.start_byte || st[1] != chk.length || st[2] != chk.next_byte) {
			if (mism == 0) first = w;
			mism++;
		}
		fnv_byte(r ? 1 : 0); fnv_byte(chk.start_byte); fnv_byte(chk.length); fnv_byte(chk.next_byte);
		for (int j = 0; j < 8; j++) { if (++idx[j] < k) break; idx[j] = 0; }
	}
	if (mism) printf("sweep64 n=%llu acc=%llu mism=%llu first=%016llx digest=%016llx\n", (unsigned long long) (hi - lo),
		         (unsigned long long) acc, (unsigned long long) mism, (unsigned long long) first, (unsigned long long) fnv);
	else printf("sweep64 n=%llu acc=%llu mism=0 first=- digest=%016llx\n", (unsigned long long) (hi - lo),
		    (unsigned long long) acc, (unsigned long long) fnv);
	free(reps);
}

int main(void)
{
	static char line[1 << 20];
	cjet_init_checker(&chk);
	while (fgets(line, sizeof(line), stdin)) {
		split(line);
		if (ntok == 0) continue;
		const char *op = tok[0];
		if (strcmp(op, "info") == 0) {
			uint32_t one = 1;
			printf("info width=%u le=%d\n", (unsigned) sizeof(uint_fast16_t), (int) *(uint8_t *) &one);
		} else if (strcmp(op, "reset") == 0) {
			cjet_init_checker(&chk);
			print_st();
		} else if (strcmp(op, "state") == 0) {
			print_st();
		} else if (strcmp(op, "set") == 0 && ntok >= 4) {
			chk.start_byte = hx8(tok[1]); chk.length = hx8(tok[2]); chk.next_byte = hx8(tok[3]);
			print_st();
		} else if ((strcmp(op, "bytes") == 0 || strcmp(op, "text") == 0) && ntok >= 3) {
			uint8_t *raw;
			long n = parse_hex(tok[1], &raw);
			if (n < 0) { printf("error hex\n"); continue; }
			/* exact-size heap copy so that ASan sees any over-read */
			uint8_t *b = malloc(n ? (size_t) n : 1);
			memcpy(b, raw, (size_t) n);
			bool c = atoi(tok[2]) != 0;
			bool r = op[0] == 'b' ? cjet_is_byte_sequence_valid(&chk, b, (size_t) n, c)
			                      : cjet_is_text_valid(&chk, (const char *) b, (size_t) n, c);
			print_r(r);
			free(b); free(raw);
		} else if (strcmp(op, "word32") == 0 && ntok >= 2) {
			bool c = atoi(tok[1]) != 0;
			size_t n = (size_t) (ntok - 2);
			if (n == 1 && strcmp(tok[2], "-") == 0) n = 0;
			uint32_t *w = malloc(n ? n * 4 : 4);
			for (size_t i = 0; i < n; i++) w[i] = (uint32_t) strtoul(tok[2 + i], NULL, 16);
			print_r(cjet_is_word_sequence_valid(&chk, w, n, c));
			free(w);
		} else if (strcmp(op, "word64") == 0 && ntok >= 2) {
			bool c = atoi(tok[1]) != 0;
			size_t n = (size_t) (ntok - 2);
			if (n == 1 && strcmp(tok[2], "-") == 0) n = 0;
			uint64_t *w = malloc(n ? n * 8 : 8);
			for (size_t i = 0; i < n; i++) w[i] = (uint64_t) strtoull(tok[2 + i], NULL, 16);
			print_r(cjet_is_word64_sequence_valid(&chk, w, n, c));
			free(w);
		} else if (strcmp(op, "auto") == 0 && ntok >= 4) {
			unsigned align = (unsigned) atoi(tok[1]) & 7u;
			uint8_t *raw;
			long n = parse_hex(tok[2], &raw);
			if (n < 0) { printf("error hex\n"); continue; }
			bool c = atoi(tok[3]) != 0;
			/* exact extent: the allocation ends where the data ends (ASan redzone right behind it) */
			uint8_t *base = NULL;
			if (posix_memalign((void **) &base, 8, (size_t) n + align + (n + align == 0 ? 1 : 0)) != 0) { printf("error oom\n"); free(raw); continue; }
			memset(base, 0x80, align);
			memcpy(base + align, raw, (size_t) n);
			print_r(cjet_is_word_sequence_valid_auto_alligned(&chk, base + align, (size_t) n, c));
			free(base); free(raw);
		} else if (strcmp(op, "row") == 0 && ntok >= 4) {
			uint8_t ss = hx8(tok[1]), ll = hx8(tok[2]), nn = hx8(tok[3]);
			printf("row");
			for (int b = 0; b < 256; b++) {
				uint8_t byte = (uint8_t) b;
				chk.start_byte = ss; chk.length = ll; chk.next_byte = nn;
				bool r = cjet_is_byte_sequence_valid(&chk, &byte, 1, false);
				printf(" %d:%02x:%02x:%02x", r ? 1 : 0, chk.start_byte, chk.length, chk.next_byte);
			}
			printf("\n");
			cjet_init_checker(&chk);
		} else if (strcmp(op, "prod32") == 0) { do_prod(4, false, false); cjet_init_checker(&chk);
		} else if (strcmp(op, "prod32v") == 0) { do_prod(4, true, false); cjet_init_checker(&chk);
		} else if (strcmp(op, "prod64") == 0) { do_prod(8, false, false); cjet_init_checker(&chk);
		} else if (strcmp(op, "prod64v") == 0) { do_prod(8, true, false); cjet_init_checker(&chk);
		} else if (strcmp(op, "refprod32") == 0) { do_prod(4, false, true);
		} else if (strcmp(op, "refprod64") == 0) { do_prod(8, false, true);
		} else if (strcmp(op, "sweep32") == 0) { do_sweep32(); cjet_init_checker(&chk);
		} else if (strcmp(op, "sweep64") == 0) { do_sweep64(); cjet_init_checker(&chk);
		} else if (strcmp(op, "spec") == 0 && ntok >= 2) {
			uint8_t *raw;
			long n = parse_hex(tok[1], &raw);
			if (n < 0) { printf("error hex\n"); continue; }
			struct ref rf = {0, 0};
			printf("spec %d\n", ref_run(&rf, raw, (size_t) n, true) ? 1 : 0);
			free(raw);
		} else {
			printf("error op\n");
		}
	}
	return 0;
}
