/*
 * Component harness `deflate` (property C19): the REAL compression.c + zlib + the extension negotiation and
 * frame paths of websocket.c of the tree under test, driven by a line script on stdin.  Every op is
 * self-contained (fresh websocket per line), one observation line per op, tokens flushed as they are produced:
 * when a sanitizer aborts the process, the partial last line tells how far the op got and the check restarts
 * the harness behind that op (abnormal exit = a result).
 *
 * Ops shared with the model driver drv_deflate (lean/Cjet/Drv/Deflate.lean), same output format:
 *
 *   frags <n1,n2,..>            non-final compressed fragments of these sizes through binary_frame_received_comp
 *                               -> frags <off:len:cap:avail|skip>... contig=<0|1>      (skip = empty fragment)
 *                                  off/len = the memcpy range, cap = size word of the buffer at the copy,
 *                                  avail = strm->avail_in after the copy; contig = the buffer holds the
 *                                  concatenation of all fragments at offset 4
 *   offer <level> <hexvalue> [<hexafter>]
 *                               websocket_upgrade_on_header_value(Sec-WebSocket-Extensions) on a buffer holding
 *                               value ++ after ++ 64 zero bytes (the parser reads beyond `length`; see docs)
 *                               -> offer acc=<0|1> cmw=<n> cnc=<0|1> smw=<n> snc=<0|1> resp=<hex|->
 *                                  (resp only when accepted; otherwise `-`)
 *   outloop <total> <len>       (model only) the inflate output doubling loop
 *
 * Ops on the implementation only (property evaluated directly by the check):
 *
 *   offerx <level> <hexvalue>   the same call on a buffer of exactly `length` bytes (over-reads reach ASan)
 *   rt <setup> <mode> <cuts> <hexpayload>...
 *        setup  L<level>:<cmw>:<cnc>:<smw>:<snc>    fields set directly + alloc_compression (as compression_test)
 *               O<level>:<hexoffer>                 negotiated through the real header callback
 *        mode   comp = call the *_received_comp functions directly;  ws = masked frames through ws_get_header
 *               (text = same as comp with the text variants)
 *        cuts   `-` unfragmented, or a,b,c: fragment sizes; the remainder goes into one more final fragment,
 *               sizes beyond the data are cut down (so 0 appears)
 *        For every payload in order on ONE connection: server->client (real send_frame/websocket_compress, the
 *        peer = RFC 7692 client built directly on zlib inflates) and client->server (peer deflates, the real
 *        receive path inflates):  -> rt [need=<n> db=<n> bound=<n|-> s2c=<ok|bad|fail:..> c2s=<ok|bad|err:..> n=<complen> frags=<sizes>]...
 *        need = bytes zlib emits for this message incl. the tail (measured on a deflateCopy of the real stream;
 *        0 when deflate refuses, -1 when that stream is no longer usable), db = deflateBound(len),
 *        bound = websocket_compress_bound(len) (the buffer send_frame allocates; `-` on a tree without it)
 *   il <setup> <msg>...
 *        messages from the client on ONE connection, every frame masked and fed on its own through ws_get_header ..
 *        ws_handle_frame, with control frames between (in front of, behind) the fragments.
 *        msg = <t|b|T|B>/<cuts>/<ctl>/<hexpayload>   text / binary; lower case = compressed by the peer (RSV1 on the first
 *              frame), upper case = sent as it is;  cuts = `-` (one frame) or a.b.c as in rt;
 *              ctl = `-` or <pos><P|Q|X><hex>.... : a ping / pong / close frame with this payload behind `pos` fragments
 *              of this message (0 = in front of its first frame, number of fragments = behind its last one)
 *        -> il [c=<hex of what was cut up> frags=<sizes> : <events>|<state> ... ; v=<verdict> end=<open|closed|error>]...
 *           one token per frame fed: events = f<op>:<last>:<len>:<fnv> (frame callback), m<op>:<len>:<fnv> (message
 *           callback), pong:<hex> / close:<code>:<on_error called> (frames the server sent), `-` none;
 *           state = <is_fragmented><is_frag_compressed>:<frag_opcode>:<strm_decomp.avail_in>, `x` = connection closed.
 *           v = ok (delivered once, through the right callback, equal to the payload) | none | partial(n) | bad:...
 *           The model answers `il <t|b|T|B>/<fraghex.fraghex...>/<ctl>/<hexpayload>...` with the tokens alone.
 *   dec <setup> <mode> <cuts> <hexstream>          arbitrary bytes as a compressed message to the receive path
 *                               -> dec ret=<OK|ERROR|CLOSED> n=<outlen> h=<fnv of output>
 *   mut <setup> <mode> <cuts> <mutation> <hexpayload>   peer-compress the payload, damage the stream, feed it
 *        mutation  flip:<bit> | trunc:<n> | ins:<pos>:<byte> | set:<pos>:<byte>   (positions modulo the length)
 *                               -> mut ret=.. n=.. same=<0|1> clen=<n>
 *   comp <setup> <dest> <hexpayload>...
 *        the compressor alone, every payload in order on ONE connection, into a heap buffer of exactly `size` bytes:
 *        dest  w  = websocket_compress() (the 2*len contract of the tests), size = 2*len
 *              b  = websocket_compress_bounded() with size = websocket_compress_bound(len) (what send_frame does)
 *              +k / -k / =n  = websocket_compress_bounded() with size = need+k / need-k / n
 *        setup may be L0:... (level 0: the payload is copied)
 *        -> comp [full=<hex|ERR> db=<deflateBound> bound=<websocket_compress_bound|-> size=<n> ret=<n> out=<hex|-> tail=<0|1> peer=<ok|bad|->]...
 *           full = everything zlib emits for the message (measured on a deflateCopy of the real stream before the
 *           call; ERR = deflate refuses, e.g. Z_BUF_ERROR for an empty message behind a flush), need = its length;
 *           tail = the 4 bytes behind the returned data are 00 00 ff ff; peer = an RFC 7692 client inflates what was
 *           returned to the payload (so messages behind a refused one must still decode).
 *           The model answers `comp <level> <len> <size> <fullhex|ERR>` with the same ret/out/tail.
 *        On a tree without websocket_compress_bounded() only `w` works (others print `nobounded`).
 */
#include <ctype.h>
#include <stdarg.h>
#include <stdbool.h>
#include <stdint.h>
#include <stdio.h>
#include <stdlib.h>
#include <string.h>

#include "alloc.h"
#include "compression.h"
#include "http_connection.h"
#include "websocket.h"
#include "zlib.h"

/* present since the repair of F37; weak, so that the harness still links against a tree without them */
int websocket_compress_bounded(const struct websocket *s, uint8_t *dest, size_t dest_size, uint8_t *src, size_t length);
size_t websocket_compress_bound(const struct websocket *s, size_t length);
#pragma weak websocket_compress_bounded
#pragma weak websocket_compress_bound

/* ------------------------------------------------------------------ stubs */
static char last_log[512];
void log_err(const char *format, ...) { va_list ap; va_start(ap, format); vsnprintf(last_log, sizeof last_log, format, ap); va_end(ap); }
void log_warn(const char *format, ...) { (void)format; }
void log_info(const char *format, ...) { (void)format; }

#define P(...) do { printf(__VA_ARGS__); fflush(stdout); } while (0)

static unsigned nib(char c)
{
	if (c >= '0' && c <= '9') return (unsigned)(c - '0');
	if (c >= 'a' && c <= 'f') return (unsigned)(c - 'a' + 10);
	if (c >= 'A' && c <= 'F') return (unsigned)(c - 'A' + 10);
	return 0;
}

static uint8_t *unhex(const char *s, size_t *n)
{
	if (s == NULL || strcmp(s, "-") == 0) { *n = 0; return malloc(1); }
	size_t l = strlen(s) / 2;
	uint8_t *b = malloc(l + 1);
	for (size_t i = 0; i < l; i++) b[i] = (uint8_t)((nib(s[2 * i]) << 4) | nib(s[2 * i + 1]));
	*n = l;
	return b;
}

static void puthex(const uint8_t *b, size_t n)
{
	if (n == 0) { P("-"); return; }
	for (size_t i = 0; i < n; i++) printf("%02x", b[i]);
	fflush(stdout);
}

static uint32_t fnv(const uint8_t *b, size_t n)
{
	uint32_t h = 2166136261u;
	for (size_t i = 0; i < n; i++) { h ^= b[i]; h *= 16777619u; }
	return h;
}

static size_t parse_list(const char *s, size_t *out, size_t max)
{
	size_t n = 0;
	if (strcmp(s, "-") == 0) return 0;
	while (*s && n < max) {
		out[n++] = strtoul(s, (char **)&s, 10);
		if (*s == ',') s++;
	}
	return n;
}

/* ------------------------------------------------------------------ connection + websocket under test */
struct wire { uint8_t *buf; size_t len, cap; };
static struct wire sent;             /* what the real send path handed to writev */
static bool sent_bogus;              /* an iovec with an absurd length */
static struct wire inq;              /* bytes waiting for read_exactly */
static size_t inq_pos;
static struct { read_handler h; void *ctx; size_t num; bool armed; } pend;
static bool conn_closed, got_error;
static struct wire got;              /* payload delivered by the callbacks */
static unsigned got_msgs;

static void wire_add(struct wire *w, const void *p, size_t n)
{
	if (w->len + n + 1 > w->cap) { w->cap = (w->len + n + 1) * 2; w->buf = realloc(w->buf, w->cap); }
	if (n) memcpy(w->buf + w->len, p, n);
	w->len += n;
}

static int h_writev(void *this_ptr, struct socket_io_vector *io_vec, unsigned int count)
{
	(void)this_ptr;
	size_t total = 0;
	for (unsigned int i = 0; i < count; i++) {
		if (io_vec[i].iov_len > ((size_t)1 << 30)) { sent_bogus = true; return -1; }
		wire_add(&sent, io_vec[i].iov_base, io_vec[i].iov_len);
		total += io_vec[i].iov_len;
	}
	return (int)total;
}

static int h_read_exactly(void *this_ptr, size_t num, read_handler handler, void *ctx)
{
	(void)this_ptr;
	pend.h = handler; pend.ctx = ctx; pend.num = num; pend.armed = true;
	return 0;
}

static int h_close(void *this_ptr) { (void)this_ptr; conn_closed = true; return 0; }

static void pump(void)
{
	while (pend.armed && !conn_closed && inq.len - inq_pos >= pend.num) {
		/* hand over an exact-size copy so that reads beyond the frame are seen by ASan */
		uint8_t *chunk = malloc(pend.num ? pend.num : 1);
		memcpy(chunk, inq.buf + inq_pos, pend.num);
		inq_pos += pend.num;
		pend.armed = false;
		read_handler h = pend.h;
		h(pend.ctx, chunk, pend.num);
		free(chunk);
	}
}

static struct wire evs;              /* events of the frame being fed (op il) */
static bool ev_on;
static unsigned cb_kinds;            /* 1 message/binary, 2 message/text, 4 frame/binary, 8 frame/text */
static void ev_add(const char *fmt, ...)
{
	char tmp[700];
	va_list ap; va_start(ap, fmt); int n = vsnprintf(tmp, sizeof tmp, fmt, ap); va_end(ap);
	if (evs.len) wire_add(&evs, ",", 1);
	wire_add(&evs, tmp, (size_t)n);
}

static enum websocket_callback_return cb_bin(struct websocket *s, uint8_t *msg, size_t length)
{
	(void)s; wire_add(&got, msg, length); got_msgs++; cb_kinds |= 1;
	if (ev_on) ev_add("m2:%zu:%08x", length, fnv(msg, length));
	return WS_OK;
}
static enum websocket_callback_return cb_txt(struct websocket *s, char *msg, size_t length)
{
	(void)s; wire_add(&got, msg, length); got_msgs++; cb_kinds |= 2;
	if (ev_on) ev_add("m1:%zu:%08x", length, fnv((uint8_t *)msg, length));
	return WS_OK;
}
static enum websocket_callback_return cb_binf(struct websocket *s, uint8_t *msg, size_t length, bool last)
{
	(void)s; wire_add(&got, msg, length); if (last) got_msgs++; cb_kinds |= 4;
	if (ev_on) ev_add("f2:%d:%zu:%08x", last, length, fnv(msg, length));
	return WS_OK;
}
static enum websocket_callback_return cb_txtf(struct websocket *s, char *msg, size_t length, bool last)
{
	(void)s; wire_add(&got, msg, length); if (last) got_msgs++; cb_kinds |= 8;
	if (ev_on) ev_add("f1:%d:%zu:%08x", last, length, fnv((uint8_t *)msg, length));
	return WS_OK;
}
static void cb_error(struct websocket *s) { (void)s; got_error = true; }

static struct websocket *ws;
static struct http_connection *conn;
static bool comp_ready;

static void new_ws(unsigned level)
{
	conn = alloc_http_connection();      /* as compression_test does: no memset, the allocator prepares the object */
	memset(&conn->br, 0, sizeof conn->br);
	memset(&conn->parser, 0, sizeof conn->parser);
	conn->server = NULL;
	conn->status_code = 0;
	conn->is_local_connection = false;
	conn->br.writev = h_writev;
	conn->br.read_exactly = h_read_exactly;
	conn->br.close = h_close;
	conn->compression_level = level;
	ws = calloc(1, sizeof *ws);
	websocket_init(ws, conn, true, cb_error, NULL);
	ws->upgrade_complete = true;
	ws->binary_message_received = cb_bin;
	ws->text_message_received = cb_txt;
	ws->binary_frame_received = cb_binf;
	ws->text_frame_received = cb_txtf;
	conn->parser.data = ws;
	conn_closed = got_error = sent_bogus = false;
	sent.len = inq.len = got.len = 0; inq_pos = 0; got_msgs = 0; pend.armed = false;
	comp_ready = false;
}

static void del_ws(void)
{
	if (!conn_closed) {
		if (ws->extension_compression.response != NULL) free(ws->extension_compression.response);
		if (ws->extension_compression.accepted) free_compression(ws);
		free_connection(conn);
	}
	free(ws);
	ws = NULL; conn = NULL;
}

/* setup: L<level>:<cmw>:<cnc>:<smw>:<snc>  |  O<level>:<hexoffer>   ; returns false when not accepted */
static bool setup(const char *spec)
{
	if (spec[0] == 'L') {
		unsigned level, cmw, cnc, smw, snc;
		if (sscanf(spec + 1, "%u:%u:%u:%u:%u", &level, &cmw, &cnc, &smw, &snc) != 5) return false;
		new_ws(level);
		ws->extension_compression.client_max_window_bits = cmw;
		ws->extension_compression.client_no_context_takeover = cnc;
		ws->extension_compression.server_max_window_bits = smw;
		ws->extension_compression.server_no_context_takeover = snc;
		alloc_compression(ws);
		ws->extension_compression.accepted = true;
		ws->extension_compression.response = malloc(8);
		return ws->extension_compression.compression_level != 0;
	}
	if (spec[0] == 'O') {
		unsigned level = (unsigned)(spec[1] - '0');
		size_t n;
		uint8_t *v = unhex(spec + 3, &n);
		new_ws(level);
		char *line = calloc(1, n + 64);
		memcpy(line, v, n);
		ws->current_header_field = HEADER_SEC_WEBSOCKET_EXTENSIONS;
		websocket_upgrade_on_header_value(&conn->parser, line, n);
		free(line); free(v);
		return ws->extension_compression.accepted;
	}
	return false;
}

/* ------------------------------------------------------------------ the peer: an RFC 7692 client on plain zlib */
static z_stream peer_def, peer_inf;
static bool peer_cnc;
static bool peer_snc; /* the answer contained server_no_context_takeover: the client may drop its inflate window after every message */

static void peer_init(void)
{
	unsigned cmw = ws->extension_compression.client_max_window_bits;
	unsigned smw = ws->extension_compression.server_max_window_bits;
	peer_cnc = ws->extension_compression.client_no_context_takeover;
	peer_snc = ws->extension_compression.server_no_context_takeover;
	memset(&peer_def, 0, sizeof peer_def);
	memset(&peer_inf, 0, sizeof peer_inf);
	/* zlib cannot deflate raw with an 8 bit window: a peer bound to 256 bytes sends literals only */
	if (cmw < 9) deflateInit2(&peer_def, 6, Z_DEFLATED, -9, 8, Z_HUFFMAN_ONLY);
	else deflateInit2(&peer_def, 6, Z_DEFLATED, -(int)cmw, 8, Z_DEFAULT_STRATEGY);
	inflateInit2(&peer_inf, -(int)smw);
}

static void peer_end(void) { deflateEnd(&peer_def); inflateEnd(&peer_inf); }

/* compress one message the way a client does: sync flush, strip 00 00 ff ff */
static void peer_deflate(const uint8_t *p, size_t n, struct wire *out)
{
	out->len = 0;
	size_t bound = deflateBound(&peer_def, n) + 64;
	uint8_t *tmp = malloc(bound);
	peer_def.next_in = (Bytef *)p; peer_def.avail_in = (uInt)n;
	peer_def.next_out = tmp; peer_def.avail_out = (uInt)bound;
	deflate(&peer_def, peer_cnc ? Z_FULL_FLUSH : Z_SYNC_FLUSH);
	size_t have = bound - peer_def.avail_out;
	if (have >= 4) have -= 4;
	/* zlib emits nothing when there was no input since the last flush; RFC 7692 7.2.1 then has the sender
	 * append an empty stored block (00 00 00 ff ff) and strip the tail: one byte 00 */
	if (have == 0) { tmp[0] = 0; have = 1; }
	wire_add(out, tmp, have);
	free(tmp);
}

/* inflate one message from the server: append the tail; returns false on a zlib error */
static bool peer_inflate(const uint8_t *p, size_t n, struct wire *out)
{
	out->len = 0;
	uint8_t *in = malloc(n + 4);
	if (n) memcpy(in, p, n);
	in[n] = 0; in[n + 1] = 0; in[n + 2] = 0xff; in[n + 3] = 0xff;
	/* RFC 7692 7.1.1.1: with server_no_context_takeover the server must not use earlier messages as context,
	 * so a client is entitled to start every message with an empty window */
	if (peer_snc) inflateReset(&peer_inf);
	peer_inf.next_in = in; peer_inf.avail_in = (uInt)(n + 4);
	uint8_t tmp[4096];
	int r;
	do {
		peer_inf.next_out = tmp; peer_inf.avail_out = sizeof tmp;
		r = inflate(&peer_inf, Z_SYNC_FLUSH);
		if (r != Z_OK && r != Z_BUF_ERROR && r != Z_STREAM_END) { free(in); return false; }
		wire_add(out, tmp, sizeof tmp - peer_inf.avail_out);
	} while (peer_inf.avail_out == 0 || (peer_inf.avail_in != 0 && r == Z_OK));
	bool ok = peer_inf.avail_in == 0;
	free(in);
	return ok;
}

/* ------------------------------------------------------------------ delivering a compressed message to the receive path */
#define MAXFR 2048
static const char *retname(enum websocket_callback_return r)
{ return r == WS_OK ? "OK" : r == WS_ERROR ? "ERROR" : "CLOSED"; }

static size_t cut_up(size_t total, const size_t *cuts, size_t ncuts, bool fragmented, size_t *sizes)
{
	if (!fragmented) { sizes[0] = total; return 1; }
	size_t n = 0, left = total;
	for (size_t i = 0; i < ncuts && n < MAXFR - 1; i++) {
		size_t c = cuts[i] < left ? cuts[i] : left;
		sizes[n++] = c; left -= c;
	}
	sizes[n++] = left;
	return n;
}

/* mode: 'c' comp binary, 't' comp text, 'w' frames.  Returns the name of the result. */
static const char *deliver(char mode, const uint8_t *data, const size_t *sizes, size_t nfr, bool fragmented)
{
	got.len = 0;
	unsigned before = got_msgs;
	enum websocket_callback_return r = WS_OK;
	size_t pos = 0;
	if (mode == 'w') {
		for (size_t i = 0; i < nfr; i++) {
			uint8_t hdr[14]; size_t h = 2;
			bool last = (i == nfr - 1);
			hdr[0] = (uint8_t)((last ? 0x80 : 0) | (i == 0 ? (0x40 | 0x02) : 0));
			size_t l = sizes[i];
			if (l < 126) hdr[1] = (uint8_t)(0x80 | l);
			else if (l < 65536) { hdr[1] = 0x80 | 126; hdr[2] = (uint8_t)(l >> 8); hdr[3] = (uint8_t)l; h = 4; }
			else { hdr[1] = 0x80 | 127; for (int k = 0; k < 8; k++) hdr[2 + k] = (uint8_t)((uint64_t)l >> (56 - 8 * k)); h = 10; }
			uint8_t mask[4] = { 0xaa, 0x55, (uint8_t)(0xcc + i), 0x11 };
			memcpy(hdr + h, mask, 4); h += 4;
			wire_add(&inq, hdr, h);
			size_t at = inq.len;
			wire_add(&inq, data + pos, l);
			for (size_t k = 0; k < l; k++) inq.buf[at + k] ^= mask[k % 4];
			pos += l;
		}
		if (!pend.armed) h_read_exactly(NULL, 1, ws_get_header, ws);
		pump();
		if (conn_closed) return got_error ? "ERROR" : "CLOSED";
		return got_msgs > before ? "OK" : "NONE";
	}
	for (size_t i = 0; i < nfr; i++) {
		bool last = (i == nfr - 1);
		/* exact-size private copy of every fragment: reads beyond it reach ASan */
		uint8_t *f = malloc(sizes[i] ? sizes[i] : 1);
		if (sizes[i]) memcpy(f, data + pos, sizes[i]);
		pos += sizes[i];
		if (!fragmented) {
			r = (mode == 't') ? text_received_comp(true, ws, (char *)f, sizes[i], cb_txt)
			                  : binary_received_comp(true, ws, f, sizes[i], cb_bin);
		} else {
			r = (mode == 't') ? text_frame_received_comp(true, ws, (char *)f, sizes[i], last, cb_txtf)
			                  : binary_frame_received_comp(true, ws, f, sizes[i], last, cb_binf);
		}
		free(f);
		if (r != WS_OK) break;
	}
	return retname(r);
}

static void print_sizes(const size_t *sizes, size_t n)
{
	for (size_t i = 0; i < n; i++) P("%s%zu", i ? "," : "", sizes[i]);
}

/* ------------------------------------------------------------------ ops */
static uint32_t le32(const uint8_t *p) { return p[0] | (p[1] << 8) | (p[2] << 16) | ((uint32_t)p[3] << 24); }

static void op_frags(char **w, int nw)
{
	size_t sizes[256];
	size_t n = nw > 1 ? parse_list(w[1], sizes, 256) : 0;
	setup("L2:12:0:12:0");
	z_stream *strm = &ws->extension_compression.strm_decomp;
	struct wire all = { 0 };
	P("frags");
	for (size_t i = 0; i < n; i++) {
		uint8_t *f = malloc(sizes[i] ? sizes[i] : 1);
		memset(f, (int)(0x11 * (i + 1)), sizes[i]);
		wire_add(&all, f, sizes[i]);
		enum websocket_callback_return r = binary_frame_received_comp(true, ws, f, sizes[i], false, cb_binf);
		free(f);
		if (r != WS_OK) { P(" ret=%s", retname(r)); break; }
		if (sizes[i] == 0) { P(" skip"); continue; }
		uint32_t cap = le32(strm->next_in);
		P(" %u:%zu:%u:%u", (unsigned)(cap - strm->avail_in - sizes[i]), sizes[i], cap, strm->avail_in);
	}
	bool contig = true;
	if (all.len) {
		if (strm->avail_in == 0) contig = false;
		else {
			uint32_t cap = le32(strm->next_in);
			contig = (cap >= 4 + all.len) && memcmp(strm->next_in + 4, all.buf, all.len) == 0;
		}
	}
	P(" contig=%d\n", contig);
	if (strm->avail_in != 0) { free(strm->next_in); strm->avail_in = 0; }
	free(all.buf);
	del_ws();
}

static void print_offer_state(void)
{
	P("offer acc=%d cmw=%u cnc=%d smw=%u snc=%d resp=", ws->extension_compression.accepted,
	  ws->extension_compression.client_max_window_bits, ws->extension_compression.client_no_context_takeover,
	  ws->extension_compression.server_max_window_bits, ws->extension_compression.server_no_context_takeover);
	if (ws->extension_compression.accepted) puthex((uint8_t *)ws->extension_compression.response, strlen(ws->extension_compression.response));
	else P("-");
	P("\n");
}

static void op_offer(char **w, int nw, bool exact)
{
	if (nw < 3) { P("offer bad-args\n"); return; }
	size_t n, na = 0;
	uint8_t *v = unhex(w[2], &n);
	uint8_t *a = nw > 3 ? unhex(w[3], &na) : NULL;
	new_ws((unsigned)atoi(w[1]));
	char *line;
	if (exact) { line = malloc(n ? n : 1); memcpy(line, v, n); }
	else {
		line = calloc(1, n + na + 64);
		memcpy(line, v, n);
		if (na) memcpy(line + n, a, na);
	}
	ws->current_header_field = HEADER_SEC_WEBSOCKET_EXTENSIONS;
	websocket_upgrade_on_header_value(&conn->parser, line, n);
	print_offer_state();
	free(line); free(v); free(a);
	del_ws();
}

/* What zlib emits for this message (sync/full flush, tail included), measured on a copy of the real deflate stream:
 * its length, 0 when deflate refuses (Z_BUF_ERROR: nothing to do), -1 when the stream cannot be copied (ended).
 * *full (if wanted) receives the bytes (caller frees), *db = deflateBound() of the stream for n bytes. */
static long measure(uint8_t *payload, size_t n, uint8_t **full, long *db)
{
	z_stream cp;
	long need = -1;
	memset(&cp, 0, sizeof cp);
	if (full) *full = NULL;
	*db = -1;
	if (ws->extension_compression.compression_level == 0) return -1;
	if (deflateCopy(&cp, *(ws->extension_compression.strm_comp)) != Z_OK) return -1;
	*db = (long)deflateBound(&cp, n);
	size_t room = (size_t)*db + n / 8 + 256;
	uint8_t *tb = malloc(room);
	cp.next_in = payload; cp.avail_in = (uInt)n; cp.next_out = tb; cp.avail_out = (uInt)room;
	int r = deflate(&cp, ws->extension_compression.server_no_context_takeover ? Z_FULL_FLUSH : Z_SYNC_FLUSH);
	need = r < Z_OK ? 0 : (long)(room - cp.avail_out);
	deflateEnd(&cp);
	if (full && need > 0) *full = tb; else free(tb);
	return need;
}

static void op_rt(char **w, int nw)
{
	if (nw < 5) { P("rt bad-args\n"); return; }
	P("rt");
	if (!setup(w[1])) { P(" noaccept\n"); del_ws(); return; }
	char mode = w[2][0];
	size_t cuts[MAXFR]; bool fragmented = strcmp(w[3], "-") != 0;
	size_t ncuts = parse_list(w[3], cuts, MAXFR - 2);
	peer_init();
	struct wire tmp = { 0 }, cstream = { 0 };
	for (int m = 4; m < nw; m++) {
		size_t n; uint8_t *payload = unhex(w[m], &n);
		/* ---- server -> client through the real send path */
		long need = -1, db = -1;
		if (!conn_closed) need = measure(payload, n, NULL, &db);
		P(" [need=%ld db=%ld bound=", need, db);
		if (websocket_compress_bound != NULL) P("%zu", websocket_compress_bound(ws, n)); else P("-");
		P(" s2c=");
		if (conn_closed) P("closed");
		else {
			uint8_t *copy = malloc(n ? n : 1);       /* exact size: send_frame may unmask/compress in place */
			memcpy(copy, payload, n);
			sent.len = 0; sent_bogus = false;
			int r = websocket_send_binary_frame(ws, copy, n);
			free(copy);
			if (sent_bogus) P("fail:bogus-length");
			else if (r < 0) P("fail:%d", r);
			else {
				/* decode the frame header */
				size_t h = 2, l = sent.buf[1] & 0x7f;
				if (l == 126) { l = (sent.buf[2] << 8) | sent.buf[3]; h = 4; }
				else if (l == 127) { l = 0; for (int k = 0; k < 8; k++) l = (l << 8) | sent.buf[2 + k]; h = 10; }
				if (!(sent.buf[0] & 0x40)) P("fail:no-rsv1");
				else if (h + l != sent.len) P("fail:frame-length");
				else if (!peer_inflate(sent.buf + h, l, &tmp)) P("bad:peer-inflate-error");
				else if (tmp.len != n || memcmp(tmp.buf, payload, n) != 0) P("bad:differs(%zu)", tmp.len);
				else P("ok");
			}
		}
		/* ---- client -> server */
		P(" c2s=");
		if (conn_closed) P("closed n=0 frags=-]");
		else {
			peer_deflate(payload, n, &cstream);
			size_t sizes[MAXFR];
			size_t nfr = cut_up(cstream.len, cuts, ncuts, fragmented, sizes);
			const char *r = deliver(mode, cstream.buf, sizes, nfr, fragmented);
			if (strcmp(r, "OK") != 0) P("err:%s", r);
			else if (got.len != n || memcmp(got.buf, payload, n) != 0) P("bad:differs(%zu)", got.len);
			else P("ok");
			P(" n=%zu frags=", cstream.len); print_sizes(sizes, nfr); P("]");
		}
		free(payload);
	}
	P("\n");
	peer_end();
	free(tmp.buf); free(cstream.buf);
	del_ws();
}

/* ------------------------------------------------------------------ op il: frames one by one, control frames in between */
static void feed_frame(uint8_t b0, const uint8_t *data, size_t l, unsigned seq)
{
	uint8_t hdr[14]; size_t h = 2;
	if (inq_pos == inq.len) { inq.len = 0; inq_pos = 0; }
	hdr[0] = b0;
	if (l < 126) hdr[1] = (uint8_t)(0x80 | l);
	else if (l < 65536) { hdr[1] = 0x80 | 126; hdr[2] = (uint8_t)(l >> 8); hdr[3] = (uint8_t)l; h = 4; }
	else { hdr[1] = 0x80 | 127; for (int k = 0; k < 8; k++) hdr[2 + k] = (uint8_t)((uint64_t)l >> (56 - 8 * k)); h = 10; }
	uint8_t mask[4] = { (uint8_t)(0x37 + 11 * seq), 0xfa, (uint8_t)(0x21 ^ seq), (uint8_t)(0x3d + seq) };
	memcpy(hdr + h, mask, 4); h += 4;
	wire_add(&inq, hdr, h);
	size_t at = inq.len;
	wire_add(&inq, data, l);
	for (size_t k = 0; k < l; k++) inq.buf[at + k] ^= mask[k % 4];
	if (!pend.armed) h_read_exactly(NULL, 1, ws_get_header, ws);
	pump();
}

/* feed one frame and print its token: what the callbacks saw, what the server sent, the flags behind it */
static void il_frame(uint8_t b0, const uint8_t *data, size_t l, unsigned seq)
{
	evs.len = 0; sent.len = 0; ev_on = true;
	feed_frame(b0, data, l, seq);
	ev_on = false;
	for (size_t i = 0; i + 2 <= sent.len; ) {
		unsigned op = sent.buf[i] & 0x0f;
		size_t pl = sent.buf[i + 1] & 0x7f, h = 2;
		if (pl == 126 && i + 4 <= sent.len) { pl = ((size_t)sent.buf[i + 2] << 8) | sent.buf[i + 3]; h = 4; }
		else if (pl == 127) { ev_add("sent-long"); break; }
		if (i + h + pl > sent.len) { ev_add("sent-torn"); break; }
		const uint8_t *q = sent.buf + i + h;
		if (op == 0xa) {
			char tmp[600]; size_t o = 0;
			if (pl == 0 || pl > 280) { tmp[o++] = '-'; }
			else for (size_t k = 0; k < pl; k++) o += (size_t)sprintf(tmp + o, "%02x", q[k]);
			tmp[o] = 0;
			ev_add("pong:%s", tmp);
		} else if (op == 0x8) ev_add("close:%u:%d", pl >= 2 ? (unsigned)((q[0] << 8) | q[1]) : 0u, got_error);
		else ev_add("sent%x:%zu", op, pl);
		i += h + pl;
	}
	if (evs.len == 0) P(" -|"); else { P(" "); fwrite(evs.buf, 1, evs.len, stdout); P("|"); }
	if (conn_closed) P("x");
	else P("%u%u:%u:%u", ws->ws_flags.is_fragmented, ws->ws_flags.is_frag_compressed, ws->ws_flags.frag_opcode,
	       ws->extension_compression.strm_decomp.avail_in);
}

struct ctl_item { size_t pos; char kind; uint8_t pl[256]; size_t len; };

static void op_il(char **w, int nw)
{
	if (nw < 3) { P("il bad-args\n"); return; }
	P("il");
	if (!setup(w[1])) { P(" noaccept\n"); del_ws(); return; }
	peer_init();
	struct wire cstream = { 0 };
	unsigned seq = 0;
	for (int m = 2; m < nw; m++) {
		if (conn_closed) { P(" [skipped]"); continue; }
		char *f[4]; int nf = 0;
		for (char *t = w[m]; nf < 4; nf++) { f[nf] = t; char *sl = strchr(t, '/'); if (!sl) { nf++; break; } *sl = 0; t = sl + 1; }
		if (nf != 4 || strchr("tbTB", f[0][0]) == NULL) { P(" [bad-msg]"); continue; }
		bool text = (f[0][0] == 't' || f[0][0] == 'T'), compressed = (f[0][0] == 't' || f[0][0] == 'b');
		size_t cuts[MAXFR]; bool fragmented = strcmp(f[1], "-") != 0;
		for (char *c = f[1]; *c; c++) if (*c == '.') *c = ',';
		size_t ncuts = parse_list(f[1], cuts, MAXFR - 2);
		static struct ctl_item items[64]; size_t nitems = 0;
		if (strcmp(f[2], "-") != 0) {
			for (char *t = f[2]; t && *t && nitems < 64; ) {
				char *dot = strchr(t, '.'); if (dot) *dot = 0;
				struct ctl_item *it = &items[nitems++];
				char *e; it->pos = strtoul(t, &e, 10); it->kind = *e ? *e++ : 'P';
				it->len = strlen(e) / 2; if (it->len > sizeof it->pl) it->len = sizeof it->pl;
				for (size_t k = 0; k < it->len; k++) it->pl[k] = (uint8_t)((nib(e[2 * k]) << 4) | nib(e[2 * k + 1]));
				t = dot ? dot + 1 : NULL;
			}
		}
		size_t n; uint8_t *payload = unhex(f[3], &n);
		if (compressed) peer_deflate(payload, n, &cstream);
		else { cstream.len = 0; wire_add(&cstream, payload, n); }
		size_t sizes[MAXFR];
		size_t nfr = cut_up(cstream.len, cuts, ncuts, fragmented, sizes);
		P(" [c="); puthex(cstream.buf, cstream.len); P(" frags="); print_sizes(sizes, nfr); P(" :");
		got.len = 0; cb_kinds = 0;
		unsigned before = got_msgs;
		size_t pos = 0;
		for (size_t i = 0; i <= nfr && !conn_closed; i++) {
			for (size_t k = 0; k < nitems && !conn_closed; k++) {
				if (items[k].pos != i) continue;
				uint8_t op = items[k].kind == 'P' ? 0x9 : items[k].kind == 'Q' ? 0xa : 0x8;
				uint8_t *c = malloc(items[k].len ? items[k].len : 1);
				memcpy(c, items[k].pl, items[k].len);
				il_frame((uint8_t)(0x80 | op), c, items[k].len, seq++);
				free(c);
			}
			if (i == nfr || conn_closed) break;
			uint8_t b0 = (uint8_t)((i == nfr - 1 ? 0x80 : 0) | (i == 0 ? ((compressed ? 0x40 : 0) | (text ? 0x01 : 0x02)) : 0));
			il_frame(b0, cstream.buf + pos, sizes[i], seq++);
			pos += sizes[i];
		}
		unsigned done = got_msgs - before, want = fragmented ? (text ? 8u : 4u) : (text ? 2u : 1u);
		P(" ; v=");
		if (done == 0 && got.len == 0 && cb_kinds == 0) P("none");
		else if (done == 0) P("partial(%zu)", got.len);
		else if (done != 1) P("bad:count(%u)", done);
		else if (cb_kinds != want) P("bad:callback(%x)", cb_kinds);
		else if (got.len != n || memcmp(got.buf, payload, n) != 0) P("bad:differs(%zu)", got.len);
		else P("ok");
		P(" end=%s]", conn_closed ? (got_error ? "error" : "closed") : "open");
		free(payload);
	}
	P("\n");
	peer_end();
	free(cstream.buf);
	del_ws();
}

static void op_dec(char **w, int nw)
{
	if (nw < 5) { P("dec bad-args\n"); return; }
	P("dec");
	if (!setup(w[1])) { P(" noaccept\n"); del_ws(); return; }
	size_t cuts[MAXFR]; bool fragmented = strcmp(w[3], "-") != 0;
	size_t ncuts = parse_list(w[3], cuts, MAXFR - 2);
	size_t n; uint8_t *stream = unhex(w[4], &n);
	size_t sizes[MAXFR];
	size_t nfr = cut_up(n, cuts, ncuts, fragmented, sizes);
	const char *r = deliver(w[2][0], stream, sizes, nfr, fragmented);
	P(" ret=%s n=%zu h=%08x frags=", r, got.len, fnv(got.buf, got.len)); print_sizes(sizes, nfr); P("\n");
	free(stream);
	del_ws();
}

static void op_mut(char **w, int nw)
{
	if (nw < 6) { P("mut bad-args\n"); return; }
	P("mut");
	if (!setup(w[1])) { P(" noaccept\n"); del_ws(); return; }
	size_t cuts[MAXFR]; bool fragmented = strcmp(w[3], "-") != 0;
	size_t ncuts = parse_list(w[3], cuts, MAXFR - 2);
	size_t n; uint8_t *payload = unhex(w[5], &n);
	peer_init();
	struct wire cs = { 0 };
	peer_deflate(payload, n, &cs);
	unsigned long a = 0, b = 0;
	const char *m = w[4];
	if (cs.len == 0) { /* nothing to damage */ }
	else if (sscanf(m, "flip:%lu", &a) == 1) cs.buf[(a / 8) % cs.len] ^= (uint8_t)(1u << (a % 8));
	else if (sscanf(m, "trunc:%lu", &a) == 1) cs.len = a % cs.len;
	else if (sscanf(m, "set:%lu:%lu", &a, &b) == 2) cs.buf[a % cs.len] = (uint8_t)b;
	else if (sscanf(m, "ins:%lu:%lu", &a, &b) == 2) {
		uint8_t z = 0; wire_add(&cs, &z, 1);
		size_t p = a % cs.len;
		memmove(cs.buf + p + 1, cs.buf + p, cs.len - 1 - p);
		cs.buf[p] = (uint8_t)b;
	}
	size_t sizes[MAXFR];
	size_t nfr = cut_up(cs.len, cuts, ncuts, fragmented, sizes);
	const char *r = deliver(w[2][0], cs.buf, sizes, nfr, fragmented);
	P(" ret=%s n=%zu same=%d clen=%zu\n", r, got.len, got.len == n && memcmp(got.buf, payload, n) == 0, cs.len);
	peer_end();
	free(cs.buf); free(payload);
	del_ws();
}

static void op_comp(char **w, int nw)
{
	if (nw < 4) { P("comp bad-args\n"); return; }
	P("comp");
	bool level0 = w[1][0] == 'L' && w[1][1] == '0';
	if (!setup(w[1]) && !level0) { P(" noaccept\n"); del_ws(); return; }
	const char *spec = w[2];
	bool bounded = strcmp(spec, "w") != 0;
	if (bounded && (websocket_compress_bounded == NULL || websocket_compress_bound == NULL)) { P(" nobounded\n"); del_ws(); return; }
	if (!level0) peer_init();
	struct wire tmp = { 0 };
	for (int m = 3; m < nw; m++) {
		size_t n; uint8_t *payload = unhex(w[m], &n);
		uint8_t *full = NULL; long db;
		long need = measure(payload, n, &full, &db);
		P(" [full=");
		if (level0) P("-"); else if (need <= 0) P("ERR"); else puthex(full, (size_t)need);
		P(" db=%ld bound=", db);
		if (websocket_compress_bound != NULL) P("%zu", websocket_compress_bound(ws, n)); else P("-");
		size_t base = need > 0 ? (size_t)need : 0, size;
		if (level0) base = n;
		if (!strcmp(spec, "w")) size = 2 * n;
		else if (!strcmp(spec, "b")) size = websocket_compress_bound(ws, n);
		else if (spec[0] == '+') size = base + strtoul(spec + 1, NULL, 10);
		else if (spec[0] == '-') { size_t k = strtoul(spec + 1, NULL, 10); size = k < base ? base - k : 0; }
		else size = strtoul(spec + 1, NULL, 10);
		P(" size=%zu", size);
		uint8_t *src = malloc(n ? n : 1); memcpy(src, payload, n);
		uint8_t *dest = malloc(size ? size : 1);        /* exactly `size` bytes: every access outside reaches ASan */
		int r = bounded ? websocket_compress_bounded(ws, dest, size, src, n) : websocket_compress(ws, dest, src, n);
		P(" ret=%d out=", r);
		if (r >= 0 && (size_t)r + (level0 ? 0 : 4) <= size) {
			puthex(dest, (size_t)r);
			if (level0) P(" tail=0 peer=-");
			else {
				P(" tail=%d", dest[r] == 0 && dest[r + 1] == 0 && dest[r + 2] == 0xff && dest[r + 3] == 0xff);
				if (!peer_inflate(dest, (size_t)r, &tmp)) P(" peer=bad:inflate-error");
				else if (tmp.len != n || memcmp(tmp.buf, payload, n) != 0) P(" peer=bad:differs(%zu)", tmp.len);
				else P(" peer=ok");
			}
		} else P("- tail=0 peer=-");
		P("]");
		free(dest); free(src); free(payload); free(full);
	}
	P("\n");
	if (!level0) peer_end();
	free(tmp.buf);
	del_ws();
}

int main(void)
{
	static char line[1 << 22];
	while (fgets(line, sizeof line, stdin)) {
		char *w[64]; int nw = 0;
		for (char *t = strtok(line, " \t\r\n"); t && nw < 64; t = strtok(NULL, " \t\r\n")) w[nw++] = t;
		if (nw == 0 || w[0][0] == '#') { P("\n"); continue; }
		if (!strcmp(w[0], "frags")) op_frags(w, nw);
		else if (!strcmp(w[0], "offer")) op_offer(w, nw, false);
		else if (!strcmp(w[0], "offerx")) op_offer(w, nw, true);
		else if (!strcmp(w[0], "rt")) op_rt(w, nw);
		else if (!strcmp(w[0], "il")) op_il(w, nw);
		else if (!strcmp(w[0], "dec")) op_dec(w, nw);
		else if (!strcmp(w[0], "mut")) op_mut(w, nw);
		else if (!strcmp(w[0], "comp")) op_comp(w, nw);
		else P("unknown-op\n");
	}
	free(sent.buf); free(inq.buf); free(got.buf); free(evs.buf);
	return 0;
}
