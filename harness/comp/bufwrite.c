/*
 * C10 component harness: the REAL write side of /repo/src/buffered_socket.c (and the real
 * posix/socket.c gather code) over a scripted kernel.
 *
 * Build: this file (#includes buffered_socket.c so that the write buffer size can be
 * overridden with -DBW_CAP=n and memcpy/memmove ranges can be checked), posix/socket.c,
 * jet_string.c; linked with -Wl,--wrap=writev,--wrap=read,--wrap=close.
 *
 * Script (stdin), one op per line, the same script the Lean driver `drv_bufwrite` reads:
 *   new <cap>                         fresh buffered_socket (cap must equal the compiled size)
 *   writev <hex>,<hex>,... | <answers> buffered_socket_writev with one iovec element per chunk
 *                                      ("-" = empty element, no chunk list = count 0)
 *   writable | <answers>               the event loop reports the socket writable (ev.write_function)
 * answers: comma separated, consumed one per kernel writev call that requests > 0 bytes:
 *   A accept all, P<k> accept min(k, requested) bytes, B EAGAIN, W EWOULDBLOCK, E EPIPE, I EINTR.
 *   When the list is exhausted the kernel answers B.
 * Observation line per op (same as the model's):
 *   rc=<int> to_write=<n> pending=<hex> out=<hex> err=<n> calls=<n> left=<n>
 *     rc       return value of buffered_socket_writev / 0 for writable
 *     pending  write_buffer[0 .. to_write)
 *     out      bytes the kernel accepted during this op
 *     err      how often the error callback fired during this op
 *     calls    kernel writev calls during this op ; left = unused answers
 * Lines starting with "FAULT" report broken memory discipline (copy range outside the
 * write buffer, canary damaged, to_write > cap, zero-length kernel call in flush).
 */
#include <errno.h>
#include <stdarg.h>
#include <stdint.h>
#include <stdio.h>
#include <stdlib.h>
#include <string.h>
#include <sys/uio.h>
#include <unistd.h>

#include "generated/cjet_config.h"
#ifdef BW_CAP
#undef CONFIG_MAX_WRITE_BUFFER_SIZE
#define CONFIG_MAX_WRITE_BUFFER_SIZE BW_CAP
#endif

static void *bw_memcpy(void *dst, const void *src, size_t n);
static void *bw_memmove(void *dst, const void *src, size_t n);
#define memcpy bw_memcpy
#define memmove bw_memmove
#include "buffered_socket.c"
#undef memcpy
#undef memmove

/* ------------------------------------------------------------------ stubs for the rest of cjet */
void log_err(const char *format, ...) { (void)format; }
void log_warn(const char *format, ...) { (void)format; }
void log_info(const char *format, ...) { (void)format; }
void *cjet_malloc(size_t size) { return malloc(size); }
void cjet_free(void *ptr) { free(ptr); }
void *cjet_calloc(size_t nmemb, size_t size) { return calloc(nmemb, size); }

/* ------------------------------------------------------------------ state */
#define FD 42
static struct buffered_socket *bs;
static unsigned faults;

/* scripted kernel */
#define MAXANS 4096
static struct { char kind; size_t k; } answers[MAXANS];
static size_t n_answers, next_answer;
static unsigned char *out_bytes;
static size_t out_len, out_cap;
static unsigned kernel_calls;
static unsigned err_fired;

static void fault(const char *fmt, ...)
{
	va_list ap;
	va_start(ap, fmt);
	printf("FAULT ");
	vprintf(fmt, ap);
	printf("\n");
	va_end(ap);
	faults++;
}

static void check_range(const char *what, const void *p, size_t n)
{
	if (bs == NULL || n == 0) return;
	const uint8_t *lo = bs->write_buffer;
	const uint8_t *hi = bs->write_buffer + CONFIG_MAX_WRITE_BUFFER_SIZE;
	const uint8_t *a = (const uint8_t *)p;
	const uint8_t *b = a + n;
	int touches = (a < hi) && (b > lo);
	if (touches && !(a >= lo && b <= hi)) {
		fault("%s range [%td,%td) leaves write_buffer[0,%d)", what, a - lo, b - lo, (int)CONFIG_MAX_WRITE_BUFFER_SIZE);
	}
}

static void *bw_memcpy(void *dst, const void *src, size_t n)
{
	check_range("memcpy dst", dst, n);
	check_range("memcpy src", src, n);
	const uint8_t *d = dst, *s = src;
	if (n != 0 && d < s + n && s < d + n) fault("memcpy overlap");
	return memmove(dst, src, n);
}

static void *bw_memmove(void *dst, const void *src, size_t n)
{
	check_range("memmove dst", dst, n);
	check_range("memmove src", src, n);
	return memmove(dst, src, n);
}

static void out_append(const void *p, size_t n)
{
	if (n == 0) return;
	if (out_len + n > out_cap) {
		out_cap = (out_len + n) * 2 + 64;
		out_bytes = realloc(out_bytes, out_cap);
	}
	memcpy(out_bytes + out_len, p, n);
	out_len += n;
}

ssize_t __wrap_writev(int fd, const struct iovec *iov, int iovcnt)
{
	if (fd != FD) {
		fault("writev on foreign fd %d", fd);
		errno = EBADF;
		return -1;
	}
	size_t m = 0;
	for (int i = 0; i < iovcnt; i++) {
		check_range("kernel writev src", iov[i].iov_base, iov[i].iov_len);
		m += iov[i].iov_len;
	}
	if (m == 0) {
		/* a zero length request transfers nothing and is not a scripted event */
		return 0;
	}
	kernel_calls++;
	char kind = 'B';
	size_t k = 0;
	if (next_answer < n_answers) {
		kind = answers[next_answer].kind;
		k = answers[next_answer].k;
		next_answer++;
	}
	switch (kind) {
	case 'A': k = m; break;
	case 'P': if (k > m) k = m; break;
	case 'B': errno = EAGAIN; return -1;
	case 'W': errno = EWOULDBLOCK; return -1;
	case 'I': errno = EINTR; return -1;
	default: errno = EPIPE; return -1;
	}
	size_t rest = k;
	for (int i = 0; i < iovcnt && rest > 0; i++) {
		size_t n = iov[i].iov_len < rest ? iov[i].iov_len : rest;
		out_append(iov[i].iov_base, n);
		rest -= n;
	}
	return (ssize_t)k;
}

ssize_t __wrap_read(int fd, void *buf, size_t count)
{
	(void)fd; (void)buf; (void)count;
	errno = EAGAIN;
	return -1;
}

int __wrap_close(int fd)
{
	(void)fd;
	return 0;
}

/* fake event loop */
static enum eventloop_return loop_add(const void *this_ptr, const struct io_event *ev)
{
	(void)this_ptr; (void)ev;
	return EL_CONTINUE_LOOP;
}
static void loop_remove(void *this_ptr, const struct io_event *ev)
{
	(void)this_ptr; (void)ev;
}
static struct eventloop loop = {.this_ptr = NULL, .init = NULL, .destroy = NULL, .run = NULL, .add = loop_add, .remove = loop_remove};

static void on_error(void *ctx)
{
	(void)ctx;
	err_fired++;
}

/* canaries: the fields behind write_buffer must never change during write-side operations */
static cjet_ssize_t canary_reader(struct buffered_socket *b, union buffered_socket_reader_context c, uint8_t **p)
{
	(void)b; (void)c; (void)p;
	return BS_IO_WOULD_BLOCK;
}
static enum bs_read_callback_return canary_cb(void *c, uint8_t *b, size_t l)
{
	(void)c; (void)b; (void)l;
	return BS_OK;
}
static char canary_ctx;

static void arm_canaries(void)
{
	memset(bs->read_buffer, 0xa5, sizeof(bs->read_buffer));
	bs->reader = canary_reader;
	bs->reader_context.num = 0x5a5a5a5aU;
	bs->read_callback = canary_cb;
	bs->read_callback_context = &canary_ctx;
}

static void check_canaries(void)
{
	for (size_t i = 0; i < sizeof(bs->read_buffer); i++) {
		if (bs->read_buffer[i] != 0xa5) {
			fault("read_buffer[%zu] overwritten", i);
			break;
		}
	}
	if (bs->reader != canary_reader || bs->reader_context.num != 0x5a5a5a5aU || bs->read_callback != canary_cb ||
	    bs->read_callback_context != &canary_ctx || bs->error != on_error || bs->ev.sock != FD || bs->ev.loop != &loop ||
	    bs->read_ptr != bs->read_buffer || bs->write_ptr != bs->read_buffer) {
		fault("fields next to write_buffer changed");
	}
	if (bs->to_write > (size_t)CONFIG_MAX_WRITE_BUFFER_SIZE) {
		fault("to_write %zu > cap %d", bs->to_write, (int)CONFIG_MAX_WRITE_BUFFER_SIZE);
	}
}

/* ------------------------------------------------------------------ script parsing */
static int hexval(int c)
{
	if (c >= '0' && c <= '9') return c - '0';
	if (c >= 'a' && c <= 'f') return c - 'a' + 10;
	if (c >= 'A' && c <= 'F') return c - 'A' + 10;
	return -1;
}

static void print_hex(const unsigned char *p, size_t n)
{
	if (n == 0) {
		putchar('-');
		return;
	}
	for (size_t i = 0; i < n; i++) printf("%02x", p[i]);
}

static void parse_answers(const char *s)
{
	n_answers = 0;
	next_answer = 0;
	while (*s) {
		while (*s == ' ' || *s == ',' || *s == '\t' || *s == '\n' || *s == '\r') s++;
		if (!*s) break;
		char kind = *s++;
		size_t k = 0;
		while (*s >= '0' && *s <= '9') k = k * 10 + (size_t)(*s++ - '0');
		if (n_answers < MAXANS) {
			answers[n_answers].kind = kind;
			answers[n_answers].k = k;
			n_answers++;
		}
	}
}

static void observe(int rc)
{
	check_canaries();
	size_t tw = bs->to_write;
	size_t shown = tw > (size_t)CONFIG_MAX_WRITE_BUFFER_SIZE ? (size_t)CONFIG_MAX_WRITE_BUFFER_SIZE : tw;
	printf("rc=%d to_write=%zu pending=", rc, tw);
	print_hex(bs->write_buffer, shown);
	printf(" out=");
	print_hex(out_bytes, out_len);
	printf(" err=%u calls=%u left=%zu\n", err_fired, kernel_calls, n_answers - next_answer);
}

static void begin_op(const char *ans)
{
	parse_answers(ans ? ans : "");
	out_len = 0;
	kernel_calls = 0;
	err_fired = 0;
}

int main(void)
{
	char *line = NULL;
	size_t cap = 0;
	ssize_t len;
	setvbuf(stdout, NULL, _IOFBF, 1 << 16);
	while ((len = getline(&line, &cap, stdin)) > 0) {
		while (len > 0 && (line[len - 1] == '\n' || line[len - 1] == '\r' || line[len - 1] == ' ')) line[--len] = 0;
		char *p = line;
		while (*p == ' ') p++;
		if (*p == 0 || *p == '#') continue;
		char *bar = strchr(p, '|');
		char *ans = NULL;
		if (bar) {
			*bar = 0;
			ans = bar + 1;
		}
		if (strncmp(p, "new", 3) == 0) {
			long want = strtol(p + 3, NULL, 10);
			if (bs) buffered_socket_release(bs);
			bs = buffered_socket_acquire();
			memset(bs, 0x77, sizeof(*bs)); /* acquire() does not zero: init must set what is used */
			buffered_socket_init(bs, FD, &loop, on_error, NULL);
			arm_canaries();
			begin_op(NULL);
			printf("new cap=%d ok=%d to_write=%zu\n", (int)CONFIG_MAX_WRITE_BUFFER_SIZE,
			       want == (long)CONFIG_MAX_WRITE_BUFFER_SIZE, bs->to_write);
		} else if (bs == NULL) {
			printf("ERROR no socket\n");
		} else if (strncmp(p, "writev", 6) == 0) {
			p += 6;
			/* chunks */
			size_t max_chunks = strlen(p) + 1;
			struct socket_io_vector *iov = calloc(max_chunks, sizeof(*iov));
			unsigned char **bufs = calloc(max_chunks, sizeof(*bufs));
			unsigned count = 0;
			while (*p == ' ') p++;
			while (*p) {
				size_t n = 0;
				while (p[n] && p[n] != ',' && p[n] != ' ') n++;
				/* exact-size heap block per element so that ASan sees any over-read */
				size_t blen = (n == 1 && p[0] == '-') ? 0 : n / 2;
				unsigned char *b = malloc(blen ? blen : 1);
				for (size_t i = 0; i < blen; i++) b[i] = (unsigned char)(hexval(p[2 * i]) * 16 + hexval(p[2 * i + 1]));
				bufs[count] = b;
				iov[count].iov_base = b;
				iov[count].iov_len = blen;
				count++;
				p += n;
				while (*p == ',' || *p == ' ') p++;
			}
			begin_op(ans);
			int rc = buffered_socket_writev(bs, iov, count);
			observe(rc);
			for (unsigned i = 0; i < count; i++) free(bufs[i]);
			free(bufs);
			free(iov);
		} else if (strncmp(p, "writable", 8) == 0) {
			begin_op(ans);
			enum eventloop_return r = bs->ev.write_function(&bs->ev);
			observe(r == EL_CONTINUE_LOOP ? 0 : (int)r + 100);
		} else {
			printf("ERROR unknown op\n");
		}
	}
	fflush(stdout);
	free(line);
	if (bs) buffered_socket_release(bs);
	free(out_bytes);
	return faults ? 3 : 0;
}
