/*
 * Component harness `matcher` (property C16): runs the REAL fetch.c of the tree under test.
 *
 * fetch.c is #include'd so that its statics (the matcher table, the twelve match functions,
 * create_path_matcher, create_fetch, state_matches) are reachable.  Linked with the real
 * json/cJSON.c, alloc.c, response.c, groups.c, jet_string.c, linux/jet_string.c,
 * posix/jet_string.c.  Stubbed: logging, the peer list (one harness-owned peer), and
 * element_is_fetch_only.  cJSON allocates through cjet_malloc/cjet_free exactly as init_parser()
 * arranges in the daemon, so cjet_get_alloc_size() accounts for every object of a request.
 *
 * Line protocol (stdin -> stdout, exactly one output line per input line, flushed):
 *
 *   fn <name> <ci> <pathhex> <ophex>[,<ophex>...]   real matchers[] entry <name>, its case_sensitive
 *                                                   (ci=0) / case_insensitive (ci=1) function on a
 *                                                   path_matcher built by the real create_path_matcher
 *        -> "fn 0" | "fn 1" | "fn unknown"
 *   libc <f> <ahex> <bhex> [n]                      f in strcmp strncmp strstr strcasecmp strncasecmp
 *                                                   strcasestr strlen (the jet_* wrappers where fetch.c
 *                                                   uses them)
 *        -> "libc <sign -1|0|1>" or "libc <offset|-1>" (strstr/strcasestr) or "libc <len>"
 *   rule <enc> [<jsonhex>]                          release the previous fetch; build the request
 *                                                   {"id":7,"method":"fetch","params":{"id":"f","path":<enc>}}
 *                                                   (when <jsonhex> is given: ALSO parse that text with the
 *                                                   real cJSON_ParseWithOpts, compare the two trees, use the
 *                                                   parsed one) and call the real add_fetch_to_peer
 *        -> "ok n=<number_of_matchers> m=<slot>;<slot>... | prev=<leak> fl=<fetches in list>"
 *             slot = "<table index>.<ci>:<ophex>,<ophex>..." or "null"
 *           "err <code> <reason hex> | prev=<leak> leak=<bytes still allocated> fl=<fetches in list>"
 *           "tree_mismatch" when the parsed text is not the tree described by <enc>
 *   match <pathhex>                                 real state_matches on an element with that path
 *        -> "m 0" | "m 1" | "m nofetch"
 *   get <enc> <pathhex>[,<pathhex>...]              elements with these paths (value = index) are put in the
 *                                                   harness peer; real get_elements with params {"path":<enc>}
 *        -> "sel <i>,<j>,..." | "sel -" | "err <code> <reason hex> | leak=<bytes>"
 *   sizes                                           the LP64 sizes and config values the model's allocation arithmetic uses
 *        -> "sizes pm=<sizeof(struct path_matcher)> pe=<sizeof(pm->path_elements)> st=<sizeof(size_t)> cap=<heap cap bytes> max=<max matchers>"
 *   end                                             release everything
 *        -> "end | prev=<leak>"
 *
 * Rule encoding <enc> (no white space):
 *   "~"            params has no "path" member
 *   "!s" "!n" "!a" "!t" "!f" "!z"   "path" is a string / number / array / true / false / null
 *   "@" [member {";" member}]       "path" is an object with these members in this order (duplicates kept)
 *   member = <keyhex> "=" value      keyhex may be empty (empty key)
 *   value  = "s" <hex>  string | "a" [item {"," item}]  array | "t" | "f" | "z" null | "n" number 1 | "o" {}
 *   item   = "s" <hex>  string | "n" | "t" | "f" | "z" | "a" (empty array) | "o"
 * Bytes are given in hex; a 00 byte ends the C string exactly as it does for cJSON's "\u0000".
 */
#include <stdio.h>
#include <stdlib.h>
#include <string.h>
#include <stdarg.h>

#include "fetch.c"

/* ------------------------------------------------------------------ stubs */
void log_err(const char *format, ...) { (void)format; }
void log_warn(const char *format, ...) { (void)format; }
void log_info(const char *format, ...) { (void)format; }
void log_peer_err(const struct peer *p, const char *fmt, ...) { (void)p; (void)fmt; }
void log_peer_info(const struct peer *p, const char *fmt, ...) { (void)p; (void)fmt; }
const char *get_peer_name(const struct peer *p) { (void)p; return "harness"; }

static struct list_head the_peer_list;
const struct list_head *get_peer_list(void) { return &the_peer_list; }
bool element_is_fetch_only(const struct element *e) { (void)e; return false; }

static struct peer the_peer;
static int sent_messages;
static int send_stub(const struct peer *p, char *rendered, size_t len)
{
	(void)p; (void)rendered; (void)len;
	sent_messages++;
	return 0;
}

/* ------------------------------------------------------------------ helpers */
static int hexval(int c)
{
	if (c >= '0' && c <= '9') return c - '0';
	if (c >= 'a' && c <= 'f') return c - 'a' + 10;
	if (c >= 'A' && c <= 'F') return c - 'A' + 10;
	return -1;
}

/* decode hex [s, e) into a fresh NUL-terminated buffer ("-" = empty); *len = number of bytes */
static char *unhex_range(const char *s, const char *e, size_t *len)
{
	size_t n = (size_t)(e - s);
	if (n == 1 && s[0] == '-') n = 0;
	if (n % 2) return NULL;
	char *b = malloc(n / 2 + 1);
	size_t k = 0;
	for (size_t i = 0; i < n; i += 2) {
		int h = hexval((unsigned char)s[i]), l = hexval((unsigned char)s[i + 1]);
		if (h < 0 || l < 0) { free(b); return NULL; }
		b[k++] = (char)(h * 16 + l);
	}
	b[k] = 0;
	if (len) *len = k;
	return b;
}

static char *unhex(const char *s, size_t *len) { return unhex_range(s, s + strlen(s), len); }

static void print_hex(const char *s)
{
	if (*s == 0) { fputs("-", stdout); return; }
	for (; *s; s++) printf("%02x", (unsigned char)*s);
}

static cJSON *item_from_enc(const char **pp)
{
	const char *p = *pp;
	cJSON *it = NULL;
	switch (*p) {
	case 's': {
		const char *e = p + 1;
		while (hexval((unsigned char)*e) >= 0) e++;
		char *b = unhex_range(p + 1, e, NULL);
		if (!b) return NULL;
		it = cJSON_CreateString(b);
		free(b);
		p = e;
		break;
	}
	case 'n': it = cJSON_CreateNumber(1); p++; break;
	case 't': it = cJSON_CreateTrue(); p++; break;
	case 'f': it = cJSON_CreateFalse(); p++; break;
	case 'z': it = cJSON_CreateNull(); p++; break;
	case 'o': it = cJSON_CreateObject(); p++; break;
	case 'a': it = cJSON_CreateArray(); p++; break;
	default: return NULL;
	}
	*pp = p;
	return it;
}

static cJSON *value_from_enc(const char **pp)
{
	const char *p = *pp;
	if (*p != 'a') return item_from_enc(pp);
	cJSON *arr = cJSON_CreateArray();
	p++;
	if (*p != ';' && *p != 0) {
		for (;;) {
			cJSON *it = item_from_enc(&p);
			if (!it) { cJSON_Delete(arr); return NULL; }
			cJSON_AddItemToArray(arr, it);
			if (*p == ',') { p++; continue; }
			break;
		}
	}
	*pp = p;
	return arr;
}

/* returns 0 and *out (NULL when the member is absent), or -1 on a malformed encoding */
static int path_from_enc(const char *enc, cJSON **out)
{
	*out = NULL;
	if (strcmp(enc, "~") == 0) return 0;
	if (enc[0] == '!') {
		const char *p = enc + 1;
		char one[2] = {enc[1], 0};
		const char *q = one;
		if (enc[1] == 's') { *out = cJSON_CreateString("x"); return enc[2] ? -1 : 0; }
		(void)p;
		*out = item_from_enc(&q);
		return (*out && enc[2] == 0) ? 0 : -1;
	}
	if (enc[0] != '@') return -1;
	cJSON *obj = cJSON_CreateObject();
	const char *p = enc + 1;
	while (*p) {
		const char *e = p;
		while (hexval((unsigned char)*e) >= 0) e++;
		if (*e != '=') { cJSON_Delete(obj); return -1; }
		char *key = unhex_range(p, e, NULL);
		if (!key) { cJSON_Delete(obj); return -1; }
		p = e + 1;
		cJSON *v = value_from_enc(&p);
		if (!v) { free(key); cJSON_Delete(obj); return -1; }
		cJSON_AddItemToObject(obj, key, v);
		free(key);
		if (*p == ';') { p++; if (*p == 0) { cJSON_Delete(obj); return -1; } continue; }
		if (*p != 0) { cJSON_Delete(obj); return -1; }
	}
	*out = obj;
	return 0;
}

static int same_tree(const cJSON *a, const cJSON *b)
{
	if ((a == NULL) != (b == NULL)) return 0;
	if (a == NULL) return 1;
	if ((a->type & 0xff) != (b->type & 0xff)) return 0;
	if ((a->string == NULL) != (b->string == NULL)) return 0;
	if (a->string && strcmp(a->string, b->string) != 0) return 0;
	if ((a->type & 0xff) == cJSON_String && strcmp(a->valuestring, b->valuestring) != 0) return 0;
	const cJSON *ca = a->child, *cb = b->child;
	while (ca && cb) {
		if (!same_tree(ca, cb)) return 0;
		ca = ca->next;
		cb = cb->next;
	}
	return ca == NULL && cb == NULL;
}

static void print_error_response(cJSON *response)
{
	const cJSON *err = response ? cJSON_GetObjectItemCaseSensitive(response, "error") : NULL;
	const cJSON *code = err ? cJSON_GetObjectItemCaseSensitive(err, "code") : NULL;
	const cJSON *data = err ? cJSON_GetObjectItemCaseSensitive(err, "data") : NULL;
	const cJSON *reason = data ? cJSON_GetObjectItemCaseSensitive(data, "reason") : NULL;
	printf("err %d ", code ? code->valueint : 0);
	if (reason && reason->type == cJSON_String) print_hex(reason->valuestring); else fputs("?", stdout);
}

/* ------------------------------------------------------------------ state */
static struct fetch *cur_fetch;
static size_t base_alloc;       /* accounted heap before the current fetch was created */

static long release_previous(void)
{
	if (cur_fetch == NULL) {
		return 0;
	}
	remove_all_fetchers_from_peer(&the_peer);
	cur_fetch = NULL;
	return (long)cjet_get_alloc_size() - (long)base_alloc;
}

static int count_fetches(void)
{
	int n = 0;
	struct list_head *item, *tmp;
	list_for_each_safe (item, tmp, &the_peer.fetch_list) n++;
	return n;
}

static void dump_fetch(const struct fetch *f)
{
	printf("ok n=%u m=", f->number_of_matchers);
	for (unsigned int i = 0; i < f->number_of_matchers; i++) {
		const struct path_matcher *pm = f->matcher[i];
		if (i) putchar(';');
		if (pm == NULL) { fputs("null", stdout); continue; }
		int idx = -1, ci = -1;
		for (unsigned int k = 0; k < ARRAY_SIZE(matchers); k++) {
			if (pm->match_function == matchers[k].case_sensitive) { idx = (int)k; ci = 0; }
			else if (pm->match_function == matchers[k].case_insensitive) { idx = (int)k; ci = 1; }
		}
		printf("%d.%d:", idx, ci);
		for (unsigned int k = 0; k < pm->number_of_path_elements; k++) {
			if (k) putchar(',');
			print_hex(pm->path_elements[k]);
		}
	}
}

static cJSON *make_request(const char *method, cJSON *path, int with_fetch_id)
{
	cJSON *req = cJSON_CreateObject();
	cJSON_AddNumberToObject(req, "id", 7);
	cJSON_AddStringToObject(req, "method", method);
	cJSON *params = cJSON_CreateObject();
	if (with_fetch_id) cJSON_AddStringToObject(params, "id", "f");
	if (path) cJSON_AddItemToObject(params, "path", path);
	cJSON_AddItemToObject(req, "params", params);
	return req;
}

static void op_rule(char *enc, char *jsonhex)
{
	long prev = release_previous();
	base_alloc = cjet_get_alloc_size();
	cJSON *path = NULL;
	if (path_from_enc(enc, &path) < 0) { puts("bad_encoding"); return; }
	cJSON *req = make_request("fetch", path, 1);
	if (jsonhex) {
		size_t len;
		char *txt = unhex(jsonhex, &len);
		const char *end;
		cJSON *parsed = txt ? cJSON_ParseWithOpts(txt, &end, 0) : NULL;
		int same = parsed && same_tree(cJSON_GetObjectItemCaseSensitive(cJSON_GetObjectItemCaseSensitive(parsed, "params"), "path"), path)
		           && (size_t)(end - txt) == len;
		free(txt);
		if (!same) {
			if (parsed) cJSON_Delete(parsed);
			cJSON_Delete(req);
			puts("tree_mismatch");
			return;
		}
		cJSON_Delete(req);
		req = parsed;
	}
	struct fetch *f = NULL;
	cJSON *response = NULL;
	int ret = add_fetch_to_peer(&the_peer, req, &f, &response);
	if (ret == 0 && f != NULL) {
		cur_fetch = f;
		cJSON_Delete(req);
		dump_fetch(f);
		printf(" | prev=%ld fl=%d\n", prev, count_fetches());
		return;
	}
	print_error_response(response);
	if (response) cJSON_Delete(response);
	cJSON_Delete(req);
	printf(" | prev=%ld leak=%ld fl=%d\n", prev, (long)cjet_get_alloc_size() - (long)base_alloc, count_fetches());
}

static void op_match(char *pathhex)
{
	if (cur_fetch == NULL) { puts("m nofetch"); return; }
	char *path = unhex(pathhex, NULL);
	if (!path) { puts("bad_encoding"); return; }
	struct element e;
	memset(&e, 0, sizeof(e));
	e.path = path;
	e.peer = &the_peer;
	int r = state_matches(&e, cur_fetch);
	printf("m %d\n", r ? 1 : 0);
	free(path);
}

static void op_get(char *enc, char *paths)
{
	size_t before = cjet_get_alloc_size();
	cJSON *path = NULL;
	if (path_from_enc(enc, &path) < 0) { puts("bad_encoding"); return; }
	cJSON *req = make_request("get", path, 0);
	/* elements */
	int n = 0;
	struct element *els = NULL;
	char *save = NULL;
	for (char *tok = strtok_r(paths, ",", &save); tok; tok = strtok_r(NULL, ",", &save)) {
		els = realloc(els, sizeof(*els) * (size_t)(n + 1));
		n++;
	}
	/* strtok_r destroyed nothing but separators; walk again over the pieces */
	char *q = paths;
	for (int i = 0; i < n; i++) {
		memset(&els[i], 0, sizeof(els[i]));
		els[i].path = unhex(q, NULL);
		els[i].peer = &the_peer;
		els[i].value = cJSON_CreateNumber(i);
		q += strlen(q) + 1;
	}
	INIT_LIST_HEAD(&the_peer.element_list);
	for (int i = 0; i < n; i++) {
		INIT_LIST_HEAD(&els[i].element_list);
		list_add_tail(&els[i].element_list, &the_peer.element_list);
	}
	cJSON *response = get_elements(req, &the_peer);
	const cJSON *result = response ? cJSON_GetObjectItemCaseSensitive(response, "result") : NULL;
	int is_err = (result == NULL);
	if (!is_err) {
		fputs("sel ", stdout);
		int k = 0;
		const cJSON *st;
		cJSON_ArrayForEach(st, result) {
			const cJSON *v = cJSON_GetObjectItemCaseSensitive(st, "value");
			const cJSON *pth = cJSON_GetObjectItemCaseSensitive(st, "path");
			int idx = v ? v->valueint : -1;
			/* the reported path must be the element's path */
			if (idx < 0 || idx >= n || !pth || strcmp(pth->valuestring, els[idx].path) != 0) idx = -1;
			printf("%s%d", k ? "," : "", idx);
			k++;
		}
		if (k == 0) putchar('-');
	} else {
		print_error_response(response);
	}
	if (response) cJSON_Delete(response);
	cJSON_Delete(req);
	for (int i = 0; i < n; i++) {
		cJSON_Delete(els[i].value);
		free(els[i].path);
	}
	free(els);
	INIT_LIST_HEAD(&the_peer.element_list);
	printf(" | leak=%ld\n", (long)cjet_get_alloc_size() - (long)before);
}

static void op_fn(char *name, char *ci, char *pathhex, char *ops)
{
	const struct supported_matcher *sm = NULL;
	for (unsigned int k = 0; k < ARRAY_SIZE(matchers); k++) {
		if (strcmp(matchers[k].matcher_name, name) == 0) sm = &matchers[k];
	}
	if (!sm) { puts("fn unknown"); return; }
	unsigned int n = 1;
	for (char *c = ops; *c; c++) if (*c == ',') n++;
	struct path_matcher *pm = create_path_matcher(n);
	if (!pm) { puts("fn alloc_failed"); return; }
	char *q = ops;
	for (unsigned int i = 0; i < n; i++) {
		char *e = strchr(q, ',');
		if (!e) e = q + strlen(q);
		char *b = unhex_range(q, e, NULL);
		if (!b) { puts("bad_encoding"); return; }
		pm->path_elements[i] = duplicate_string(b);
		free(b);
		q = (*e) ? e + 1 : e;
	}
	pm->match_function = (ci[0] == '1') ? sm->case_insensitive : sm->case_sensitive;
	char *path = unhex(pathhex, NULL);
	if (!path) { puts("bad_encoding"); return; }
	int r = pm->match_function(pm, path);
	printf("fn %d\n", r ? 1 : 0);
	free(path);
	free_path_elements(pm);
	cjet_free(pm);
}

static int sign(int v) { return v < 0 ? -1 : (v > 0 ? 1 : 0); }

static void op_libc(char *f, char *ahex, char *bhex, char *nstr)
{
	char *a = unhex(ahex, NULL), *b = unhex(bhex, NULL);
	if (!a || !b) { puts("bad_encoding"); return; }
	size_t n = nstr ? (size_t)strtoul(nstr, NULL, 10) : 0;
	if (strcmp(f, "strcmp") == 0) printf("libc %d\n", sign(strcmp(a, b)));
	else if (strcmp(f, "strncmp") == 0) printf("libc %d\n", sign(strncmp(a, b, n)));
	else if (strcmp(f, "strcasecmp") == 0) printf("libc %d\n", sign(jet_strcasecmp(a, b)));
	else if (strcmp(f, "strncasecmp") == 0) printf("libc %d\n", sign(jet_strncasecmp(a, b, n)));
	else if (strcmp(f, "strstr") == 0) { const char *r = strstr(a, b); printf("libc %ld\n", r ? (long)(r - a) : -1L); }
	else if (strcmp(f, "strcasestr") == 0) { const char *r = jet_strcasestr(a, b); printf("libc %ld\n", r ? (long)(r - a) : -1L); }
	else if (strcmp(f, "strlen") == 0) printf("libc %zu\n", strlen(a));
	else puts("libc unknown");
	free(a);
	free(b);
}

int main(void)
{
	cJSON_Hooks hooks = {.malloc_fn = cjet_malloc, .free_fn = cjet_free};
	cJSON_InitHooks(&hooks);
	INIT_LIST_HEAD(&the_peer_list);
	memset(&the_peer, 0, sizeof(the_peer));
	INIT_LIST_HEAD(&the_peer.element_list);
	INIT_LIST_HEAD(&the_peer.fetch_list);
	INIT_LIST_HEAD(&the_peer.next_peer);
	the_peer.send_message = send_stub;
	the_peer.name = (char *)"harness";
	list_add_tail(&the_peer.next_peer, &the_peer_list);

	char *line = NULL;
	size_t cap = 0;
	ssize_t len;
	while ((len = getline(&line, &cap, stdin)) > 0) {
		while (len > 0 && (line[len - 1] == '\n' || line[len - 1] == '\r' || line[len - 1] == ' ')) line[--len] = 0;
		char *w[6] = {0};
		int nw = 0;
		char *save = NULL;
		for (char *tok = strtok_r(line, " ", &save); tok && nw < 6; tok = strtok_r(NULL, " ", &save)) w[nw++] = tok;
		if (nw == 0) { puts("empty"); fflush(stdout); continue; }
		if (strcmp(w[0], "fn") == 0 && nw == 5) op_fn(w[1], w[2], w[3], w[4]);
		else if (strcmp(w[0], "libc") == 0 && nw >= 4) op_libc(w[1], w[2], w[3], w[4]);
		else if (strcmp(w[0], "rule") == 0 && nw >= 2) op_rule(w[1], w[2]);
		else if (strcmp(w[0], "match") == 0 && nw == 2) op_match(w[1]);
		else if (strcmp(w[0], "get") == 0 && nw == 3) op_get(w[1], w[2]);
		else if (strcmp(w[0], "sizes") == 0) {
			struct path_matcher *pm = NULL;
			printf("sizes pm=%zu pe=%zu st=%zu cap=%zu max=%d\n", sizeof(*pm), sizeof(pm->path_elements), sizeof(size_t),
			       (size_t)CONFIG_MAX_HEAPSIZE_IN_KBYTE * 1024, (int)CONFIG_MAX_NUMBERS_OF_MATCHERS_IN_FETCH);
		}
		else if (strcmp(w[0], "end") == 0) { long prev = release_previous(); printf("end | prev=%ld\n", prev); }
		else puts("bad_op");
		fflush(stdout);
	}
	free(line);
	return 0;
}
