/*
 * Startup component harness: the REAL src/linux/linux_io.c (#included, so that run_io and its static
 * helpers are the code that runs) over a scripted kernel / libc / event loop and a stubbed rest of the
 * daemon.
 *
 * Build: this file only; linked with -Wl,--wrap= for
 *   socket setsockopt bind listen fcntl unlink close accept getsockname getaddrinfo freeaddrinfo
 *   signal sigaction daemon getpwnam setgid setuid
 *
 * Script (stdin), one run of run_io per line — the same script the Lean driver `drv_startup` reads:
 *   run <local 0|1> <user 0|1> <foreground 0|1> <answer>...
 *   answer: ok | fail | retry | conn | a:<n>     (see lean/Cjet/Drv/Startup.lean)
 * Every call whose result linux_io.c inspects takes the next answer (none left = ok).  close, unlink,
 * loop->remove, loop->destroy, freeaddrinfo, signal(.., SIG_DFL), destroy_all_* take none.
 *
 * Output: one line per call, then the tables at return (OPEN / REG / PEERS / HANDLERS / AI / RET), END.
 * Lines starting with FAULT are the harness' own property monitor (descriptor table and registration
 * table kept here): double close, close of a descriptor never opened, use after close, close while
 * registered with the loop, remove of something not registered, add without a loop, destroy with
 * registrations, free of an unknown addrinfo list.
 */
#include <errno.h>
#include <fcntl.h>
#include <netdb.h>
#include <pwd.h>
#include <signal.h>
#include <stdarg.h>
#include <stdint.h>
#include <stdio.h>
#include <stdlib.h>
#include <string.h>
#include <arpa/inet.h>

#include "linux/linux_io.c"

void __sanitizer_set_death_callback(void (*cb)(void));

#define MAXFD 4096
#define MAXTOK 4096
#define FIRST_FD 10

enum fdstate { FD_NEVER = 0, FD_OPEN, FD_CLOSED, FD_PEER_FLIGHT, FD_PEER_OWNED };
static unsigned char fdst[MAXFD];
static int next_fd = FIRST_FD;

static char *toks[MAXTOK];
static int n_toks, next_tok;

enum anskind { A_OK, A_FAIL, A_RETRY, A_CONN, A_ADDRS };

struct reg {
	const struct io_event *ev;
	int sock;
};
static struct reg regs[64];
static int n_regs;
static int loop_up;

struct peerrec {
	int fd;
	int http;
	void *owner;
	void *bs;
};
static struct peerrec peers[MAXTOK];
static int n_peers;
static void *flight_owner, *flight_bs;
static int flight_fd = -1, flight_bs_sock = -1;

static const char *disp[3];	/* term int pipe */
static int ai_out;
static struct addrinfo *ai_lists[64];
static int n_ai_lists;
static const char *cfg_user;

static struct eventloop loop;
static int loop_obj;

static void out(const char *fmt, ...)
{
	va_list ap;
	va_start(ap, fmt);
	vprintf(fmt, ap);
	va_end(ap);
	putchar('\n');
}

static void flush_all(void)
{
	fflush(stdout);
}

static const char *okname(int ok)
{
	return ok ? "ok" : "fail";
}

/* ------------------------------------------------------------------ script */

static enum anskind take(const char **digits)
{
	if (digits) {
		*digits = "";
	}
	if (next_tok >= n_toks) {
		return A_OK;
	}
	const char *t = toks[next_tok++];
	if (strcmp(t, "ok") == 0) return A_OK;
	if (strcmp(t, "fail") == 0) return A_FAIL;
	if (strcmp(t, "retry") == 0) return A_RETRY;
	if (strcmp(t, "conn") == 0) return A_CONN;
	if (t[0] == 'a' && t[1] == ':') {
		if (digits) {
			*digits = t + 2;
		}
		return A_ADDRS;
	}
	return A_FAIL;
}

static int take_ok(void)
{
	return take(NULL) == A_OK;
}

/* ------------------------------------------------------------------ stubs of the rest of the daemon */

void log_err(const char *format, ...) { (void)format; }
void log_warn(const char *format, ...) { (void)format; }
void log_info(const char *format, ...) { (void)format; }

static void unexpected(const char *what)
{
	out("FAULT unexpected call of %s", what);
	flush_all();
	exit(3);
}

int buffered_socket_close(void *c) { (void)c; unexpected("buffered_socket_close"); return -1; }
int buffered_socket_writev(void *t, struct socket_io_vector *v, unsigned int n) { (void)t; (void)v; (void)n; unexpected("buffered_socket_writev"); return -1; }
void buffered_socket_set_error(void *t, void (*e)(void *), void *c) { (void)t; (void)e; (void)c; unexpected("buffered_socket_set_error"); }
int buffered_socket_read_exactly(void *t, size_t n, enum bs_read_callback_return (*cb)(void *, uint8_t *, size_t), void *c) { (void)t; (void)n; (void)cb; (void)c; unexpected("buffered_socket_read_exactly"); return -1; }
int buffered_socket_read_until(void *t, const char *d, enum bs_read_callback_return (*cb)(void *, uint8_t *, size_t), void *c) { (void)t; (void)d; (void)cb; (void)c; unexpected("buffered_socket_read_until"); return -1; }
void free_peer_on_error(void *c) { (void)c; unexpected("free_peer_on_error"); }
void free_connection(void *c) { (void)c; unexpected("free_connection"); }
int alloc_websocket_peer(struct http_connection *c) { (void)c; unexpected("alloc_websocket_peer"); return -1; }
int websocket_upgrade_on_header_field(http_parser *p, const char *at, size_t length) { (void)p; (void)at; (void)length; unexpected("websocket_upgrade_on_header_field"); return -1; }
int websocket_upgrade_on_header_value(http_parser *p, const char *at, size_t length) { (void)p; (void)at; (void)length; unexpected("websocket_upgrade_on_header_value"); return -1; }
int websocket_upgrade_on_headers_complete(http_parser *p) { (void)p; unexpected("websocket_upgrade_on_headers_complete"); return -1; }

struct socket_peer *alloc_jet_peer(void)
{
	flight_owner = calloc(1, sizeof(struct socket_peer));
	return flight_owner;
}

struct http_connection *alloc_http_connection(void)
{
	flight_owner = calloc(1, sizeof(struct http_connection));
	return flight_owner;
}

struct buffered_socket *buffered_socket_acquire(void)
{
	flight_bs = calloc(1, sizeof(struct buffered_socket));
	return flight_bs;
}

void cjet_free(void *ptr)
{
	if (ptr == flight_owner) {
		flight_owner = NULL;
	} else if (ptr == flight_bs) {
		flight_bs = NULL;
	} else if (ptr != NULL) {
		out("FAULT cjet_free of unknown pointer");
		return;
	}
	free(ptr);
}

void buffered_socket_init(struct buffered_socket *bs, socket_type sock, struct eventloop *l,
                          void (*error)(void *error_context), void *error_context)
{
	bs->ev.sock = sock;
	bs->ev.loop = l;
	bs->error = error;
	bs->error_context = error_context;
	flight_bs_sock = (int)sock;
	if (l != &loop) {
		out("FAULT buffered socket registered with a different event loop");
	}
}

static int make_peer(int http)
{
	int fd = flight_bs_sock;
	out("PEER %d %s", fd, http ? "http" : "jet");
	if (fd != flight_fd || fd < 0 || fd >= MAXFD || fdst[fd] != FD_PEER_FLIGHT) {
		out("FAULT peer created on descriptor %d, accepted descriptor in flight is %d", fd, flight_fd);
	} else {
		fdst[fd] = FD_PEER_OWNED;
	}
	if (n_peers < MAXTOK) {
		peers[n_peers].fd = fd;
		peers[n_peers].http = http;
		peers[n_peers].owner = flight_owner;
		peers[n_peers].bs = flight_bs;
		n_peers++;
	}
	flight_owner = flight_bs = NULL;
	flight_fd = flight_bs_sock = -1;
	return 0;
}

int init_socket_peer(struct socket_peer *p, struct buffered_reader *reader, bool is_local_connection)
{
	(void)reader; (void)is_local_connection;
	if ((void *)p != flight_owner) {
		out("FAULT init_socket_peer on a record that is not the live peer");
	}
	return make_peer(0);
}

int init_http_connection(struct http_connection *connection, const struct http_server *server,
                         struct buffered_reader *reader, bool is_local_connection)
{
	(void)reader; (void)is_local_connection;
	if ((void *)connection != flight_owner) {
		out("FAULT init_http_connection on a record that is not the live connection");
	}
	if (server == NULL || server->num_handlers != 1 || server->handler == NULL) {
		out("FAULT http server without its url handler");
	}
	return make_peer(1);
}

static void destroy_kind(int http)
{
	int w = 0;
	for (int i = 0; i < n_peers; i++) {
		if (peers[i].http == http) {
			if (peers[i].fd >= 0 && peers[i].fd < MAXFD) {
				fdst[peers[i].fd] = FD_CLOSED;
			}
			free(peers[i].owner);
			free(peers[i].bs);
		} else {
			peers[w++] = peers[i];
		}
	}
	n_peers = w;
}

void destroy_all_peers(void)
{
	out("DESTROYPEERS");
	destroy_kind(0);
}

void destroy_all_http_connections(void)
{
	out("DESTROYCONNS");
	destroy_kind(1);
}

/* ------------------------------------------------------------------ event loop */

static int find_reg_sock(int sock)
{
	for (int i = 0; i < n_regs; i++) {
		if (regs[i].sock == sock) return i;
	}
	return -1;
}

static int loop_init(void *this_ptr)
{
	if (this_ptr != (void *)&loop_obj) out("FAULT init with wrong this_ptr");
	int ok = take_ok();
	out("INIT %s", okname(ok));
	if (ok) loop_up = 1;
	return ok ? 0 : -1;
}

static void loop_destroy(const void *this_ptr)
{
	if (this_ptr != (const void *)&loop_obj) out("FAULT destroy with wrong this_ptr");
	out("DESTROY");
	if (!loop_up) out("FAULT destroy of a loop that is not initialised");
	if (n_regs != 0) out("FAULT destroy of a loop with %d registrations", n_regs);
	loop_up = 0;
}

static int loop_run(void *this_ptr, const int *ga)
{
	if (this_ptr != (void *)&loop_obj) out("FAULT run with wrong this_ptr");
	if (ga != &go_ahead) out("FAULT run with a foreign go_ahead");
	if (!loop_up) out("FAULT run of a loop that is not initialised");
	int ok = take_ok();
	out("RUN %d", ok ? 0 : -1);
	return ok ? 0 : -1;
}

static enum eventloop_return loop_add(const void *this_ptr, const struct io_event *ev)
{
	if (this_ptr != (const void *)&loop_obj) out("FAULT add with wrong this_ptr");
	int ok = take_ok();
	const char *kind = ev->read_function == accept_jet ? "jet" : ev->read_function == accept_http ? "http" : "other";
	int fd = (int)ev->sock;
	out("ADD %d %s %s", fd, kind, okname(ok));
	if (!loop_up) out("FAULT add without an initialised loop");
	if (fd < 0 || fd >= MAXFD || fdst[fd] != FD_OPEN) out("FAULT add of descriptor %d that is not open", fd);
	if (find_reg_sock(fd) >= 0) out("FAULT add of descriptor %d that is already registered", fd);
	if (ev->loop != &loop) out("FAULT io_event with a different loop");
	if (ev->error_function == NULL) out("FAULT io_event without error function");
	if (ok && n_regs < (int)ARRAY_SIZE(regs)) {
		regs[n_regs].ev = ev;
		regs[n_regs].sock = fd;
		n_regs++;
	}
	return ok ? EL_CONTINUE_LOOP : EL_ABORT_LOOP;
}

static void loop_remove(void *this_ptr, const struct io_event *ev)
{
	if (this_ptr != (void *)&loop_obj) out("FAULT remove with wrong this_ptr");
	int fd = (int)ev->sock;
	out("REMOVE %d", fd);
	int i = find_reg_sock(fd);
	if (i < 0) {
		out("FAULT remove of descriptor %d that is not registered", fd);
		return;
	}
	if (regs[i].ev != ev) out("FAULT remove of descriptor %d through a different io_event", fd);
	regs[i] = regs[--n_regs];
}

/* ------------------------------------------------------------------ scripted kernel / libc */

static int peer_in_flight(int fd)
{
	return fd >= 0 && fd < MAXFD && fdst[fd] == FD_PEER_FLIGHT;
}

static void check_use(int fd, const char *what)
{
	if (fd < 0 || fd >= MAXFD || fdst[fd] != FD_OPEN) {
		out("FAULT %s on descriptor %d that is not an open listener descriptor (state %d)", what, fd,
		    (fd >= 0 && fd < MAXFD) ? fdst[fd] : -1);
	}
}

int __wrap_socket(int domain, int type, int protocol)
{
	(void)protocol;
	const char *fam = domain == AF_INET6 ? "inet6" : domain == AF_INET ? "inet" : domain == AF_UNIX ? "unix" : "other";
	if (type != SOCK_STREAM) out("FAULT socket type %d", type);
	if (!take_ok() || next_fd >= MAXFD) {
		out("SOCKET %s fail", fam);
		errno = EMFILE;
		return -1;
	}
	int fd = next_fd++;
	fdst[fd] = FD_OPEN;
	out("SOCKET %s %d", fam, fd);
	return fd;
}

int __wrap_setsockopt(int fd, int level, int optname, const void *optval, socklen_t optlen)
{
	(void)optval; (void)optlen;
	if (peer_in_flight(fd)) return 0;
	const char *name = "other";
	if (level == SOL_SOCKET && optname == SO_REUSEADDR) name = "reuse";
	else if (level == IPPROTO_IPV6 && optname == IPV6_V6ONLY) name = "v6only";
	int ok = take_ok();
	out("SOCKOPT %d %s %s", fd, name, okname(ok));
	check_use(fd, "setsockopt");
	if (!ok) {
		errno = ENOPROTOOPT;
		return -1;
	}
	return 0;
}

int __wrap_fcntl(int fd, int cmd, ...)
{
	va_list ap;
	va_start(ap, cmd);
	long arg = va_arg(ap, long);
	va_end(ap);
	if (peer_in_flight(fd)) return cmd == F_GETFL ? O_RDWR : 0;
	const char *name = cmd == F_GETFL ? "getfl" : cmd == F_SETFL ? "setfl" : "other";
	int ok = take_ok();
	out("FCNTL %d %s %s", fd, name, okname(ok));
	check_use(fd, "fcntl");
	if (cmd == F_SETFL && (int)arg != (O_RDWR | O_NONBLOCK)) {
		out("FAULT F_SETFL with flags %#x, expected the old flags plus O_NONBLOCK", (unsigned)arg);
	}
	if (!ok) {
		errno = EBADF;
		return -1;
	}
	return cmd == F_GETFL ? O_RDWR : 0;
}

int __wrap_getsockname(int fd, struct sockaddr *addr, socklen_t *len)
{
	if (!peer_in_flight(fd)) out("FAULT getsockname on descriptor %d", fd);
	struct sockaddr_storage st;
	memset(&st, 0, sizeof(st));
	st.ss_family = AF_INET;
	memcpy(addr, &st, *len < sizeof(st) ? *len : sizeof(st));
	return 0;
}

static const char *portname(int port)
{
	return port == CONFIG_JET_PORT ? "jet" : port == CONFIG_JETWS_PORT ? "ws" : "other";
}

int __wrap_bind(int fd, const struct sockaddr *addr, socklen_t len)
{
	char target[64];
	strcpy(target, "other");
	if (addr->sa_family == AF_INET6 && len >= sizeof(struct sockaddr_in6)) {
		const struct sockaddr_in6 *s = (const struct sockaddr_in6 *)addr;
		const char *a = memcmp(&s->sin6_addr, &in6addr_any, 16) == 0 ? "any" :
		                memcmp(&s->sin6_addr, &in6addr_loopback, 16) == 0 ? "lo6" : "other6";
		snprintf(target, sizeof(target), "%s:%s", a, portname(ntohs(s->sin6_port)));
	} else if (addr->sa_family == AF_INET && len >= sizeof(struct sockaddr_in)) {
		const struct sockaddr_in *s = (const struct sockaddr_in *)addr;
		const char *a = ntohl(s->sin_addr.s_addr) == INADDR_LOOPBACK ? "lo4" :
		                ntohl(s->sin_addr.s_addr) == INADDR_ANY ? "any4" : "other4";
		snprintf(target, sizeof(target), "%s:%s", a, portname(ntohs(s->sin_port)));
	} else if (addr->sa_family == AF_UNIX) {
		const struct sockaddr_un *s = (const struct sockaddr_un *)addr;
		size_t n = strlen(UDS_FILE);
		if (len == sizeof(s->sun_family) + 1 + n && s->sun_path[0] == 0 && memcmp(s->sun_path + 1, UDS_FILE, n) == 0) {
			strcpy(target, "uds-abstract");
		} else if (s->sun_path[0] != 0 && strncmp(s->sun_path, UDS_FILE, sizeof(s->sun_path)) == 0) {
			strcpy(target, "uds-path");
		} else {
			strcpy(target, "uds-other");
		}
	}
	int ok = take_ok();
	out("BIND %d %s %s", fd, target, okname(ok));
	check_use(fd, "bind");
	if (!ok) {
		errno = EADDRINUSE;
		return -1;
	}
	return 0;
}

int __wrap_listen(int fd, int backlog)
{
	int ok = take_ok();
	out("LISTEN %d %s", fd, okname(ok));
	check_use(fd, "listen");
	if (backlog != CONFIG_LISTEN_BACKLOG) out("FAULT listen backlog %d", backlog);
	if (!ok) {
		errno = EADDRINUSE;
		return -1;
	}
	return 0;
}

int __wrap_unlink(const char *path)
{
	out("UNLINK %s", strcmp(path, UDS_FILE) == 0 ? "uds" : "other");
	return 0;
}

int __wrap_close(int fd)
{
	out("CLOSE %d", fd);
	if (fd < 0 || fd >= MAXFD) {
		out("FAULT close of descriptor %d", fd);
		errno = EBADF;
		return -1;
	}
	switch (fdst[fd]) {
	case FD_OPEN:
		if (find_reg_sock(fd) >= 0) {
			out("FAULT close of descriptor %d while it is registered with the event loop", fd);
		}
		fdst[fd] = FD_CLOSED;
		return 0;
	case FD_PEER_FLIGHT:
		fdst[fd] = FD_CLOSED;
		flight_fd = -1;
		return 0;
	case FD_CLOSED:
		out("FAULT double close of descriptor %d", fd);
		break;
	case FD_PEER_OWNED:
		out("FAULT close of descriptor %d that a peer owns", fd);
		break;
	default:
		out("FAULT close of descriptor %d that was never opened", fd);
		break;
	}
	errno = EBADF;
	return -1;
}

int __wrap_accept(int lfd, struct sockaddr *addr, socklen_t *len)
{
	if (flight_fd >= 0) {
		out("FAULT descriptor %d neither closed nor owned by a peer at the next accept", flight_fd);
		flight_fd = -1;
	}
	enum anskind a = take(NULL);
	if (a == A_CONN && next_fd < MAXFD) {
		int fd = next_fd++;
		fdst[fd] = FD_PEER_FLIGHT;
		flight_fd = fd;
		struct sockaddr_in sa;
		memset(&sa, 0, sizeof(sa));
		sa.sin_family = AF_INET;
		sa.sin_addr.s_addr = htonl(0x0a000001);
		if (addr != NULL && len != NULL) {
			memcpy(addr, &sa, *len < sizeof(sa) ? *len : sizeof(sa));
			*len = sizeof(sa);
		}
		out("ACCEPT %d conn %d", lfd, fd);
		check_use(lfd, "accept");
		return fd;
	}
	const char *what = a == A_RETRY ? "retry" : a == A_FAIL ? "fatal" : "again";
	out("ACCEPT %d %s", lfd, what);
	check_use(lfd, "accept");
	if (find_reg_sock(lfd) < 0) out("FAULT accept on descriptor %d that is not registered", lfd);
	errno = a == A_RETRY ? ECONNABORTED : a == A_FAIL ? EBADF : EAGAIN;
	return -1;
}

int __wrap_getaddrinfo(const char *node, const char *service, const struct addrinfo *hints, struct addrinfo **res)
{
	const char *nn = node == NULL ? "null" : strcmp(node, "::1") == 0 ? "lo6" : strcmp(node, "127.0.0.1") == 0 ? "lo4" : "other";
	int port = service ? atoi(service) : -1;
	if (hints == NULL || hints->ai_socktype != SOCK_STREAM) out("FAULT getaddrinfo hints");
	const char *digits;
	enum anskind a = take(&digits);
	if (a != A_OK && a != A_ADDRS) {
		out("GAI %s %s fail", nn, portname(port));
		return EAI_FAIL;
	}
	int n = a == A_OK ? 1 : atoi(digits);
	int v6 = node != NULL && strchr(node, ':') != NULL;
	if (n < 0 || n > 1000) n = 0;
	out("GAI %s %s %d", nn, portname(port), n);
	struct addrinfo *head = NULL, **tail = &head;
	for (int i = 0; i < n; i++) {
		struct addrinfo *ai = calloc(1, sizeof(*ai) + sizeof(struct sockaddr_storage));
		struct sockaddr_storage *ss = (struct sockaddr_storage *)(ai + 1);
		ai->ai_socktype = SOCK_STREAM;
		ai->ai_addr = (struct sockaddr *)ss;
		if (v6) {
			struct sockaddr_in6 *s = (struct sockaddr_in6 *)ss;
			ai->ai_family = AF_INET6;
			s->sin6_family = AF_INET6;
			s->sin6_port = htons((uint16_t)port);
			s->sin6_addr = in6addr_loopback;
			ai->ai_addrlen = sizeof(*s);
		} else {
			struct sockaddr_in *s = (struct sockaddr_in *)ss;
			ai->ai_family = AF_INET;
			s->sin_family = AF_INET;
			s->sin_port = htons((uint16_t)port);
			s->sin_addr.s_addr = htonl(INADDR_LOOPBACK);
			ai->ai_addrlen = sizeof(*s);
		}
		*tail = ai;
		tail = &ai->ai_next;
	}
	ai_out++;
	if (n_ai_lists < (int)ARRAY_SIZE(ai_lists)) ai_lists[n_ai_lists++] = head;
	*res = head;
	return 0;
}

void __wrap_freeaddrinfo(struct addrinfo *res)
{
	out("FREEAI");
	int found = -1;
	for (int i = 0; i < n_ai_lists; i++) {
		if (ai_lists[i] == res) {
			found = i;
			break;
		}
	}
	if (found < 0) {
		out("FAULT freeaddrinfo of a list that is not outstanding");
		return;
	}
	ai_lists[found] = ai_lists[--n_ai_lists];
	ai_out--;
	while (res != NULL) {
		struct addrinfo *n = res->ai_next;
		free(res);
		res = n;
	}
}

static int sig_index(int sig)
{
	return sig == SIGTERM ? 0 : sig == SIGINT ? 1 : sig == SIGPIPE ? 2 : -1;
}

static const char *signames[] = {"term", "int", "pipe"};

static int set_disposition(int sig, void (*h)(int))
{
	int i = sig_index(sig);
	const char *sn = i >= 0 ? signames[i] : "other";
	const char *d = h == SIG_DFL ? "dfl" : h == SIG_IGN ? "ign" : h == sighandler ? "handler" : "otherhandler";
	int ok = h == SIG_DFL ? 1 : take_ok();
	out("SIG %s %s %s", sn, d, okname(ok));
	if (ok && i >= 0) disp[i] = d;
	return ok;
}

typedef void (*sigh_t)(int);

sigh_t __wrap_signal(int sig, sigh_t h)
{
	if (!set_disposition(sig, h)) {
		errno = EINVAL;
		return SIG_ERR;
	}
	return SIG_DFL;
}

int __wrap_sigaction(int sig, const struct sigaction *act, struct sigaction *old)
{
	if (old != NULL) memset(old, 0, sizeof(*old));
	if (act == NULL) return 0;
	if (!set_disposition(sig, act->sa_handler)) {
		errno = EINVAL;
		return -1;
	}
	return 0;
}

int __wrap_daemon(int nochdir, int noclose)
{
	(void)nochdir; (void)noclose;
	int ok = take_ok();
	out("DAEMON %s", okname(ok));
	if (!ok) errno = EAGAIN;
	return ok ? 0 : -1;
}

struct passwd *__wrap_getpwnam(const char *name)
{
	static struct passwd pw;
	int ok = take_ok();
	out("GETPWNAM %s", okname(ok));
	if (cfg_user == NULL || name == NULL || strcmp(name, cfg_user) != 0) out("FAULT getpwnam of a different user");
	if (!ok) return NULL;
	memset(&pw, 0, sizeof(pw));
	pw.pw_uid = 1234;
	pw.pw_gid = 4321;
	return &pw;
}

int __wrap_setgid(gid_t gid)
{
	int ok = take_ok();
	out("SETGID %s", okname(ok));
	if (gid != 4321) out("FAULT setgid(%u)", (unsigned)gid);
	if (!ok) errno = EPERM;
	return ok ? 0 : -1;
}

int __wrap_setuid(uid_t uid)
{
	int ok = take_ok();
	out("SETUID %s", okname(ok));
	if (uid != 1234) out("FAULT setuid(%u)", (unsigned)uid);
	if (!ok) errno = EPERM;
	return ok ? 0 : -1;
}

/* ------------------------------------------------------------------ driver */

static int cmp_int(const void *a, const void *b)
{
	return *(const int *)a - *(const int *)b;
}

static void print_table(const char *name, int *v, int n)
{
	qsort(v, (size_t)n, sizeof(int), cmp_int);
	printf("%s", name);
	if (n == 0) printf(" -");
	for (int i = 0; i < n; i++) printf(" %d", v[i]);
	putchar('\n');
}

static void reset_run(void)
{
	memset(fdst, 0, sizeof(fdst));
	next_fd = FIRST_FD;
	n_regs = 0;
	loop_up = 0;
	for (int i = 0; i < n_peers; i++) {
		free(peers[i].owner);
		free(peers[i].bs);
	}
	n_peers = 0;
	free(flight_owner);
	free(flight_bs);
	flight_owner = flight_bs = NULL;
	flight_fd = flight_bs_sock = -1;
	for (int i = 0; i < n_ai_lists; i++) {
		struct addrinfo *res = ai_lists[i];
		while (res != NULL) {
			struct addrinfo *n = res->ai_next;
			free(res);
			res = n;
		}
	}
	n_ai_lists = 0;
	ai_out = 0;
	disp[0] = disp[1] = disp[2] = "dfl";
	go_ahead = 1;
}

static char line[1 << 16];

int main(void)
{
	__sanitizer_set_death_callback(flush_all);
	loop.this_ptr = &loop_obj;
	loop.init = loop_init;
	loop.destroy = loop_destroy;
	loop.run = loop_run;
	loop.add = loop_add;
	loop.remove = loop_remove;
	disp[0] = disp[1] = disp[2] = "dfl";

	while (fgets(line, sizeof(line), stdin) != NULL) {
		char *save = NULL;
		char *op = strtok_r(line, " \t\r\n", &save);
		if (op == NULL || op[0] == '#') {
			continue;
		}
		if (strcmp(op, "run") != 0) {
			out("ERROR unknown op");
			out("END");
			continue;
		}
		char *l = strtok_r(NULL, " \t\r\n", &save);
		char *u = strtok_r(NULL, " \t\r\n", &save);
		char *f = strtok_r(NULL, " \t\r\n", &save);
		if (l == NULL || u == NULL || f == NULL) {
			out("ERROR bad run");
			out("END");
			continue;
		}
		n_toks = next_tok = 0;
		char *t;
		while ((t = strtok_r(NULL, " \t\r\n", &save)) != NULL && n_toks < MAXTOK) {
			toks[n_toks++] = t;
		}
		reset_run();
		struct cmdline_config config;
		memset(&config, 0, sizeof(config));
		config.bind_local_only = atoi(l) != 0;
		config.user_name = atoi(u) != 0 ? "jetuser" : NULL;
		config.run_foreground = atoi(f) != 0;
		config.request_target = "/api/jet/";
		cfg_user = config.user_name;

		int ret = run_io(&loop, &config);

		int v[MAXFD];
		int n = 0;
		for (int fd = 0; fd < MAXFD; fd++) if (fdst[fd] == FD_OPEN) v[n++] = fd;
		print_table("OPEN", v, n);
		n = 0;
		for (int i = 0; i < n_regs; i++) v[n++] = regs[i].sock;
		print_table("REG", v, n);
		n = 0;
		for (int fd = 0; fd < MAXFD; fd++) if (fdst[fd] == FD_PEER_OWNED || fdst[fd] == FD_PEER_FLIGHT) v[n++] = fd;
		print_table("PEERS", v, n);
		out("HANDLERS term=%s int=%s pipe=%s", disp[0], disp[1], disp[2]);
		out("AI %d", ai_out);
		out("RET %d goahead=%d", ret, go_ahead);
		out("END");
		flush_all();
	}
	reset_run();
	flush_all();
	return 0;
}
