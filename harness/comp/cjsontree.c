/*
 * Component harness `cjsontree`: the REAL tree layer of /repo/src/json/cJSON.c (#included, nothing edited):
 * cJSON_Duplicate / cJSON_Delete under an allocation hook that counts calls and live blocks and fails the
 * calls a schedule names; get_object_item (both comparisons); cJSON_GetArraySize / cJSON_GetArrayItem.
 * add_item_to_object (key copy may fail; the item's previous name is released through the hook).
 * Script and answers: see lean/Cjet/Drv/Cjsontree.lean (the model driver reads the same script).
 * The original item is built with plain malloc by the harness and released by the harness, so the flag
 * bits cJSON_IsReference / cJSON_StringIsConst can be set freely; only what cJSON_Duplicate and the
 * cJSON_Delete of its result do goes through the hooks.
 */
#include <stdint.h>
#include <stdio.h>
#include <stdlib.h>
#include <string.h>
#include <inttypes.h>

#include "json/cJSON.c"

static unsigned long h_next;
static long h_live;
static unsigned long fails[64];
static unsigned nfails;

static void *h_malloc(size_t n)
{
	unsigned long me = h_next++;
	for (unsigned i = 0; i < nfails; i++) if (fails[i] == me) return NULL;
	h_live++;
	return malloc(n);
}

static void h_free(void *p)
{
	if (p) { h_live--; free(p); }
}

static char *next_tok(char **sp)
{
	char *s = *sp;
	while (*s == ' ' || *s == '\n' || *s == '\r') s++;
	if (!*s) { *sp = s; return NULL; }
	char *b = s;
	while (*s && *s != ' ' && *s != '\n' && *s != '\r') s++;
	if (*s) *s++ = 0;
	*sp = s;
	return b;
}

static int hv(int c) { return c <= '9' ? c - '0' : (c | 32) - 'a' + 10; }

/* "~" -> NULL, "-" -> "", hex -> C string */
static char *opt_str(const char *t)
{
	if (!t || strcmp(t, "~") == 0) return NULL;
	if (strcmp(t, "-") == 0) return calloc(1, 1);
	size_t n = strlen(t) / 2;
	char *r = malloc(n + 1);
	for (size_t i = 0; i < n; i++) r[i] = (char)(hv(t[2 * i]) * 16 + hv(t[2 * i + 1]));
	r[n] = 0;
	return r;
}

static cJSON *build(char **sp)
{
	char *t = next_tok(sp);
	if (!t || strcmp(t, "I") != 0) return NULL;
	char *k = next_tok(sp), *fl = next_tok(sp), *vi = next_tok(sp), *vd = next_tok(sp), *vs = next_tok(sp),
	     *nm = next_tok(sp), *n = next_tok(sp);
	if (!n) return NULL;
	cJSON *it = calloc(1, sizeof *it);
	unsigned flags = (unsigned)atoi(fl);
	it->type = atoi(k) | ((flags & 1) ? cJSON_IsReference : 0) | ((flags & 2) ? cJSON_StringIsConst : 0);
	it->valueint = atoi(vi);
	uint64_t bits = strtoull(vd, NULL, 16);
	memcpy(&it->valuedouble, &bits, 8);
	it->valuestring = opt_str(vs);
	it->string = opt_str(nm);
	int cnt = atoi(n);
	cJSON *last = NULL;
	for (int i = 0; i < cnt; i++) {
		cJSON *c = build(sp);
		if (!c) return it;
		if (last) { last->next = c; c->prev = last; } else it->child = c;
		last = c;
	}
	return it;
}

static void destroy(cJSON *it)
{
	while (it) {
		cJSON *nx = it->next;
		destroy(it->child);
		free(it->valuestring);
		free(it->string);
		free(it);
		it = nx;
	}
}

static void putopt(const char *s)
{
	if (!s) { putchar('~'); return; }
	if (!*s) { putchar('-'); return; }
	for (; *s; s++) printf("%02x", (unsigned char)*s);
}

static void dump(const cJSON *it)
{
	uint64_t bits;
	int cnt = 0;
	memcpy(&bits, &it->valuedouble, 8);
	for (const cJSON *c = it->child; c; c = c->next) cnt++;
	printf("I %d %d %d %" PRIx64 " ", it->type & 0xFF, ((it->type & cJSON_IsReference) ? 1 : 0) | ((it->type & cJSON_StringIsConst) ? 2 : 0),
	       it->valueint, bits);
	putopt(it->valuestring);
	putchar(' ');
	putopt(it->string);
	printf(" %d", cnt);
	for (const cJSON *c = it->child; c; c = c->next) { putchar(' '); dump(c); }
}

static void parse_fails(const char *t)
{
	nfails = 0;
	if (!t || strcmp(t, "-") == 0) return;
	char *end;
	while (*t && nfails < 64) {
		fails[nfails++] = strtoul(t, &end, 10);
		t = (*end == ',') ? end + 1 : end;
	}
}

static int index_of(const cJSON *parent, const cJSON *c)
{
	int j = 0;
	for (const cJSON *x = parent->child; x; x = x->next, j++) if (x == c) return j;
	return -1;
}

int main(void)
{
	static char line[1 << 20];
	cJSON_Hooks hooks = { h_malloc, h_free };
	cJSON_InitHooks(&hooks);
	while (fgets(line, sizeof line, stdin)) {
		char *sp = line;
		char *op = next_tok(&sp);
		if (!op) continue;
		if (op[0] == '#') continue;
		if (strcmp(op, "D") == 0 || strcmp(op, "F") == 0) {
			parse_fails(next_tok(&sp));
			cJSON *it = build(&sp);
			if (!it) { puts("ERROR bad item"); continue; }
			h_next = 0; h_live = 0;
			cJSON *c = cJSON_Duplicate(it, op[0] == 'D');
			if (!c) {
				printf("NULL next=%lu live=%ld\n", h_next, h_live);
			} else {
				unsigned long n = h_next; long l = h_live;
				fputs("ok ", stdout);
				dump(c);
				cJSON_Delete(c);
				printf(" next=%lu live=%ld del=%ld\n", n, l, l - h_live);
			}
			destroy(it);
		} else if (strcmp(op, "G") == 0) {
			char *cs = next_tok(&sp);
			char *key = opt_str(next_tok(&sp));
			cJSON *it = build(&sp);
			if (!it || !key) { puts("ERROR bad G"); continue; }
			cJSON *r = get_object_item(it, key, atoi(cs));
			if (r) printf("some %d\n", index_of(it, r)); else puts("none");
			free(key);
			destroy(it);
		} else if (strcmp(op, "O") == 0) {
			parse_fails(next_tok(&sp));
			int ck = atoi(next_tok(&sp));
			char *key = opt_str(next_tok(&sp));
			cJSON *obj = build(&sp);
			cJSON *it = build(&sp);
			if (!obj || !it || !key) { puts("ERROR bad O"); continue; }
			char *old_const = (it->type & cJSON_StringIsConst) ? it->string : NULL;   /* cJSON does not own it: ours to release */
			h_next = 0; h_live = 1000;
			cJSON_bool ok = add_item_to_object(obj, key, it, &global_hooks, ck);
			printf("%s next=%lu live=%ld | ", ok ? "ok" : "FAIL", h_next, h_live);
			dump(obj);
			fputs(" | ", stdout);
			if (ok && index_of(obj, it) >= 0 && it->next == NULL) puts("attached");
			else { fputs("orphan ", stdout); dump(it); putchar('\n'); }
			if (!ok) destroy(it); else free(old_const);
			if (!(ok && ck)) free(key);      /* a constant key that was attached is released with the item */
			destroy(obj);
		} else if (strcmp(op, "S") == 0) {
			parse_fails(next_tok(&sp));
			char *txt = opt_str(next_tok(&sp));
			if (!txt) { puts("ERROR bad S"); continue; }
			h_next = 0; h_live = 0;
			cJSON *c = cJSON_CreateString(txt);
			if (!c) printf("NULL next=%lu live=%ld\n", h_next, h_live);
			else {
				unsigned long n = h_next; long l = h_live;
				fputs("ok ", stdout);
				dump(c);
				cJSON_Delete(c);
				printf(" next=%lu live=%ld del=%ld\n", n, l, l - h_live);
			}
			free(txt);
		} else if (strcmp(op, "R") == 0) {
			parse_fails(next_tok(&sp));
			(void)next_tok(&sp);                      /* <checked>: for the model only */
			char *key = opt_str(next_tok(&sp));
			cJSON *obj = build(&sp);
			cJSON *it = build(&sp);
			if (!obj || !it || !key) { puts("ERROR bad R"); continue; }
			char *old_const = (it->type & cJSON_StringIsConst) ? it->string : NULL;
			h_next = 0; h_live = 1000;
			cJSON_bool ok = cJSON_ReplaceItemInObject(obj, key, it);
			printf("%s next=%lu live=%ld | ", ok ? "ok" : "FAIL", h_next, h_live);
			dump(obj);
			fputs(" | ", stdout);
			if (ok) puts("consumed");
			else { fputs("orphan ", stdout); dump(it); putchar('\n'); destroy(it); }
			free(old_const);
			free(key);
			destroy(obj);
		} else if (strcmp(op, "A") == 0) {
			int idx = atoi(next_tok(&sp));
			cJSON *it = build(&sp);
			if (!it) { puts("ERROR bad A"); continue; }
			cJSON *r = cJSON_GetArrayItem(it, idx);
			printf("size %d ", cJSON_GetArraySize(it));
			if (r) printf("some %d\n", index_of(it, r)); else puts("none");
			destroy(it);
		} else {
			puts("ERROR unknown op");
		}
	}
	fflush(stdout);
	return 0;
}
