/*
 * C12 component harness: the REAL websocket.c (textually included, so that its statics are
 * reachable), websocket_peer.c, http_connection.c, http_server.c, http_parser, base64.c, sha1.c,
 * utf8_checker.c, compression.c + zlib and buffered_socket.c, driven by a line script on stdin.
 *
 * Two readers can be put under the http connection:
 *   stub : a scripted exact-reader (as the unit tests use), which delivers every read_exactly /
 *          read_until request from a fresh heap block at a chosen alignment (0..15) so that ASan sees
 *          any access outside the delivered bytes, and which mirrors buffered_socket's refusal of a
 *          request larger than the read buffer (BS_IO_TOOMUCHDATA -> error handler);
 *   real : the real buffered_socket.c over a scripted socket_read (chunked), to validate the stub's
 *          behaviour and segmentation independence on the real reader.
 * The peer layer is stubbed (init_peer / free_peer_resources / parse_message with a scripted verdict),
 * the callbacks of the daemon's websocket are exactly the ones websocket_peer.c installs (the harness
 * only wraps the non-NULL ones to log them).
 *
 * One observation line per script line: space separated event tokens, or "-" when nothing happened.
 *   W:<hex>  bytes handed to writev (WF: the scripted writev failure)      CL  br->close called
 *   TM:<hex> text_message_received   BM: binary_message_received  TF:<hex>:<last>  BF:<hex>:<last>
 *   PI:<hex> ping_received  PO:<hex> pong_received  CR:<code> close_received  ER on_error  FP peer freed
 *   handshake scripts additionally: ln (a line is delivered) url:<rc>:<pathhex|-> hf:<hex> hv:<hex>
 *   hc:<method>:<major>:<minor>:<upgrade> perr (the parser itself rejects the line)
 */
#include <errno.h>
#include <stdarg.h>
#include <stdbool.h>
#include <stdint.h>
#include <stdio.h>
#include <stdlib.h>
#include <string.h>

#include "websocket.c"

#include "alloc.h"
#include "buffered_socket.h"
#include "http_server.h"
#include "parse.h"
#include "peer.h"
#include "url_handler.h"
#include "utf8_checker.h"
#include "websocket_peer.h"

/* ------------------------------------------------------------------ event log */

static char *evb;
static size_t evl, evc;

static void ev_raw(const char *s, size_t n)
{
	if (evl + n + 2 > evc) {
		evc = (evl + n + 2) * 2;
		evb = realloc(evb, evc);
	}
	memcpy(evb + evl, s, n);
	evl += n;
	evb[evl] = 0;
}

static void ev(const char *fmt, ...)
{
	char tmp[256];
	va_list ap;
	va_start(ap, fmt);
	int n = vsnprintf(tmp, sizeof(tmp), fmt, ap);
	va_end(ap);
	if (evl) ev_raw(" ", 1);
	ev_raw(tmp, (size_t)n);
}

static void ev_hexbytes(const void *p, size_t n)
{
	static const char d[] = "0123456789abcdef";
	const uint8_t *b = p;
	if (n == 0) {
		ev_raw("-", 1);
		return;
	}
	char *tmp = malloc(2 * n);
	for (size_t i = 0; i < n; i++) {
		tmp[2 * i] = d[b[i] >> 4];
		tmp[2 * i + 1] = d[b[i] & 15];
	}
	ev_raw(tmp, 2 * n);
	free(tmp);
}

static void ev_hex(const char *tag, const void *p, size_t n)
{
	ev("%s:", tag);
	ev_hexbytes(p, n);
}

static void flush_line(void)
{
	if (evl == 0) {
		puts("-");
	} else {
		puts(evb);
	}
	fflush(stdout);
	evl = 0;
	if (evb) evb[0] = 0;
}

/* ------------------------------------------------------------------ stubs of everything outside the slice */

void log_err(const char *format, ...) { (void)format; }
void log_warn(const char *format, ...) { (void)format; }
void log_info(const char *format, ...) { (void)format; }
void log_peer_info(const struct peer *p, const char *fmt, ...) { (void)p; (void)fmt; }
void log_peer_err(const struct peer *p, const char *fmt, ...) { (void)p; (void)fmt; }

int init_peer(struct peer *p, bool is_local_connection, struct eventloop *loop)
{
	p->is_local_connection = is_local_connection;
	p->loop = loop;
	return 0;
}

void free_peer_resources(struct peer *p)
{
	(void)p;
	ev("FP");
}

static int g_cbret = WS_OK; /* scripted verdict of the application callback for this op */

int parse_message(const char *msg, size_t length, struct peer *p)
{
	(void)msg; (void)length; (void)p;
	return (g_cbret == WS_OK) ? 0 : -1;
}

static uint8_t g_mask_key[4];

int init_random(void) { return 0; }
void close_random(void) {}
void cjet_get_random_bytes(void *bytes, size_t num_bytes)
{
	for (size_t i = 0; i < num_bytes; i++) ((uint8_t *)bytes)[i] = g_mask_key[i % 4];
}

/* ------------------------------------------------------------------ the connection under test */

enum { RK_NONE, RK_EXACT, RK_UNTIL };

static struct {
	bool alive;            /* br->close has not been called */
	bool real;             /* real buffered_socket underneath */
	struct http_connection *connection;
	struct websocket *ws;
	/* scripted input */
	uint8_t *in;
	size_t inlen, inpos;
	bool eof;
	bool wfail;
	/* stub reader */
	int rkind;
	size_t rnum;
	const char *delim;
	read_handler handler;
	void *hctx;
	error_handler eh;
	void *ehctx;
	size_t bufsize;
	unsigned align;
	/* real reader */
	struct buffered_socket *bs;
	size_t *chunks;
	size_t nchunks, chunkpos;
	/* handshake observation */
	bool http_mode;
	http_parser shadow;
	http_parser_settings shadow_settings;
	bool shadow_done;
	read_handler tramp_handler;
	void *tramp_ctx;
} G;

static struct websocket full_ws;

/* --- callbacks (wrappers that log, then run what the daemon installed) --- */

static void (*o_on_error)(struct websocket *s);
static enum websocket_callback_return (*o_text_message)(struct websocket *s, char *msg, size_t length);
static enum websocket_callback_return (*o_close)(struct websocket *s, enum ws_status_code status_code);
static enum websocket_callback_return (*o_pong)(struct websocket *s, uint8_t *msg, size_t length);
static enum websocket_callback_return (*o_ping)(struct websocket *s, uint8_t *msg, size_t length);
static enum websocket_callback_return (*o_binary_message)(struct websocket *s, uint8_t *msg, size_t length);
static enum websocket_callback_return (*o_text_frame)(struct websocket *s, char *msg, size_t length, bool last);
static enum websocket_callback_return (*o_binary_frame)(struct websocket *s, uint8_t *msg, size_t length, bool last);

static void w_on_error(struct websocket *s)
{
	ev("ER");
	if (o_on_error) o_on_error(s);
}
static enum websocket_callback_return w_text_message(struct websocket *s, char *msg, size_t length)
{
	ev_hex("TM", msg, length);
	return o_text_message ? o_text_message(s, msg, length) : (enum websocket_callback_return)g_cbret;
}
static enum websocket_callback_return w_binary_message(struct websocket *s, uint8_t *msg, size_t length)
{
	ev_hex("BM", msg, length);
	return o_binary_message ? o_binary_message(s, msg, length) : (enum websocket_callback_return)g_cbret;
}
static enum websocket_callback_return w_text_frame(struct websocket *s, char *msg, size_t length, bool last)
{
	ev_hex("TF", msg, length);
	ev_raw(last ? ":1" : ":0", 2);
	return o_text_frame ? o_text_frame(s, msg, length, last) : (enum websocket_callback_return)g_cbret;
}
static enum websocket_callback_return w_binary_frame(struct websocket *s, uint8_t *msg, size_t length, bool last)
{
	ev_hex("BF", msg, length);
	ev_raw(last ? ":1" : ":0", 2);
	return o_binary_frame ? o_binary_frame(s, msg, length, last) : (enum websocket_callback_return)g_cbret;
}
static enum websocket_callback_return w_ping(struct websocket *s, uint8_t *msg, size_t length)
{
	ev_hex("PI", msg, length);
	return o_ping ? o_ping(s, msg, length) : (enum websocket_callback_return)g_cbret;
}
static enum websocket_callback_return w_pong(struct websocket *s, uint8_t *msg, size_t length)
{
	ev_hex("PO", msg, length);
	return o_pong ? o_pong(s, msg, length) : (enum websocket_callback_return)g_cbret;
}
static enum websocket_callback_return w_close(struct websocket *s, enum ws_status_code code)
{
	ev("CR:%u", (unsigned)code);
	return o_close ? o_close(s, code) : (enum websocket_callback_return)g_cbret;
}

/* wrap exactly the callbacks that are set; the unset ones stay NULL */
static void wrap_callbacks(struct websocket *ws)
{
	o_on_error = ws->on_error; ws->on_error = w_on_error;
#define WRAP(field, o, w) do { o = ws->field; if (ws->field != NULL) ws->field = w; } while (0)
	WRAP(text_message_received, o_text_message, w_text_message);
	WRAP(binary_message_received, o_binary_message, w_binary_message);
	WRAP(text_frame_received, o_text_frame, w_text_frame);
	WRAP(binary_frame_received, o_binary_frame, w_binary_frame);
	WRAP(ping_received, o_ping, w_ping);
	WRAP(pong_received, o_pong, w_pong);
	WRAP(close_received, o_close, w_close);
#undef WRAP
}

static void print_cbset(const struct websocket *ws)
{
	ev("cb:%d%d%d%d%d%d%d", ws->text_message_received != NULL, ws->text_frame_received != NULL,
	   ws->binary_message_received != NULL, ws->binary_frame_received != NULL, ws->ping_received != NULL,
	   ws->pong_received != NULL, ws->close_received != NULL);
}

/* ------------------------------------------------------------------ writev recording */

static int record_write(const void *prefix, size_t plen, struct socket_io_vector *io_vec, unsigned int count)
{
	size_t total = plen;
	for (unsigned int i = 0; i < count; i++) total += io_vec[i].iov_len;
	uint8_t *tmp = malloc(total + 1);
	size_t off = 0;
	if (plen) {
		memcpy(tmp, prefix, plen);
		off = plen;
	}
	for (unsigned int i = 0; i < count; i++) {
		if (io_vec[i].iov_len) memcpy(tmp + off, io_vec[i].iov_base, io_vec[i].iov_len);
		off += io_vec[i].iov_len;
	}
	ev_hex(G.wfail ? "WF" : "W", tmp, total);
	free(tmp);
	return (int)total;
}

/* ------------------------------------------------------------------ stub reader */

static int stub_writev(void *this_ptr, struct socket_io_vector *io_vec, unsigned int count)
{
	(void)this_ptr;
	int total = record_write(NULL, 0, io_vec, count);
	return G.wfail ? -1 : total;
}

static int stub_close(void *this_ptr)
{
	(void)this_ptr;
	ev("CL");
	G.alive = false;
	return 0;
}

static void stub_set_error_handler(void *this_ptr, error_handler handler, void *error_context)
{
	(void)this_ptr;
	G.eh = handler;
	G.ehctx = error_context;
}

static int stub_read_exactly(void *this_ptr, size_t num, read_handler handler, void *handler_context)
{
	(void)this_ptr;
	G.rkind = RK_EXACT;
	G.rnum = num;
	G.handler = handler;
	G.hctx = handler_context;
	return 0;
}

static int stub_read_until(void *this_ptr, const char *delim, read_handler handler, void *handler_context)
{
	(void)this_ptr;
	G.rkind = RK_UNTIL;
	G.delim = delim;
	G.handler = handler;
	G.hctx = handler_context;
	return 0;
}

/* deliver as buffered_socket's go_reading would: until the data runs out, the peer closed, the
 * request cannot fit the read buffer (error handler), or a callback closed the connection */
static void stub_pump(void)
{
	while (G.alive && G.rkind != RK_NONE) {
		size_t avail = G.inlen - G.inpos;
		size_t n = 0;
		bool have = false;
		if (G.rkind == RK_EXACT) {
			if (G.rnum > G.bufsize) {
				G.eh(G.ehctx); /* BS_IO_TOOMUCHDATA -> error_function */
				return;
			}
			if (avail >= G.rnum) {
				n = G.rnum;
				have = true;
			}
		} else {
			size_t dl = strlen(G.delim);
			size_t lim = avail < G.bufsize ? avail : G.bufsize;
			for (size_t i = 0; i + dl <= lim; i++) {
				if (memcmp(G.in + G.inpos + i, G.delim, dl) == 0) {
					n = i + dl;
					have = true;
					break;
				}
			}
			if (!have && avail >= G.bufsize) {
				if (G.http_mode) ev("toolong");
				G.eh(G.ehctx);
				return;
			}
		}
		if (!have) {
			if (!G.eof) return; /* would block */
			n = 0;
		}
		uint8_t *blk = malloc(G.align + n + (n == 0));
		uint8_t *p = blk + G.align;
		if (n) memcpy(p, G.in + G.inpos, n);
		G.inpos += n;
		enum bs_read_callback_return r = G.handler(G.hctx, p, n);
		free(blk);
		if (n == 0 || r == BS_CLOSED) {
			G.rkind = RK_NONE;
			return;
		}
	}
}

/* ------------------------------------------------------------------ real reader: socket layer stubs */

static int g_sock_errno;

cjet_ssize_t socket_read(socket_type sock, void *buf, size_t count)
{
	(void)sock;
	size_t avail = G.inlen - G.inpos;
	if (avail == 0) {
		if (G.eof) return 0;
		g_sock_errno = EAGAIN;
		return -1;
	}
	size_t n = avail;
	if (G.chunkpos < G.nchunks) {
		if (G.chunks[G.chunkpos] < n) n = G.chunks[G.chunkpos];
		G.chunkpos++;
	}
	if (n > count) n = count;
	memcpy(buf, G.in + G.inpos, n);
	G.inpos += n;
	return (cjet_ssize_t)n;
}

cjet_ssize_t socket_writev_with_prefix(socket_type sock, void *buf, size_t len, struct socket_io_vector *io_vec, unsigned int count)
{
	(void)sock;
	int total = record_write(buf, len, io_vec, count);
	if (G.wfail) {
		g_sock_errno = EPIPE;
		return -1;
	}
	return total;
}

int socket_close(socket_type sock)
{
	(void)sock;
	ev("CL");
	G.alive = false;
	return 0;
}

enum cjet_system_error get_socket_error(void)
{
	return (enum cjet_system_error)g_sock_errno;
}

const char *get_socket_error_msg(enum cjet_system_error err)
{
	(void)err;
	return "scripted";
}

static enum eventloop_return fake_add(const void *this_ptr, const struct io_event *e)
{
	(void)this_ptr; (void)e;
	return EL_CONTINUE_LOOP;
}
static void fake_remove(void *this_ptr, const struct io_event *e)
{
	(void)this_ptr; (void)e;
}
static struct eventloop fake_loop = {.this_ptr = NULL, .init = NULL, .destroy = NULL, .run = NULL, .add = fake_add, .remove = fake_remove};

static void pump(void)
{
	if (!G.alive) return;
	if (G.real) {
		/* one readable event; the real reader loops until it would block */
		G.bs->ev.read_function(&G.bs->ev);
	} else {
		stub_pump();
	}
}

/* ------------------------------------------------------------------ handshake observation */

static int sh_skip(http_parser *p) { (void)p; return 1; }

static enum bs_read_callback_return tramp(void *ctx, uint8_t *buf, size_t len)
{
	(void)ctx;
	if (G.http_mode && len > 0) {
		ev("ln");
		if (!G.shadow_done) {
			size_t np = http_parser_execute(&G.shadow, &G.shadow_settings, (const char *)buf, len);
			if (np != len && !G.shadow.upgrade) {
				ev("perr");
				G.shadow_done = true;
			} else if (G.shadow.upgrade) {
				G.shadow_done = true;
			}
		}
	}
	return G.tramp_handler(G.tramp_ctx, buf, len);
}

static int (*under_read_until)(void *this_ptr, const char *delim, read_handler handler, void *handler_context);
static int (*under_read_exactly)(void *this_ptr, size_t num, read_handler handler, void *handler_context);

static int t_read_until(void *this_ptr, const char *delim, read_handler handler, void *handler_context)
{
	G.tramp_handler = handler;
	G.tramp_ctx = handler_context;
	return under_read_until(this_ptr, delim, tramp, NULL);
}

static int t_read_exactly(void *this_ptr, size_t num, read_handler handler, void *handler_context)
{
	if (handler == ws_get_header && G.http_mode) {
		G.http_mode = false; /* upgraded: from here on these are frames */
	}
	G.tramp_handler = handler;
	G.tramp_ctx = handler_context;
	return under_read_exactly(this_ptr, num, tramp, NULL);
}

static int (*o_on_url)(http_parser *parser, const char *at, size_t length);

static int w_on_url(http_parser *parser, const char *at, size_t length)
{
	struct http_parser_url u;
	http_parser_url_init(&u);
	int rc = http_parser_parse_url(at, length, parser->method == HTTP_CONNECT, &u);
	ev("url:%d:", rc != 0);
	if (rc == 0 && (u.field_set & (1 << UF_PATH))) {
		ev_hexbytes(at + u.field_data[UF_PATH].off, u.field_data[UF_PATH].len);
	} else {
		ev_raw("none", 4);
	}
	return o_on_url(parser, at, length);
}

static int w_create(struct http_connection *connection)
{
	int ret = alloc_websocket_peer(connection);
	struct websocket *ws = connection->parser.data;
	G.ws = ws;
	wrap_callbacks(ws);
	return ret;
}

static int w_hf(http_parser *p, const char *at, size_t length)
{
	ev_hex("hf", at, length);
	return websocket_upgrade_on_header_field(p, at, length);
}
static int w_hv(http_parser *p, const char *at, size_t length)
{
	ev_hex("hv", at, length);
	return websocket_upgrade_on_header_value(p, at, length);
}
static int w_hc(http_parser *p)
{
	ev("hc:%u:%u:%u:%u", (unsigned)p->method, (unsigned)p->http_major, (unsigned)p->http_minor, (unsigned)p->upgrade);
	return websocket_upgrade_on_headers_complete(p);
}

static char g_target[256] = "/api/jet/";
static struct url_handler g_handler[1];
static struct http_server g_server;

/* ------------------------------------------------------------------ connection set-up */

static void drop_conn(void)
{
	/* whatever the real code did not release is abandoned (leak detection is off; the
	 * lifecycle is C05/C07/C13's subject) */
	free(G.in);
	free(G.chunks);
	memset(&G, 0, sizeof(G));
}

static void full_error_handler(void *ctx)
{
	struct websocket *ws = ctx;
	websocket_close(ws, WS_CLOSE_GOING_AWAY);
	ev("FP");
}

static void full_on_error(struct websocket *s)
{
	(void)s;
}

/* reader: "stub" | "real"; returns false on setup failure */
static bool base_conn(const char *reader, size_t bufsize)
{
	drop_conn();
	G.alive = true;
	G.real = strcmp(reader, "real") == 0;
	G.bufsize = bufsize ? bufsize : CONFIG_MAX_MESSAGE_SIZE;
	g_handler[0].request_target = g_target;
	g_handler[0].create = w_create;
	g_handler[0].on_header_field = w_hf;
	g_handler[0].on_header_value = w_hv;
	g_handler[0].on_headers_complete = w_hc;
	g_handler[0].on_body = NULL;
	g_handler[0].on_message_complete = NULL;
	g_server.handler = g_handler;
	g_server.num_handlers = 1;
	g_server.ev.loop = &fake_loop;

	struct http_connection *connection = alloc_http_connection();
	if (connection == NULL) return false;
	G.connection = connection;
	struct buffered_reader br;
	memset(&br, 0, sizeof(br));
	if (G.real) {
		G.bs = buffered_socket_acquire();
		buffered_socket_init(G.bs, 7, &fake_loop, free_connection, connection);
		br.this_ptr = G.bs;
		br.close = buffered_socket_close;
		under_read_exactly = buffered_socket_read_exactly;
		under_read_until = buffered_socket_read_until;
		br.set_error_handler = buffered_socket_set_error;
		br.writev = buffered_socket_writev;
	} else {
		G.eh = free_connection;
		G.ehctx = connection;
		br.this_ptr = &G;
		br.close = stub_close;
		under_read_exactly = stub_read_exactly;
		under_read_until = stub_read_until;
		br.set_error_handler = stub_set_error_handler;
		br.writev = stub_writev;
	}
	br.read_exactly = t_read_exactly;
	br.read_until = t_read_until;
	http_parser_init(&G.shadow, HTTP_REQUEST);
	http_parser_settings_init(&G.shadow_settings);
	G.shadow_settings.on_headers_complete = sh_skip;
	G.shadow_done = false;
	G.http_mode = true;
	init_http_connection(connection, &g_server, &br, false);
	o_on_url = connection->parser_settings.on_url;
	connection->parser_settings.on_url = w_on_url;
	return true;
}

/* conn <server|client> <daemon|full> <stub|real> [bufsize]: a websocket in the upgraded state */
static void op_conn(const char *role, const char *cbset, const char *reader, size_t bufsize)
{
	bool is_server = strcmp(role, "server") == 0;
	if (!base_conn(reader, bufsize)) {
		ev("setup-failed");
		return;
	}
	struct buffered_reader *br = &G.connection->br;
	G.http_mode = false;
	if (strcmp(cbset, "daemon") == 0) {
		/* what on_url does for the configured target */
		w_create(G.connection);
	} else {
		websocket_init(&full_ws, G.connection, is_server, full_on_error, "jet");
		full_ws.text_message_received = w_text_message;
		full_ws.text_frame_received = w_text_frame;
		full_ws.binary_message_received = w_binary_message;
		full_ws.binary_frame_received = w_binary_frame;
		full_ws.ping_received = w_ping;
		full_ws.pong_received = w_pong;
		full_ws.close_received = w_close;
		G.ws = &full_ws;
		o_text_message = NULL; o_text_frame = NULL; o_binary_message = NULL; o_binary_frame = NULL;
		o_ping = NULL; o_pong = NULL; o_close = NULL;
		o_on_error = full_ws.on_error;
		full_ws.on_error = w_on_error;
		br->set_error_handler(br->this_ptr, full_error_handler, &full_ws);
	}
	G.ws->upgrade_complete = true;
	br->read_exactly(br->this_ptr, 1, ws_get_header, G.ws);
	print_cbset(G.ws);
}

/* ------------------------------------------------------------------ script parsing helpers */

static int hexval(int c)
{
	if (c >= '0' && c <= '9') return c - '0';
	if (c >= 'a' && c <= 'f') return c - 'a' + 10;
	if (c >= 'A' && c <= 'F') return c - 'A' + 10;
	return -1;
}

static uint8_t *unhex(const char *s, size_t *n)
{
	if (strcmp(s, "-") == 0) {
		*n = 0;
		return calloc(1, 1);
	}
	size_t l = strlen(s) / 2;
	uint8_t *b = malloc(l + 1);
	for (size_t i = 0; i < l; i++) b[i] = (uint8_t)(hexval(s[2 * i]) * 16 + hexval(s[2 * i + 1]));
	*n = l;
	return b;
}

static void append_input(const uint8_t *b, size_t n)
{
	G.in = realloc(G.in, G.inlen + n + 1);
	memcpy(G.in + G.inlen, b, n);
	G.inlen += n;
}

static void parse_opts(char **tok, int ntok, int from)
{
	G.align = 0;
	G.wfail = false;
	g_cbret = WS_OK;
	free(G.chunks);
	G.chunks = NULL;
	G.nchunks = G.chunkpos = 0;
	memset(g_mask_key, 0, sizeof(g_mask_key));
	for (int i = from; i < ntok; i++) {
		if (strncmp(tok[i], "key=", 4) == 0) {
			size_t kn;
			uint8_t *k = unhex(tok[i] + 4, &kn);
			memcpy(g_mask_key, k, kn < 4 ? kn : 4);
			free(k);
		} else if (strncmp(tok[i], "align=", 6) == 0) {
			G.align = (unsigned)atoi(tok[i] + 6) % 16;
		} else if (strcmp(tok[i], "cb=err") == 0) {
			g_cbret = WS_ERROR;
		} else if (strcmp(tok[i], "cb=closed") == 0) {
			g_cbret = WS_CLOSED;
		} else if (strcmp(tok[i], "wfail") == 0) {
			G.wfail = true;
		} else if (strncmp(tok[i], "chunks=", 7) == 0) {
			char *s = tok[i] + 7;
			size_t cap = strlen(s) + 1;
			G.chunks = calloc(cap, sizeof(size_t));
			while (*s) {
				G.chunks[G.nchunks++] = strtoul(s, &s, 10);
				if (*s == ',') s++;
			}
		}
	}
}

/* ------------------------------------------------------------------ main */

int main(void)
{
	char *line = NULL;
	size_t cap = 0;
	ssize_t got;
	setvbuf(stdout, NULL, _IOFBF, 1 << 16);
	while ((got = getline(&line, &cap, stdin)) > 0) {
		char *tok[16];
		int ntok = 0;
		for (char *t = strtok(line, " \t\r\n"); t && ntok < 16; t = strtok(NULL, " \t\r\n")) tok[ntok++] = t;
		if (ntok == 0 || tok[0][0] == '#') {
			puts("-");
			continue;
		}
		const char *op = tok[0];
		if (strcmp(op, "conn") == 0 && ntok >= 4) {
			op_conn(tok[1], tok[2], tok[3], ntok > 4 ? strtoul(tok[4], NULL, 10) : 0);
		} else if (strcmp(op, "hconn") == 0 && ntok >= 2) {
			/* hconn <stub|real> [bufsize] [target-hex]: a fresh http connection, nothing read yet */
			if (ntok > 3) {
				size_t n;
				uint8_t *t = unhex(tok[3], &n);
				if (n >= sizeof(g_target)) n = sizeof(g_target) - 1;
				memcpy(g_target, t, n);
				g_target[n] = 0;
				free(t);
			} else {
				strcpy(g_target, "/api/jet/");
			}
			if (!base_conn(tok[1], ntok > 2 ? strtoul(tok[2], NULL, 10) : 0)) ev("setup-failed");
			else ev("ok");
		} else if ((strcmp(op, "frame") == 0 || strcmp(op, "http") == 0) && ntok >= 2) {
			if (!G.alive) {
				ev("dead");
			} else {
				size_t n;
				uint8_t *b = unhex(tok[1], &n);
				parse_opts(tok, ntok, 2);
				append_input(b, n);
				free(b);
				pump();
			}
		} else if (strcmp(op, "eof") == 0) {
			if (!G.alive) {
				ev("dead");
			} else {
				parse_opts(tok, ntok, 1);
				G.eof = true;
				pump();
			}
		} else if (strcmp(op, "send") == 0 && ntok >= 3) {
			/* send <opcode> <payloadhex> [key=<hex>] [wfail] */
			if (!G.alive) {
				ev("dead");
			} else {
				size_t n;
				uint8_t *b = unhex(tok[2], &n);
				parse_opts(tok, ntok, 3);
				unsigned opc = (unsigned)strtoul(tok[1], NULL, 10);
				/* exact-size heap copy: the code masks client payloads in place */
				uint8_t *p = malloc(n + (n == 0));
				memcpy(p, b, n);
				int r = send_frame(G.ws, p, n, opc);
				ev("r:%d", r < 0 ? -1 : 0);
				free(p);
				free(b);
			}
		} else if (strcmp(op, "close") == 0 && ntok >= 2) {
			if (!G.alive) {
				ev("dead");
			} else {
				parse_opts(tok, ntok, 2);
				websocket_close(G.ws, (enum ws_status_code)strtoul(tok[1], NULL, 10));
			}
		} else if (strcmp(op, "unmask") == 0 && ntok >= 4) {
			/* unmask <align> <keyhex> <payloadhex>: the static unmask_payload on an exact heap block */
			unsigned a = (unsigned)atoi(tok[1]) % 16;
			size_t kn, n;
			uint8_t *k = unhex(tok[2], &kn);
			uint8_t *b = unhex(tok[3], &n);
			uint8_t key[4] = {0, 0, 0, 0};
			memcpy(key, k, kn < 4 ? kn : 4);
			uint8_t *blk = malloc(a + n + (n == 0));
			memcpy(blk + a, b, n);
			unmask_payload(blk + a, n, key);
			ev_hex("U", blk + a, n);
			free(blk);
			free(b);
			free(k);
		} else if (strcmp(op, "status") == 0 && ntok >= 2) {
			ev("S:%d", (int)is_status_code_invalid((uint16_t)strtoul(tok[1], NULL, 10)));
		} else if (strcmp(op, "statusall") == 0) {
			/* the complete table as run-length intervals of the invalid codes */
			int start = -1;
			for (unsigned c = 0; c <= 65536; c++) {
				bool inv = (c <= 65535) && is_status_code_invalid((uint16_t)c);
				if (inv && start < 0) start = (int)c;
				if (!inv && start >= 0) {
					ev("I:%d-%u", start, c - 1);
					start = -1;
				}
			}
		} else if (strcmp(op, "proto") == 0 && ntok >= 2) {
			size_t n;
			uint8_t *b = unhex(tok[1], &n);
			struct websocket w;
			memset(&w, 0, sizeof(w));
			w.sub_protocol.name = "jet";
			uint8_t *blk = malloc(n + (n == 0));
			memcpy(blk, b, n);
			check_websocket_protocol(&w, (const char *)blk, n);
			ev("P:%d", (int)w.sub_protocol.found);
			free(blk);
			free(b);
		} else if (strcmp(op, "b64") == 0 && ntok >= 2) {
			size_t n;
			uint8_t *b = unhex(tok[1], &n);
			size_t ol = b64_encoded_buffer_length(n);
			uint8_t *o = malloc(ol + 1);
			b64_encode_buffer(b, n, o);
			ev_hex("B", o, ol);
			free(o);
			free(b);
		} else if (strcmp(op, "sha1") == 0 && ntok >= 2) {
			size_t n;
			uint8_t *b = unhex(tok[1], &n);
			struct SHA1Context c;
			uint8_t d[SHA1HashSize];
			SHA1Reset(&c);
			SHA1Input(&c, b, (unsigned)n);
			SHA1Result(&c, d);
			ev_hex("H", d, sizeof(d));
			free(b);
		} else if (strcmp(op, "accept") == 0 && ntok >= 2) {
			/* what send_upgrade_response computes for a 24 byte key header */
			size_t n;
			uint8_t *b = unhex(tok[1], &n);
			uint8_t keybuf[SEC_WEB_SOCKET_KEY_LENGTH + SEC_WEB_SOCKET_GUID_LENGTH];
			memset(keybuf, 0, sizeof(keybuf));
			int r = save_websocket_key(keybuf, (const char *)b, n);
			struct SHA1Context c;
			uint8_t d[SHA1HashSize];
			uint8_t acc[28];
			SHA1Reset(&c);
			SHA1Input(&c, keybuf, sizeof(keybuf));
			SHA1Result(&c, d);
			b64_encode_buffer(d, SHA1HashSize, acc);
			ev("K:%d:", r);
			ev_hexbytes(acc, sizeof(acc));
			free(b);
		} else if (strcmp(op, "utf8") == 0 && ntok >= 2) {
			/* the verdict of the real validator, as the close-frame path calls it */
			size_t n;
			uint8_t *b = unhex(tok[1], &n);
			uint8_t *blk = malloc(n + (n == 0));
			memcpy(blk, b, n);
			struct cjet_utf8_checker c;
			cjet_init_checker(&c);
			ev("V:%d", (int)cjet_is_byte_sequence_valid(&c, blk, n, true));
			free(blk);
			free(b);
		} else if (strcmp(op, "info") == 0) {
			ev("word:%u bufsize:%u keylen:%u guidlen:%u", (unsigned)sizeof(uint_fast32_t), (unsigned)CONFIG_MAX_MESSAGE_SIZE,
			   (unsigned)SEC_WEB_SOCKET_KEY_LENGTH, (unsigned)SEC_WEB_SOCKET_GUID_LENGTH);
		} else {
			ev("bad-op");
		}
		flush_line();
	}
	return 0;
}
