/*
 * C20 component harness: the REAL src/posix/auth_file.c (included, so that its statics are
 * reachable) + authenticate.c, response.c, groups.c, jet_string.c, alloc.c, cJSON and the
 * real crypt(3) of libcrypt, driven by a line script on stdin.
 *
 * Every file-system call the code under test makes while a `passwd` request is handled is
 * intercepted at link level (-Wl,--wrap=...): it is logged, its outcome is taken from the
 * script (ok / short write / error) and after it the credential file is SNAPSHOT from the
 * real file system; every snapshot is handed to a fresh load_passwd_data() in a forked child,
 * which reports whether it loads and the abstract image of what it loaded.
 *
 * Script (one op per line, words separated by blanks, byte strings in hex, "-" = empty):
 *   mark <n>                               echoed (lets the check cut the output into per-op segments)
 *   load <filehex>                         (re)create the credential file with this content and load it
 *   reload                                 free_passwd_data(); load_passwd_data() of the file as it is now
 *   peer <i>                               peer i (0..7) becomes a fresh, unauthenticated peer
 *   auth <i> <userhex> <passhex>           handle_authentication() on peer i
 *   cred <userhex> <passhex>               credentials_ok() verdict only
 *   passwd <i> <targethex> <newhex> <rndhex> [outcomes]
 *                                          handle_change_password() on peer i; rnd = the bytes that
 *                                          cjet_get_random_bytes() hands out (then zeros); outcomes =
 *                                          comma list consumed one per intercepted call:
 *                                          ok | err | s<k> (write accepts k bytes) | z (write returns 0)
 * Output: see the individual printf()s; all lines of one op start with the op name or with
 * `fs`/`snap`/`crypt`/`db`.
 */
#define _GNU_SOURCE
#include <errno.h>
#include <fcntl.h>
#include <stdarg.h>
#include <stdint.h>
#include <stdio.h>
#include <stdlib.h>
#include <string.h>
#include <sys/stat.h>
#include <sys/types.h>
#include <sys/wait.h>
#include <unistd.h>

/* ------------------------------------------------------------------ interception state */

static int armed = 0;            /* intercept only while the code under test handles a passwd request */
static int call_no = 0;
static char main_path[4096];     /* realpath of the credential file */
static char scratch_path[4096];  /* where snapshots are copied for the child loader */

#define MAX_OUT 256
static char outcomes[MAX_OUT][16];
static int n_outcomes = 0, next_outcome = 0;
#define CALL_LIMIT 40            /* after that many intercepted calls every write fails (legacy zero-write loop) */

/* file identities: 0 = the inode that was at main_path when the op started, 1.. = others */
#define MAX_FD 1024
static int fd_file[MAX_FD];      /* fd -> file id, -1 unknown */
static int file_dirty[64];
static char file_name[64][256];  /* current path class of the file id: "main", "aux:<suffix>", "gone" */
static int n_files = 0;
static int main_file = 0;        /* file id currently reachable at main_path */

static uint8_t rnd_buf[256];
static size_t rnd_len = 0, rnd_pos = 0;

static void *xrealloc(void *p, size_t n) { void *q = realloc(p, n ? n : 1); if (!q) abort(); return q; }

static void hexprint(const void *buf, size_t len)
{
	const unsigned char *b = buf;
	if (len == 0) { fputs("-", stdout); return; }
	for (size_t i = 0; i < len; i++) printf("%02x", b[i]);
}

static int unhex(const char *s, unsigned char **out, size_t *len)
{
	size_t n = strlen(s);
	if (strcmp(s, "-") == 0) { *out = xrealloc(NULL, 1); (*out)[0] = 0; *len = 0; return 0; }
	if (n % 2) return -1;
	*out = xrealloc(NULL, n / 2 + 1);
	for (size_t i = 0; i < n / 2; i++) {
		unsigned int v;
		if (sscanf(s + 2 * i, "%2x", &v) != 1) return -1;
		(*out)[i] = (unsigned char)v;
	}
	(*out)[n / 2] = 0;
	*len = n / 2;
	return 0;
}

/* ------------------------------------------------------------------ stubs the real code needs */

void log_err(const char *format, ...) { (void)format; }
void log_warn(const char *format, ...) { (void)format; }
void log_info(const char *format, ...) { (void)format; }
struct peer;
void log_peer_err(const struct peer *p, const char *fmt, ...) { (void)p; (void)fmt; }

void cjet_get_random_bytes(void *bytes, size_t num_bytes)
{
	uint8_t *b = bytes;
	for (size_t i = 0; i < num_bytes; i++) {
		b[i] = (rnd_pos < rnd_len) ? rnd_buf[rnd_pos] : 0;
		rnd_pos++;
	}
}

/* ------------------------------------------------------------------ the code under test */

#include "posix/auth_file.c"
#include "list.h"
#include "peer.h"

/* crypt is logged so that the check can tabulate the model's `crypt` parameter from the real one */
char *__real_crypt(const char *key, const char *setting);
char *__wrap_crypt(const char *key, const char *setting)
{
	char *r = __real_crypt(key, setting);
	printf("crypt ");
	hexprint(key, strlen(key));
	printf(" ");
	hexprint(setting, strlen(setting));
	printf(" ");
	if (r == NULL) printf("NULL"); else { printf("S"); hexprint(r, strlen(r)); }
	printf("\n");
	return r;
}

/* ------------------------------------------------------------------ real fs access for the harness itself */

int __real_open(const char *path, int flags, ...);
ssize_t __real_write(int fd, const void *buf, size_t n);
int __real_close(int fd);
int __real_ftruncate(int fd, off_t len);
off_t __real_lseek(int fd, off_t off, int whence);
int __real_fsync(int fd);
int __real_fdatasync(int fd);
int __real_rename(const char *a, const char *b);
int __real_unlink(const char *p);

static unsigned char *slurp(const char *path, size_t *len)
{
	int fd = __real_open(path, O_RDONLY);
	if (fd < 0) return NULL;
	size_t cap = 4096, n = 0;
	unsigned char *b = xrealloc(NULL, cap);
	for (;;) {
		if (n == cap) { cap *= 2; b = xrealloc(b, cap); }
		ssize_t r = read(fd, b + n, cap - n);
		if (r <= 0) break;
		n += (size_t)r;
	}
	__real_close(fd);
	*len = n;
	return b;
}

static int spit(const char *path, const void *buf, size_t len)
{
	int fd = __real_open(path, O_WRONLY | O_CREAT | O_TRUNC, 0600);
	if (fd < 0) return -1;
	size_t off = 0;
	while (off < len) {
		ssize_t r = __real_write(fd, (const char *)buf + off, len - off);
		if (r <= 0) { __real_close(fd); return -1; }
		off += (size_t)r;
	}
	__real_close(fd);
	return 0;
}

/* ------------------------------------------------------------------ abstract image of the loaded database */

/* one word per user, in file order:  u:<namehex>:<pw>:<ro>:<adm>:<auth>
 *   pw   = N (no "password" member) | X (not a string) | S<hex>
 *   auth = N | A<hex of cJSON_PrintUnformatted(auth)>
 * obtained through the very accessors the code uses (cJSON_GetObjectItem, is_readonly, is_admin). */
static void print_image(FILE *f)
{
	if (user_data == NULL || users == NULL) { fprintf(f, "db none\n"); return; }
	fprintf(f, "db");
	int cnt = 0;
	for (const cJSON *u = users->child; u != NULL; u = u->next) {
		cnt++;
		fprintf(f, " u:");
		const char *nm = u->string ? u->string : "";
		if (*nm == 0) fputs("-", f);
		for (const char *c = nm; *c; c++) fprintf(f, "%02x", (unsigned char)*c);
		cJSON *pw = cJSON_GetObjectItem(u, "password");
		if (pw == NULL) fprintf(f, ":N");
		else if (pw->type != cJSON_String) fprintf(f, ":X");
		else { fprintf(f, ":S"); for (const char *c = pw->valuestring; *c; c++) fprintf(f, "%02x", (unsigned char)*c); }
		fprintf(f, ":%d", is_readonly(u) ? 1 : 0);
		/* is_admin() looks the user up by name again (first case-insensitive match); the image
		 * records the flag of THIS entry, read the same way */
		cJSON *adm = cJSON_GetObjectItem(u, "admin");
		fprintf(f, ":%d", (adm != NULL && adm->type == cJSON_True) ? 1 : 0);
		cJSON *auth = cJSON_GetObjectItem(u, "auth");
		if (auth == NULL) fprintf(f, ":N");
		else {
			char *t = cJSON_PrintUnformatted(auth);
			fprintf(f, ":A");
			for (const char *c = t ? t : ""; *c; c++) fprintf(f, "%02x", (unsigned char)*c);
			if (t) cJSON_free(t);
		}
	}
	if (cnt == 0) fprintf(f, " empty");
	fprintf(f, "\n");
}

/* ------------------------------------------------------------------ loadable verdict of a snapshot */

struct verdict { unsigned char *content; size_t len; int loadable; char *image; };
static struct verdict *cache = NULL;
static size_t n_cache = 0;

/* fresh load of `content` in a forked child (the loader keeps static state and may crash on
 * garbage): returns 1/0 and the image line the child printed */
static int loadable(const unsigned char *content, size_t len, char **image)
{
	for (size_t i = 0; i < n_cache; i++) {
		if (cache[i].len == len && memcmp(cache[i].content, content, len) == 0) {
			*image = cache[i].image;
			return cache[i].loadable;
		}
	}
	int verdict = 0;
	char *img = NULL;
	fflush(stdout);
	if (spit(scratch_path, content, len) == 0) {
		int pfd[2];
		if (pipe(pfd) != 0) abort();
		pid_t pid = fork();
		if (pid == 0) {
			armed = 0;
			__real_close(pfd[0]);
			/* the child's own copy of the static state is simply abandoned */
			user_data = NULL; users = NULL; password_file = -1;
			int r = load_passwd_data(scratch_path);
			if (r == 0 && user_data != NULL) {
				FILE *f = fdopen(pfd[1], "w");
				print_image(f);
				fflush(f);
				_exit(0);
			}
			_exit(1);
		}
		__real_close(pfd[1]);
		size_t cap = 1024, n = 0;
		img = xrealloc(NULL, cap);
		for (;;) {
			if (n + 1 >= cap) { cap *= 2; img = xrealloc(img, cap); }
			ssize_t r = read(pfd[0], img + n, cap - 1 - n);
			if (r <= 0) break;
			n += (size_t)r;
		}
		img[n] = 0;
		while (n > 0 && img[n - 1] == '\n') img[--n] = 0;
		__real_close(pfd[0]);
		int st = 0;
		waitpid(pid, &st, 0);
		verdict = (WIFEXITED(st) && WEXITSTATUS(st) == 0) ? 1 : 0;
		if (!verdict) { free(img); img = NULL; }
	}
	cache = xrealloc(cache, (n_cache + 1) * sizeof(*cache));
	cache[n_cache].content = xrealloc(NULL, len);
	memcpy(cache[n_cache].content, content, len);
	cache[n_cache].len = len;
	cache[n_cache].loadable = verdict;
	cache[n_cache].image = img;
	n_cache++;
	*image = img;
	return verdict;
}

/* djb2 of the image line: lets the observation stay short; the check compares images by this */
static unsigned long imghash(const char *s)
{
	unsigned long h = 5381;
	for (; s && *s; s++) h = ((h << 5) + h + (unsigned char)*s) & 0xffffffffUL;
	return h;
}

static void snapshot(void)
{
	size_t len = 0;
	unsigned char *c = slurp(main_path, &len);
	printf("snap main=");
	if (c == NULL) {
		printf("MISSING loadable=0 img=- synced=0");
	} else {
		hexprint(c, len);
		char *img = NULL;
		int ok = loadable(c, len, &img);
		printf(" loadable=%d img=", ok);
		if (ok) printf("%08lx", imghash(img)); else printf("-");
		printf(" synced=%d", file_dirty[main_file] ? 0 : 1);
		free(c);
	}
	/* other files the code created next to it */
	for (int i = 0; i < n_files; i++) {
		if (i != main_file && strncmp(file_name[i], "aux", 3) == 0) {
			char p[4400];
			snprintf(p, sizeof(p), "%s%s", main_path, file_name[i] + 4);
			size_t l2 = 0;
			unsigned char *c2 = slurp(p, &l2);
			if (c2 != NULL) {
				printf(" %s=", file_name[i]);
				hexprint(c2, l2);
				free(c2);
			}
		}
	}
	printf("\n");
}

/* ------------------------------------------------------------------ outcome script */

static const char *take_outcome(void)
{
	call_no++;
	if (next_outcome < n_outcomes) return outcomes[next_outcome++];
	return "ok";
}

/* path class relative to the credential file: "main" or "aux:<suffix>" (a path that extends the
 * credential file's path) or "other:<path>" */
static void classify(const char *path, char *out, size_t outlen)
{
	char *rp = realpath(path, NULL);
	const char *p = rp ? rp : path;
	size_t ml = strlen(main_path);
	if (strcmp(p, main_path) == 0) snprintf(out, outlen, "main");
	else if (strncmp(p, main_path, ml) == 0) snprintf(out, outlen, "aux:%s", p + ml);
	else {
		/* not yet existing file: realpath fails; compare textually and via its directory */
		if (rp == NULL && strncmp(path, main_path, ml) == 0) snprintf(out, outlen, "aux:%s", path + ml);
		else snprintf(out, outlen, "other:%s", p);
	}
	free(rp);
}

static int file_of_fd(int fd)
{
	if (fd >= 0 && fd < MAX_FD && fd_file[fd] >= 0) return fd_file[fd];
	return -1;
}

static const char *fdname(int fd)
{
	int f = file_of_fd(fd);
	if (f < 0) return "fd?";
	return file_name[f];
}

static int file_by_name(const char *name)
{
	for (int i = 0; i < n_files; i++) if (strcmp(file_name[i], name) == 0) return i;
	return -1;
}

static int new_file(const char *name)
{
	if (n_files >= 64) abort();
	snprintf(file_name[n_files], sizeof(file_name[0]), "%s", name);
	file_dirty[n_files] = 0;
	return n_files++;
}

/* ------------------------------------------------------------------ the wrappers */

int __wrap_open(const char *path, int flags, ...)
{
	mode_t mode = 0;
	if (flags & O_CREAT) {
		va_list ap;
		va_start(ap, flags);
		mode = (mode_t)va_arg(ap, int);
		va_end(ap);
	}
	if (!armed) {
		int fd = __real_open(path, flags, mode);
		if (fd >= 0 && fd < MAX_FD) fd_file[fd] = -1;
		return fd;
	}
	char cls[300];
	classify(path, cls, sizeof(cls));
	const char *o = take_outcome();
	printf("fs %d open %s%s%s%s%s -> ", call_no, cls, (flags & O_CREAT) ? " creat" : "", (flags & O_TRUNC) ? " trunc" : "",
	       (flags & O_EXCL) ? " excl" : "", ((flags & O_ACCMODE) == O_RDONLY) ? " rdonly" : "");
	if (strcmp(o, "err") == 0) {
		printf("err\n");
		snapshot();
		errno = EACCES;
		return -1;
	}
	int fd = __real_open(path, flags, mode);
	if (fd < 0) {
		printf("realerr%d\n", errno);
		snapshot();
		return -1;
	}
	int f = file_by_name(cls);
	if (f < 0) f = new_file(cls);
	if (flags & O_TRUNC) file_dirty[f] = 1;
	if (fd < MAX_FD) fd_file[fd] = f;
	printf("ok\n");
	snapshot();
	return fd;
}

ssize_t __wrap_write(int fd, const void *buf, size_t n)
{
	if (!armed || file_of_fd(fd) < 0) return __real_write(fd, buf, n);
	const char *o = take_outcome();
	printf("fs %d write %s %zu ", call_no, fdname(fd), n);
	hexprint(buf, n);
	printf(" -> ");
	size_t k = n;
	if (call_no > CALL_LIMIT) o = "err";
	if (strcmp(o, "err") == 0) {
		printf("err\n");
		snapshot();
		errno = ENOSPC;
		return -1;
	}
	if (strcmp(o, "z") == 0) k = 0;
	else if (o[0] == 's') { k = (size_t)strtoul(o + 1, NULL, 10); if (k > n) k = n; }
	ssize_t r = (k > 0) ? __real_write(fd, buf, k) : 0;
	if (r > 0) file_dirty[file_of_fd(fd)] = 1;
	printf("%zd\n", r);
	snapshot();
	return r;
}

int __wrap_ftruncate(int fd, off_t len)
{
	if (!armed || file_of_fd(fd) < 0) return __real_ftruncate(fd, len);
	const char *o = take_outcome();
	printf("fs %d ftruncate %s %ld -> ", call_no, fdname(fd), (long)len);
	if (strcmp(o, "err") == 0) {
		printf("err\n");
		snapshot();
		errno = EIO;
		return -1;
	}
	int r = __real_ftruncate(fd, len);
	if (r == 0) file_dirty[file_of_fd(fd)] = 1;
	printf("%s\n", r == 0 ? "ok" : "realerr");
	snapshot();
	return r;
}

off_t __wrap_lseek(int fd, off_t off, int whence)
{
	if (!armed || file_of_fd(fd) < 0) return __real_lseek(fd, off, whence);
	const char *o = take_outcome();
	printf("fs %d lseek %s %ld %d -> ", call_no, fdname(fd), (long)off, whence);
	if (strcmp(o, "err") == 0) {
		printf("err\n");
		snapshot();
		errno = EINVAL;
		return (off_t)-1;
	}
	off_t r = __real_lseek(fd, off, whence);
	printf("%ld\n", (long)r);
	snapshot();
	return r;
}

static int sync_common(int fd, const char *what, int (*real)(int))
{
	if (!armed || file_of_fd(fd) < 0) return real(fd);
	const char *o = take_outcome();
	printf("fs %d %s %s -> ", call_no, what, fdname(fd));
	if (strcmp(o, "err") == 0) {
		printf("err\n");
		snapshot();
		errno = EIO;
		return -1;
	}
	int r = real(fd);
	if (r == 0) file_dirty[file_of_fd(fd)] = 0;
	printf("%s\n", r == 0 ? "ok" : "realerr");
	snapshot();
	return r;
}

int __wrap_fsync(int fd) { return sync_common(fd, "fsync", __real_fsync); }
int __wrap_fdatasync(int fd) { return sync_common(fd, "fsync", __real_fdatasync); }

int __wrap_close(int fd)
{
	if (!armed || file_of_fd(fd) < 0) {
		if (fd >= 0 && fd < MAX_FD) fd_file[fd] = -1;
		return __real_close(fd);
	}
	const char *o = take_outcome();
	printf("fs %d close %s -> ", call_no, fdname(fd));
	/* the descriptor is released in either case (Linux semantics); "err" reports EIO */
	int r = __real_close(fd);
	fd_file[fd] = -1;
	if (strcmp(o, "err") == 0) {
		printf("err\n");
		snapshot();
		errno = EIO;
		return -1;
	}
	printf("%s\n", r == 0 ? "ok" : "realerr");
	snapshot();
	return r;
}

int __wrap_rename(const char *from, const char *to)
{
	if (!armed) return __real_rename(from, to);
	char a[300], b[300];
	classify(from, a, sizeof(a));
	classify(to, b, sizeof(b));
	const char *o = take_outcome();
	printf("fs %d rename %s %s -> ", call_no, a, b);
	if (strcmp(o, "err") == 0) {
		printf("err\n");
		snapshot();
		errno = EACCES;
		return -1;
	}
	int r = __real_rename(from, to);
	if (r == 0) {
		int fa = file_by_name(a), fb = file_by_name(b);
		if (fb >= 0) snprintf(file_name[fb], sizeof(file_name[0]), "gone");
		if (fa < 0) fa = new_file(a);
		snprintf(file_name[fa], sizeof(file_name[0]), "%s", b);
		if (strcmp(b, "main") == 0) main_file = fa;
	}
	printf("%s\n", r == 0 ? "ok" : "realerr");
	snapshot();
	return r;
}

int __wrap_unlink(const char *path)
{
	if (!armed) return __real_unlink(path);
	char a[300];
	classify(path, a, sizeof(a));
	const char *o = take_outcome();
	printf("fs %d unlink %s -> ", call_no, a);
	if (strcmp(o, "err") == 0) {
		printf("err\n");
		snapshot();
		errno = EACCES;
		return -1;
	}
	int r = __real_unlink(path);
	if (r == 0) {
		int fa = file_by_name(a);
		if (fa >= 0) snprintf(file_name[fa], sizeof(file_name[0]), "gone");
	}
	printf("%s\n", r == 0 ? "ok" : "realerr");
	snapshot();
	return r;
}

/* ------------------------------------------------------------------ script interpreter */

#define NPEERS 8
static struct peer peers[NPEERS];

static void reset_peer(int i)
{
	if (peers[i].user_name != NULL) cjet_free(peers[i].user_name);
	memset(&peers[i], 0, sizeof(peers[i]));
	INIT_LIST_HEAD(&peers[i].fetch_list);
}

static int loaded = 0;

static void forget_fds(void)
{
	for (int i = 0; i < MAX_FD; i++) fd_file[i] = -1;
	n_files = 0;
	main_file = new_file("main");
}

static void do_load(void)
{
	forget_fds();
	int r = load_passwd_data(main_path);
	loaded = (r == 0);
	if (loaded && password_file >= 0 && password_file < MAX_FD) fd_file[password_file] = main_file;
	printf("load %s\n", loaded ? "ok" : "fail");
	if (loaded) print_image(stdout);
}

static void print_response(const char *op, cJSON *response)
{
	if (response == NULL) { printf("%s null\n", op); return; }
	const cJSON *error = cJSON_GetObjectItem(response, "error");
	if (error == NULL) {
		const cJSON *res = cJSON_GetObjectItem(response, "result");
		printf("%s %s\n", op, (res != NULL && res->type == cJSON_True) ? "ok" : "odd");
	} else {
		const cJSON *code = cJSON_GetObjectItem(error, "code");
		const cJSON *data = cJSON_GetObjectItem(error, "data");
		printf("%s err %d ", op, code ? code->valueint : 0);
		if (data != NULL && data->child != NULL && data->child->string != NULL) {
			hexprint(data->child->string, strlen(data->child->string));
			printf(" ");
			if (data->child->type == cJSON_String) hexprint(data->child->valuestring, strlen(data->child->valuestring));
			else printf("?");
		} else printf("- -");
		printf("\n");
	}
	cJSON_Delete(response);
}

static cJSON *make_request(const char *method, const char *user, const char *pass)
{
	cJSON *req = cJSON_CreateObject();
	cJSON_AddItemToObject(req, "id", cJSON_CreateNumber(7));
	cJSON_AddItemToObject(req, "method", cJSON_CreateString(method));
	cJSON *params = cJSON_CreateObject();
	cJSON_AddItemToObject(params, "user", cJSON_CreateString(user));
	cJSON_AddItemToObject(params, "password", cJSON_CreateString(pass));
	cJSON_AddItemToObject(req, "params", params);
	return req;
}

static void print_peer(int i)
{
	printf("peer %d name=", i);
	if (peers[i].user_name == NULL) printf("none"); else { printf("S"); hexprint(peers[i].user_name, strlen(peers[i].user_name)); }
	printf("\n");
}

int main(int argc, char **argv)
{
	if (argc < 2) { fprintf(stderr, "usage: authfile <workdir>\n"); return 2; }
	setvbuf(stdout, NULL, _IOFBF, 1 << 16);
	char dir[4096];
	if (realpath(argv[1], dir) == NULL) { fprintf(stderr, "bad workdir\n"); return 2; }
	snprintf(main_path, sizeof(main_path), "%s/passwd.json", dir);
	snprintf(scratch_path, sizeof(scratch_path), "%s/snapshot.json", dir);
	for (int i = 0; i < NPEERS; i++) { memset(&peers[i], 0, sizeof(peers[i])); INIT_LIST_HEAD(&peers[i].fetch_list); }
	forget_fds();
	/* what init_parser() (parse.c) does at daemon start: cJSON allocates through cjet_malloc */
	cJSON_Hooks hooks = {.malloc_fn = cjet_malloc, .free_fn = cjet_free};
	cJSON_InitHooks(&hooks);

	char *line = NULL;
	size_t cap = 0;
	ssize_t got;
	while ((got = getline(&line, &cap, stdin)) > 0) {
		char *w[8];
		int nw = 0;
		for (char *t = strtok(line, " \t\r\n"); t != NULL && nw < 8; t = strtok(NULL, " \t\r\n")) w[nw++] = t;
		if (nw == 0 || w[0][0] == '#') continue;
		if (strcmp(w[0], "mark") == 0 && nw >= 2) {
			printf("mark %s\n", w[1]);
		} else if (strcmp(w[0], "load") == 0 && nw >= 2) {
			unsigned char *c; size_t l;
			if (unhex(w[1], &c, &l) < 0) { printf("load badhex\n"); continue; }
			if (loaded) { free_passwd_data(); loaded = 0; }
			/* a fresh inode every time */
			__real_unlink(main_path);
			spit(main_path, c, l);
			free(c);
			do_load();
		} else if (strcmp(w[0], "reload") == 0) {
			if (loaded) { free_passwd_data(); loaded = 0; }
			do_load();
		} else if (strcmp(w[0], "peer") == 0 && nw >= 2) {
			int i = atoi(w[1]) % NPEERS;
			reset_peer(i);
			print_peer(i);
		} else if (strcmp(w[0], "auth") == 0 && nw >= 4) {
			int i = atoi(w[1]) % NPEERS;
			unsigned char *u, *p; size_t ul, pl;
			if (unhex(w[2], &u, &ul) < 0 || unhex(w[3], &p, &pl) < 0) { printf("auth badhex\n"); continue; }
			if (!loaded) { printf("auth notloaded\n"); free(u); free(p); continue; }
			cJSON *req = make_request("authenticate", (char *)u, (char *)p);
			/* (whether a previous name is released is C07's subject; leak detection is off for this harness) */
			cJSON *resp = handle_authentication(&peers[i], req);
			print_response("auth", resp);
			print_peer(i);
			cJSON_Delete(req);
			free(u); free(p);
		} else if (strcmp(w[0], "cred") == 0 && nw >= 3) {
			unsigned char *u, *p; size_t ul, pl;
			if (unhex(w[1], &u, &ul) < 0 || unhex(w[2], &p, &pl) < 0) { printf("cred badhex\n"); continue; }
			if (!loaded) { printf("cred notloaded\n"); free(u); free(p); continue; }
			const cJSON *a = credentials_ok((char *)u, (char *)p);
			printf("cred %s\n", a != NULL ? "ok" : "fail");
			free(u); free(p);
		} else if (strcmp(w[0], "passwd") == 0 && nw >= 5) {
			int i = atoi(w[1]) % NPEERS;
			unsigned char *u, *p, *r; size_t ul, pl, rl;
			if (unhex(w[2], &u, &ul) < 0 || unhex(w[3], &p, &pl) < 0 || unhex(w[4], &r, &rl) < 0) { printf("passwd badhex\n"); continue; }
			if (!loaded) { printf("passwd notloaded\n"); free(u); free(p); free(r); continue; }
			rnd_len = rl < sizeof(rnd_buf) ? rl : sizeof(rnd_buf);
			memcpy(rnd_buf, r, rnd_len);
			rnd_pos = 0;
			n_outcomes = 0; next_outcome = 0; call_no = 0;
			if (nw >= 6) {
				for (char *t = strtok(w[5], ","); t != NULL && n_outcomes < MAX_OUT; t = strtok(NULL, ","))
					snprintf(outcomes[n_outcomes++], sizeof(outcomes[0]), "%s", t);
			}
			size_t ol = 0;
			unsigned char *old = slurp(main_path, &ol);
			printf("old ");
			if (old) hexprint(old, ol); else printf("MISSING");
			printf("\n");
			free(old);
			cJSON *req = make_request("passwd", (char *)u, (char *)p);
			armed = 1;
			cJSON *resp = handle_change_password(&peers[i], req);
			armed = 0;
			print_response("passwd", resp);
			printf("calls %d\n", call_no);
			print_image(stdout);
			size_t fl = 0;
			unsigned char *fc = slurp(main_path, &fl);
			printf("file ");
			if (fc) hexprint(fc, fl); else printf("MISSING");
			printf("\n");
			free(fc);
			cJSON_Delete(req);
			free(u); free(p); free(r);
		} else {
			printf("unknown %s\n", w[0]);
		}
		fflush(stdout);
	}
	free(line);
	for (int i = 0; i < NPEERS; i++) reset_peer(i);
	if (loaded) free_passwd_data();
	for (size_t i = 0; i < n_cache; i++) { free(cache[i].content); free(cache[i].image); }
	free(cache);
	return 0;
}
