/*
 * C07 component harness: the REAL src/alloc.c (compiled as its own, unmodified translation unit),
 * driven by a line script on stdin.  The calls alloc.c makes to malloc()/calloc() are intercepted
 * at link level (-Wl,--wrap=malloc,--wrap=calloc): the script decides for every cjet_malloc /
 * cjet_calloc whether the operating system grants the request.
 *
 * Script (one op per line, decimal numbers in size_t range), same language as drv_alloc:
 *   info                          -> info cap_kb=<CONFIG_MAX_HEAPSIZE_IN_KBYTE> factor=1024 hdr=<sizeof(size_t)> bits=<..>
 *   malloc <size> <osok>          -> ptr <id> | null
 *   calloc <nmemb> <size> <osok>  -> ptr <id> | null
 *   free <id>                     -> freed | nofree      (cjet_free is only called for a live id)
 * every op line is followed by ` alloc=<cjet_get_alloc_size()> live=<id>:<header word>,...`
 * where the header word is read back from the block itself (the size_t in front of the pointer
 * cjet_malloc returned).  ids number the successful allocations.
 *
 * A request of more than PTRDIFF_MAX bytes is refused by the interceptor like glibc's malloc does
 * (the sanitizer's allocator would abort instead); the check marks such requests `osok` = 0.
 * Granted blocks are filled with a pattern and checked before they are freed (calloc'ed blocks
 * must be zero when they are handed out).
 */
#define _GNU_SOURCE
#include <inttypes.h>
#include <stdarg.h>
#include <stdint.h>
#include <stdio.h>
#include <stdlib.h>
#include <string.h>

#include "alloc.h"
#include "generated/cjet_config.h"
#include "log.h"

/* ------------------------------------------------------------------ interception */

static int os_fail_armed = 0;      /* the next malloc/calloc of alloc.c fails */
static int in_cjet = 0;            /* only calls made from inside cjet_malloc/cjet_calloc are scripted */
static unsigned long os_calls = 0;
static size_t last_os_request = 0;

void *__real_malloc(size_t size);
void *__real_calloc(size_t nmemb, size_t size);

void *__wrap_malloc(size_t size)
{
	if (in_cjet) {
		os_calls++;
		last_os_request = size;
		if (os_fail_armed || size > (size_t)PTRDIFF_MAX) {
			os_fail_armed = 0;
			return NULL;
		}
	}
	return __real_malloc(size);
}

void *__wrap_calloc(size_t nmemb, size_t size)
{
	if (in_cjet) {
		os_calls++;
		last_os_request = nmemb * size;
		if (os_fail_armed || (size != 0 && nmemb > (size_t)PTRDIFF_MAX / size)) {
			os_fail_armed = 0;
			return NULL;
		}
	}
	return __real_calloc(nmemb, size);
}

static unsigned long log_lines = 0;
void log_err(const char *format, ...) { (void)format; log_lines++; }
void log_warn(const char *format, ...) { (void)format; log_lines++; }
void log_info(const char *format, ...) { (void)format; log_lines++; }

/* ------------------------------------------------------------------ live blocks */

struct blk {
	unsigned long id;
	unsigned char *p;
	size_t usable;      /* what the caller asked for (bytes it may touch) */
};

static struct blk *live = NULL;
static size_t n_live = 0, cap_live = 0;
static unsigned long next_id = 0;

static void add_live(unsigned char *p, size_t usable)
{
	if (n_live == cap_live) {
		cap_live = cap_live ? cap_live * 2 : 64;
		live = realloc(live, cap_live * sizeof(*live));
		if (live == NULL) {
			printf("error harness out of memory\n");
			exit(3);
		}
	}
	live[n_live].id = next_id++;
	live[n_live].p = p;
	live[n_live].usable = usable;
	n_live++;
}

static void print_state(const char *res)
{
	printf("%s alloc=%zu live=", res, cjet_get_alloc_size());
	if (n_live == 0) {
		printf("-");
	}
	for (size_t i = 0; i < n_live; i++) {
		size_t header;
		memcpy(&header, live[i].p - sizeof(size_t), sizeof(header));
		printf("%s%lu:%zu", i ? "," : "", live[i].id, header);
	}
	printf("\n");
}

static unsigned char pattern(unsigned long id, size_t i)
{
	return (unsigned char)(id * 31u + i * 7u + 1u);
}

static void touch(struct blk *b)
{
	size_t n = b->usable > 4096 ? 4096 : b->usable;     /* head and tail of large blocks */
	for (size_t i = 0; i < n; i++) {
		b->p[i] = pattern(b->id, i);
	}
	for (size_t i = 0; i < n; i++) {
		b->p[b->usable - 1 - i] = pattern(b->id, b->usable - 1 - i);
	}
}

static int check(const struct blk *b)
{
	size_t n = b->usable > 4096 ? 4096 : b->usable;
	for (size_t i = 0; i < n; i++) {
		if (b->p[i] != pattern(b->id, i) || b->p[b->usable - 1 - i] != pattern(b->id, b->usable - 1 - i)) {
			return 0;
		}
	}
	return 1;
}

int main(void)
{
	char line[512];
	setvbuf(stdout, NULL, _IOFBF, 1 << 16);
	while (fgets(line, sizeof(line), stdin) != NULL) {
		char op[32];
		unsigned long long a = 0, b = 0, c = 0;
		int n = sscanf(line, "%31s %llu %llu %llu", op, &a, &b, &c);
		if (n < 1) {
			continue;
		}
		if (strcmp(op, "info") == 0) {
			printf("info cap_kb=%zu factor=1024 hdr=%zu bits=%zu\n", (size_t)CONFIG_MAX_HEAPSIZE_IN_KBYTE,
			       sizeof(size_t), sizeof(size_t) * 8);
		} else if (strcmp(op, "malloc") == 0 && n == 3) {
			os_fail_armed = (b == 0);
			in_cjet = 1;
			unsigned char *p = cjet_malloc((size_t)a);
			in_cjet = 0;
			os_fail_armed = 0;
			if (p == NULL) {
				print_state("null");
			} else {
				char res[64];
				add_live(p, (size_t)a);
				touch(&live[n_live - 1]);
				snprintf(res, sizeof(res), "ptr %lu", live[n_live - 1].id);
				print_state(res);
			}
		} else if (strcmp(op, "calloc") == 0 && n == 4) {
			os_fail_armed = (c == 0);
			in_cjet = 1;
			unsigned char *p = cjet_calloc((size_t)a, (size_t)b);
			in_cjet = 0;
			os_fail_armed = 0;
			if (p == NULL) {
				print_state("null");
			} else {
				char res[64];
				size_t usable = (size_t)a * (size_t)b;
				size_t lim = usable > 4096 ? 4096 : usable;
				for (size_t i = 0; i < lim; i++) {
					if (p[i] != 0 || p[usable - 1 - i] != 0) {
						printf("error calloc block not zeroed\n");
						break;
					}
				}
				add_live(p, usable);
				touch(&live[n_live - 1]);
				snprintf(res, sizeof(res), "ptr %lu", live[n_live - 1].id);
				print_state(res);
			}
		} else if (strcmp(op, "free") == 0 && n == 2) {
			size_t i;
			for (i = 0; i < n_live; i++) {
				if (live[i].id == a) {
					break;
				}
			}
			if (i == n_live) {
				print_state("nofree");
			} else {
				if (!check(&live[i])) {
					printf("error block %lu corrupted\n", live[i].id);
				}
				cjet_free(live[i].p);
				memmove(&live[i], &live[i + 1], (n_live - i - 1) * sizeof(*live));
				n_live--;
				print_state("freed");
			}
		} else {
			printf("error op\n");
		}
	}
	/* leave nothing behind: LeakSanitizer at exit then checks alloc.c itself */
	for (size_t i = 0; i < n_live; i++) {
		cjet_free(live[i].p);
	}
	printf("end alloc=%zu os_calls=%lu log_lines=%lu\n", cjet_get_alloc_size(), os_calls, log_lines);
	free(live);
	return 0;
}
