/*
 * Component harness for property C17: runs the REAL hashtable.h macros
 * (DECLARE_HASHTABLE_STRING / _UINT32 / _UINT64) for orders 2..13 on a script
 * read from stdin and prints, after every operation, the result code and the
 * complete internal state of the table (every slot that is not in its pristine
 * state: hop bitmap, key, value).
 *
 * The file includes itself once per order (HT_ORDER defined) to obtain a
 * macro-generated family of instantiations inside one translation unit.  The
 * struct / comparison-function names that hashtable.h derives from the key type
 * only (hashtable_string, is_equal_string, ...) are renamed per order with
 * object-like macros: the result of a `##` paste is rescanned, so the renaming
 * also reaches the identifiers that hashtable.h builds by pasting.
 *
 * Script (one operation per line; keys: hex bytes for `string` ("-" = empty
 * string), decimal for uint32/uint64; values: decimal, stored as the pointer
 * vals[0]):
 *   new <string|uint32|uint64> <order>
 *   put <key> <val> | get <key> | remove <key> | hash <key> | sweep | dump
 * Output: one line per operation, `<op> ... | <state>` where state is
 * `idx=hop:key:val` for every non-pristine slot in index order.
 */
#ifdef HT_ORDER
/* ------------------------------------------------------------------ one order */

#define HT_CAT_(a, b) a##b
#define HT_CAT(a, b) HT_CAT_(a, b)

#define hashtable_string HT_CAT(hashtable_string_o, HT_ORDER)
#define is_equal_string HT_CAT(is_equal_string_o, HT_ORDER)
#define hashtable_uint32_t HT_CAT(hashtable_uint32_t_o, HT_ORDER)
#define is_equal_uint32_t HT_CAT(is_equal_uint32_t_o, HT_ORDER)
#define hashtable_uint64_t HT_CAT(hashtable_uint64_t_o, HT_ORDER)
#define is_equal_uint64_t HT_CAT(is_equal_uint64_t_o, HT_ORDER)

#define SN HT_CAT(hs, HT_ORDER)
#define UN HT_CAT(hu, HT_ORDER)
#define QN HT_CAT(hq, HT_ORDER)

/* one more macro level so that SN/UN/QN/HT_ORDER are expanded before hashtable.h pastes them */
#define HT_DECL_S(n, o) DECLARE_HASHTABLE_STRING(n, o, 1)
#define HT_DECL_U(n, o) DECLARE_HASHTABLE_UINT32(n, o, 1)
#define HT_DECL_Q(n, o) DECLARE_HASHTABLE_UINT64(n, o, 1)
HT_DECL_S(SN, HT_ORDER)
HT_DECL_U(UN, HT_ORDER)
HT_DECL_Q(QN, HT_ORDER)
#undef HT_DECL_S
#undef HT_DECL_U
#undef HT_DECL_Q
#define HT_CREATE(n) HASHTABLE_CREATE(n)
#define HT_DELETE(n, t) HASHTABLE_DELETE(n, t)
#define HT_PUT(n, t, k, v, p) HASHTABLE_PUT(n, t, k, v, p)
#define HT_GET(n, t, k, v) HASHTABLE_GET(n, t, k, v)
#define HT_REMOVE(n, t, k, v) HASHTABLE_REMOVE(n, t, k, v)

#define F(pre, nm) HT_CAT(HT_CAT(pre, nm), HT_CAT(_o, HT_ORDER))

/* ---- string */
static void *F(new_, s)(void) { return HT_CREATE(SN); }
static void F(del_, s)(void *t) { struct hashtable_string *tt = t; HT_DELETE(SN, tt); }
static int F(put_, s)(void *t, struct hkey k, uintptr_t v, uintptr_t *prev)
{
	struct HT_CAT(value_, SN) val, pv;
	val.vals[0] = (void *)v;
	int rc = HT_PUT(SN, (struct hashtable_string *)t, k.s, val, &pv);
	*prev = (uintptr_t)pv.vals[0];
	return rc;
}
static int F(get_, s)(void *t, struct hkey k, uintptr_t *out)
{
	struct HT_CAT(value_, SN) val;
	val.vals[0] = NULL;
	int rc = HT_GET(SN, (struct hashtable_string *)t, k.s, &val);
	*out = (rc == HASHTABLE_SUCCESS) ? (uintptr_t)val.vals[0] : 0;
	return rc;
}
static int F(rem_, s)(void *t, struct hkey k, uintptr_t *out)
{
	struct HT_CAT(value_, SN) val;
	val.vals[0] = NULL;
	int rc = HT_REMOVE(SN, (struct hashtable_string *)t, k.s, &val);
	*out = (rc == HASHTABLE_SUCCESS) ? (uintptr_t)val.vals[0] : 0;
	return rc;
}
static uint32_t F(hash_, s)(struct hkey k) { return HT_CAT(HT_CAT(hash_func_, SN), _string)(k.s); }
static void F(dump_, s)(void *t)
{
	struct hashtable_string *tt = t;
	for (uint32_t i = 0; i < HT_CAT(table_size_, SN); i++) {
		int inval = tt[i].key == (const char *)HASHTABLE_INVALIDENTRY;
		if (tt[i].hop_info == 0 && inval && tt[i].value.vals[0] == NULL) continue;
		printf(" %u=%08x:", i, tt[i].hop_info);
		if (inval) printf("~"); else print_hex(tt[i].key);
		printf(":%llu", (unsigned long long)(uintptr_t)tt[i].value.vals[0]);
	}
}
/* the iterate-while-removing loop of router.c (remove_routing_info_from_peer) */
static void F(sweep_, s)(void *t)
{
	struct hashtable_string *table = t;
	for (unsigned int i = 0; i < HT_CAT(table_size_, SN); ++i) {
		struct hashtable_string *entry = &(table[i]);
		if (entry->key != (char *)HASHTABLE_INVALIDENTRY) {
			struct HT_CAT(value_, SN) val;
			int ret = HT_REMOVE(SN, table, entry->key, &val);
			if (ret == HASHTABLE_SUCCESS) {
				printf(" %llu", (unsigned long long)(uintptr_t)val.vals[0]);
			}
		}
	}
}

/* ---- uint32 */
static void *F(new_, u)(void) { return HT_CREATE(UN); }
static void F(del_, u)(void *t) { struct hashtable_uint32_t *tt = t; HT_DELETE(UN, tt); }
static int F(put_, u)(void *t, struct hkey k, uintptr_t v, uintptr_t *prev)
{
	struct HT_CAT(value_, UN) val, pv;
	val.vals[0] = (void *)v;
	int rc = HT_PUT(UN, (struct hashtable_uint32_t *)t, (uint32_t)k.n, val, &pv);
	*prev = (uintptr_t)pv.vals[0];
	return rc;
}
static int F(get_, u)(void *t, struct hkey k, uintptr_t *out)
{
	struct HT_CAT(value_, UN) val;
	val.vals[0] = NULL;
	int rc = HT_GET(UN, (struct hashtable_uint32_t *)t, (uint32_t)k.n, &val);
	*out = (rc == HASHTABLE_SUCCESS) ? (uintptr_t)val.vals[0] : 0;
	return rc;
}
static int F(rem_, u)(void *t, struct hkey k, uintptr_t *out)
{
	struct HT_CAT(value_, UN) val;
	val.vals[0] = NULL;
	int rc = HT_REMOVE(UN, (struct hashtable_uint32_t *)t, (uint32_t)k.n, &val);
	*out = (rc == HASHTABLE_SUCCESS) ? (uintptr_t)val.vals[0] : 0;
	return rc;
}
static uint32_t F(hash_, u)(struct hkey k) { return HT_CAT(HT_CAT(hash_func_, UN), _uint32_t)((uint32_t)k.n); }
static void F(dump_, u)(void *t)
{
	struct hashtable_uint32_t *tt = t;
	for (uint32_t i = 0; i < HT_CAT(table_size_, UN); i++) {
		int inval = tt[i].key == (uint32_t)HASHTABLE_INVALIDENTRY;
		if (tt[i].hop_info == 0 && inval && tt[i].value.vals[0] == NULL) continue;
		printf(" %u=%08x:", i, tt[i].hop_info);
		if (inval) printf("~"); else printf("%lu", (unsigned long)tt[i].key);
		printf(":%llu", (unsigned long long)(uintptr_t)tt[i].value.vals[0]);
	}
}
static void F(sweep_, u)(void *t)
{
	struct hashtable_uint32_t *table = t;
	for (unsigned int i = 0; i < HT_CAT(table_size_, UN); ++i) {
		struct hashtable_uint32_t *entry = &(table[i]);
		if (entry->key != (uint32_t)HASHTABLE_INVALIDENTRY) {
			struct HT_CAT(value_, UN) val;
			int ret = HT_REMOVE(UN, table, entry->key, &val);
			if (ret == HASHTABLE_SUCCESS) {
				printf(" %llu", (unsigned long long)(uintptr_t)val.vals[0]);
			}
		}
	}
}

/* ---- uint64 */
static void *F(new_, q)(void) { return HT_CREATE(QN); }
static void F(del_, q)(void *t) { struct hashtable_uint64_t *tt = t; HT_DELETE(QN, tt); }
static int F(put_, q)(void *t, struct hkey k, uintptr_t v, uintptr_t *prev)
{
	struct HT_CAT(value_, QN) val, pv;
	val.vals[0] = (void *)v;
	int rc = HT_PUT(QN, (struct hashtable_uint64_t *)t, (uint64_t)k.n, val, &pv);
	*prev = (uintptr_t)pv.vals[0];
	return rc;
}
static int F(get_, q)(void *t, struct hkey k, uintptr_t *out)
{
	struct HT_CAT(value_, QN) val;
	val.vals[0] = NULL;
	int rc = HT_GET(QN, (struct hashtable_uint64_t *)t, (uint64_t)k.n, &val);
	*out = (rc == HASHTABLE_SUCCESS) ? (uintptr_t)val.vals[0] : 0;
	return rc;
}
static int F(rem_, q)(void *t, struct hkey k, uintptr_t *out)
{
	struct HT_CAT(value_, QN) val;
	val.vals[0] = NULL;
	int rc = HT_REMOVE(QN, (struct hashtable_uint64_t *)t, (uint64_t)k.n, &val);
	*out = (rc == HASHTABLE_SUCCESS) ? (uintptr_t)val.vals[0] : 0;
	return rc;
}
static uint32_t F(hash_, q)(struct hkey k) { return HT_CAT(HT_CAT(hash_func_, QN), _uint64_t)((uint64_t)k.n); }
static void F(dump_, q)(void *t)
{
	struct hashtable_uint64_t *tt = t;
	for (uint32_t i = 0; i < HT_CAT(table_size_, QN); i++) {
		int inval = tt[i].key == (uint64_t)HASHTABLE_INVALIDENTRY;
		if (tt[i].hop_info == 0 && inval && tt[i].value.vals[0] == NULL) continue;
		printf(" %u=%08x:", i, tt[i].hop_info);
		if (inval) printf("~"); else printf("%llu", (unsigned long long)tt[i].key);
		printf(":%llu", (unsigned long long)(uintptr_t)tt[i].value.vals[0]);
	}
}
static void F(sweep_, q)(void *t)
{
	struct hashtable_uint64_t *table = t;
	for (unsigned int i = 0; i < HT_CAT(table_size_, QN); ++i) {
		struct hashtable_uint64_t *entry = &(table[i]);
		if (entry->key != (uint64_t)HASHTABLE_INVALIDENTRY) {
			struct HT_CAT(value_, QN) val;
			int ret = HT_REMOVE(QN, table, entry->key, &val);
			if (ret == HASHTABLE_SUCCESS) {
				printf(" %llu", (unsigned long long)(uintptr_t)val.vals[0]);
			}
		}
	}
}

static void F(reg_, all)(void)
{
	struct htops *o;
	o = &OPS[0][HT_ORDER];
	o->create = F(new_, s); o->destroy = F(del_, s); o->put = F(put_, s); o->get = F(get_, s);
	o->rem = F(rem_, s); o->hash = F(hash_, s); o->dump = F(dump_, s); o->sweep = F(sweep_, s);
	o->size = HT_CAT(table_size_, SN); o->add_range = HT_CAT(add_range_, SN); o->hop_range = HT_CAT(hop_range_, SN)();
	o = &OPS[1][HT_ORDER];
	o->create = F(new_, u); o->destroy = F(del_, u); o->put = F(put_, u); o->get = F(get_, u);
	o->rem = F(rem_, u); o->hash = F(hash_, u); o->dump = F(dump_, u); o->sweep = F(sweep_, u);
	o->size = HT_CAT(table_size_, UN); o->add_range = HT_CAT(add_range_, UN); o->hop_range = HT_CAT(hop_range_, UN)();
	o = &OPS[2][HT_ORDER];
	o->create = F(new_, q); o->destroy = F(del_, q); o->put = F(put_, q); o->get = F(get_, q);
	o->rem = F(rem_, q); o->hash = F(hash_, q); o->dump = F(dump_, q); o->sweep = F(sweep_, q);
	o->size = HT_CAT(table_size_, QN); o->add_range = HT_CAT(add_range_, QN); o->hop_range = HT_CAT(hop_range_, QN)();
}

#undef F
#undef HT_CREATE
#undef HT_DELETE
#undef HT_PUT
#undef HT_GET
#undef HT_REMOVE
#undef SN
#undef UN
#undef QN
#undef hashtable_string
#undef is_equal_string
#undef hashtable_uint32_t
#undef is_equal_uint32_t
#undef hashtable_uint64_t
#undef is_equal_uint64_t
#undef HT_CAT
#undef HT_CAT_

#else
/* ------------------------------------------------------------------ main part */
#include <inttypes.h>
#include <stdio.h>
#include <stdlib.h>
#include <string.h>

#include "hashtable.h"

/* a sanitizer report must not lose the observations printed so far (stdout is a pipe, fully buffered) */
static void flush_on_death(void)
{
	fflush(stdout);
}
void __sanitizer_set_death_callback(void (*callback)(void));

/* alloc.c reports failures through log_err */
void log_err(const char *format, ...)
{
	(void)format;
}

struct hkey {
	const char *s;          /* string tables */
	unsigned long long n;   /* integer tables */
};

struct htops {
	void *(*create)(void);
	void (*destroy)(void *);
	int (*put)(void *, struct hkey, uintptr_t, uintptr_t *);
	int (*get)(void *, struct hkey, uintptr_t *);
	int (*rem)(void *, struct hkey, uintptr_t *);
	uint32_t (*hash)(struct hkey);
	void (*dump)(void *);
	void (*sweep)(void *);
	uint32_t size, add_range, hop_range;
};

#define MAX_ORDER 13
static struct htops OPS[3][MAX_ORDER + 1];

static void print_hex(const char *s)
{
	if (*s == 0) {
		printf("-");
		return;
	}
	for (; *s; s++) printf("%02x", (unsigned char)*s);
}

#define HT_ORDER 2
#include "hoptable.c"
#undef HT_ORDER
#define HT_ORDER 3
#include "hoptable.c"
#undef HT_ORDER
#define HT_ORDER 4
#include "hoptable.c"
#undef HT_ORDER
#define HT_ORDER 5
#include "hoptable.c"
#undef HT_ORDER
#define HT_ORDER 6
#include "hoptable.c"
#undef HT_ORDER
#define HT_ORDER 7
#include "hoptable.c"
#undef HT_ORDER
#define HT_ORDER 8
#include "hoptable.c"
#undef HT_ORDER
#define HT_ORDER 9
#include "hoptable.c"
#undef HT_ORDER
#define HT_ORDER 10
#include "hoptable.c"
#undef HT_ORDER
#define HT_ORDER 11
#include "hoptable.c"
#undef HT_ORDER
#define HT_ORDER 12
#include "hoptable.c"
#undef HT_ORDER
#define HT_ORDER 13
#include "hoptable.c"
#undef HT_ORDER

/* interned key strings: the string tables store the caller's pointer */
static char **pool;
static size_t pool_n, pool_cap;

static const char *intern(const char *bytes)
{
	for (size_t i = 0; i < pool_n; i++)
		if (strcmp(pool[i], bytes) == 0) return pool[i];
	if (pool_n == pool_cap) {
		pool_cap = pool_cap ? pool_cap * 2 : 64;
		pool = realloc(pool, pool_cap * sizeof(*pool));
	}
	pool[pool_n] = strdup(bytes);
	return pool[pool_n++];
}

static int unhex(const char *h, char *out, size_t cap)
{
	size_t n = 0;
	if (strcmp(h, "-") == 0) {
		out[0] = 0;
		return 0;
	}
	while (h[0] && h[1]) {
		unsigned v;
		if (sscanf(h, "%2x", &v) != 1 || n + 1 >= cap || v == 0) return -1;
		out[n++] = (char)v;
		h += 2;
	}
	if (h[0]) return -1;
	out[n] = 0;
	return 0;
}

static int parse_key(int type, const char *tok, struct hkey *k)
{
	static char buf[4096];
	k->s = NULL;
	k->n = 0;
	if (type == 0) {
		if (unhex(tok, buf, sizeof(buf)) < 0) return -1;
		k->s = intern(buf);
		return 0;
	}
	char *end;
	k->n = strtoull(tok, &end, 10);
	return *end ? -1 : 0;
}

int main(void)
{
	static char line[16384];
	int type = -1, order = 0;
	void *tab = NULL;
	struct htops *o = NULL;
	__sanitizer_set_death_callback(flush_on_death);
	reg_all_o2(); reg_all_o3(); reg_all_o4(); reg_all_o5(); reg_all_o6(); reg_all_o7();
	reg_all_o8(); reg_all_o9(); reg_all_o10(); reg_all_o11(); reg_all_o12(); reg_all_o13();

	while (fgets(line, sizeof(line), stdin)) {
		char op[32] = "", a1[8192] = "", a2[64] = "";
		int n = sscanf(line, "%31s %8191s %63s", op, a1, a2);
		if (n < 1 || op[0] == '#') continue;
		if (strcmp(op, "new") == 0) {
			if (tab) { o->destroy(tab); tab = NULL; }
			type = strcmp(a1, "string") == 0 ? 0 : strcmp(a1, "uint32") == 0 ? 1 : strcmp(a1, "uint64") == 0 ? 2 : -1;
			order = atoi(a2);
			if (type < 0 || order < 2 || order > MAX_ORDER) { printf("error bad-new\n"); type = -1; continue; }
			o = &OPS[type][order];
			tab = o->create();
			printf("new %s %d N=%u add=%u hop=%u |", a1, order, o->size, o->add_range, o->hop_range);
			o->dump(tab);
			printf("\n");
			continue;
		}
		if (!tab) { printf("error no-table\n"); continue; }
		struct hkey k;
		if (strcmp(op, "put") == 0) {
			if (n < 3 || parse_key(type, a1, &k) < 0) { printf("error bad-args\n"); continue; }
			uintptr_t v = (uintptr_t)strtoull(a2, NULL, 10), prev = 0;
			int rc = o->put(tab, k, v, &prev);
			printf("put rc=%d prev=%llu |", rc, (unsigned long long)prev);
		} else if (strcmp(op, "get") == 0) {
			if (n < 2 || parse_key(type, a1, &k) < 0) { printf("error bad-args\n"); continue; }
			uintptr_t v = 0;
			int rc = o->get(tab, k, &v);
			printf("get rc=%d val=%llu |", rc, (unsigned long long)v);
		} else if (strcmp(op, "remove") == 0) {
			if (n < 2 || parse_key(type, a1, &k) < 0) { printf("error bad-args\n"); continue; }
			uintptr_t v = 0;
			int rc = o->rem(tab, k, &v);
			printf("remove rc=%d val=%llu |", rc, (unsigned long long)v);
		} else if (strcmp(op, "hash") == 0) {
			if (n < 2 || parse_key(type, a1, &k) < 0) { printf("error bad-args\n"); continue; }
			printf("hash %u |", o->hash(k));
		} else if (strcmp(op, "sweep") == 0) {
			printf("sweep");
			o->sweep(tab);
			printf(" |");
		} else if (strcmp(op, "dump") == 0) {
			printf("dump |");
		} else {
			printf("error unknown-op\n");
			continue;
		}
		o->dump(tab);
		printf("\n");
	}
	if (tab) o->destroy(tab);
	for (size_t i = 0; i < pool_n; i++) free(pool[i]);
	free(pool);
	return 0;
}
#endif
