/*
 * Accept component harness: the REAL src/linux/linux_io.c (#included, so that its static functions
 * accept_common / accept_jet / accept_http / is_localhost / start_server / stop_server are reachable)
 * over a scripted kernel and a stubbed rest of the daemon.
 *
 * Build: this file only (it #includes linux/linux_io.c); linked with
 *   -Wl,--wrap=accept,--wrap=fcntl,--wrap=getsockname,--wrap=setsockopt,--wrap=close
 * Stubbed: alloc_jet_peer, alloc_http_connection, buffered_socket_acquire/_init, init_socket_peer,
 * init_http_connection, cjet_free, the event loop's add/remove, log_*.  Everything else linux_io.c
 * references (buffered_socket_close, free_peer_on_error, ...) is only passed around as a pointer; the
 * stubs abort with a FAULT line if they are ever called.
 *
 * Script (stdin), one operation per line, the same script the Lean driver `drv_accept` reads:
 *   call  <jet|http|null> <l> <answer>...          accept_jet / accept_http / accept_common(ev, NULL)
 *   start <jet|http|null> <l> <0|1> <answer>...    start_server; 0|1 = result of loop->add
 *   stop  <l>                                       stop_server
 *   islocal <family> <hex>                          is_localhost
 * answer: E<errno> | C<fd>:<family>:<hex>:<gsfamily>:<faults>   (see lean/Cjet/Drv/Accept.lean)
 *
 * Output: one line per event (ACCEPT, SYS, CLOSE, ALLOC, ALLOCFAIL, FREE, INITFAIL, PEER, ADD, REMOVE), then
 * RET / START / LOCAL, then END.  Lines starting with FAULT are the harness' own property monitor:
 * descriptor closed twice / closed after hand-over / used when not in flight / left open, record freed
 * twice / leaked, wrong wiring of the buffered socket, accept spinning on an empty queue.
 */
#include <errno.h>
#include <fcntl.h>
#include <setjmp.h>
#include <stdarg.h>
#include <stdint.h>
#include <stdio.h>
#include <stdlib.h>
#include <string.h>

#include "linux/linux_io.c"

void __sanitizer_set_death_callback(void (*cb)(void));

#define MAXFD 65536
#define MAXANS 4096

enum fdstate { FD_NEVER = 0, FD_FLIGHT, FD_OWNED, FD_CLOSED, FD_LISTEN };
static unsigned char fdst[MAXFD];
static int touched[MAXANS * 2 + 8];
static int n_touched;

struct answer {
	int is_conn;
	int err;
	int fd;
	int fam;
	int gsfam;
	unsigned char sa[128];
	int sa_len;
	char faults[16];
};
static struct answer answers[MAXANS];
static int n_answers, next_answer, accept_calls;
static struct answer *cur;	/* connection in flight */
static int listener = -1;
static int add_ok = 1;
static jmp_buf spin_jmp;

enum objkind { O_PEER, O_CONN, O_BS };
static const char *objname[] = {"peer", "conn", "bs"};
enum objstate { OS_NONE = 0, OS_LIVE, OS_FREED, OS_OWNED };
struct obj {
	void *p;
	enum objstate st;
	int sock;
	void (*error)(void *);
	void *error_context;
	struct eventloop *loop;
	int inited;
};
static struct obj objs[3];
static void *owned_ptrs[MAXANS * 2];
static int n_owned;

static struct eventloop loop;
static struct http_server http_srv;
static struct jet_server jet_srv;
static struct io_event plain_ev;
static const char *cur_kind = "jet";

static void out(const char *fmt, ...)
{
	va_list ap;
	va_start(ap, fmt);
	vprintf(fmt, ap);
	va_end(ap);
	putchar('\n');
}

static void flush_all(void)
{
	fflush(stdout);
}

static void touch(int fd)
{
	if (n_touched < (int)ARRAY_SIZE(touched)) {
		touched[n_touched++] = fd;
	}
}

static int fails(char c)
{
	return cur != NULL && strchr(cur->faults, c) != NULL;
}

/* ------------------------------------------------------------------ stubs of the rest of the daemon */

void log_err(const char *format, ...) { (void)format; }
void log_warn(const char *format, ...) { (void)format; }
void log_info(const char *format, ...) { (void)format; }

static void unexpected(const char *what)
{
	out("FAULT unexpected call of %s", what);
	flush_all();
	exit(3);
}

int buffered_socket_close(void *c) { (void)c; unexpected("buffered_socket_close"); return -1; }
int buffered_socket_writev(void *t, struct socket_io_vector *v, unsigned int n) { (void)t; (void)v; (void)n; unexpected("buffered_socket_writev"); return -1; }
void buffered_socket_set_error(void *t, void (*e)(void *), void *c) { (void)t; (void)e; (void)c; unexpected("buffered_socket_set_error"); }
int buffered_socket_read_exactly(void *t, size_t n, enum bs_read_callback_return (*cb)(void *, uint8_t *, size_t), void *c) { (void)t; (void)n; (void)cb; (void)c; unexpected("buffered_socket_read_exactly"); return -1; }
int buffered_socket_read_until(void *t, const char *d, enum bs_read_callback_return (*cb)(void *, uint8_t *, size_t), void *c) { (void)t; (void)d; (void)cb; (void)c; unexpected("buffered_socket_read_until"); return -1; }
void free_peer_on_error(void *c) { (void)c; unexpected("free_peer_on_error"); }
void free_connection(void *c) { (void)c; unexpected("free_connection"); }
void destroy_all_peers(void) { unexpected("destroy_all_peers"); }
void destroy_all_http_connections(void) { unexpected("destroy_all_http_connections"); }
int alloc_websocket_peer(struct http_connection *c) { (void)c; unexpected("alloc_websocket_peer"); return -1; }
int websocket_upgrade_on_header_field(http_parser *p, const char *at, size_t length) { (void)p; (void)at; (void)length; unexpected("websocket_upgrade_on_header_field"); return -1; }
int websocket_upgrade_on_header_value(http_parser *p, const char *at, size_t length) { (void)p; (void)at; (void)length; unexpected("websocket_upgrade_on_header_value"); return -1; }
int websocket_upgrade_on_headers_complete(http_parser *p) { (void)p; unexpected("websocket_upgrade_on_headers_complete"); return -1; }

static void *obj_alloc(enum objkind k, size_t size, char fault)
{
	if (cur == NULL) {
		out("FAULT allocation of %s with no connection in flight", objname[k]);
	}
	if (fails(fault)) {
		out("ALLOCFAIL %s", objname[k]);
		return NULL;
	}
	if (objs[k].st == OS_LIVE) {
		out("FAULT second %s allocated for one connection", objname[k]);
	}
	void *p = malloc(size);
	memset(p, 0xa5, size);	/* cjet_malloc does not zero */
	memset(&objs[k], 0, sizeof(objs[k]));
	objs[k].p = p;
	objs[k].st = OS_LIVE;
	objs[k].sock = -1;
	out("ALLOC %s", objname[k]);
	return p;
}

struct socket_peer *alloc_jet_peer(void)
{
	return obj_alloc(O_PEER, sizeof(struct socket_peer), 'p');
}

struct http_connection *alloc_http_connection(void)
{
	return obj_alloc(O_CONN, sizeof(struct http_connection), 'p');
}

struct buffered_socket *buffered_socket_acquire(void)
{
	return obj_alloc(O_BS, sizeof(struct buffered_socket), 'b');
}

void cjet_free(void *ptr)
{
	if (ptr == NULL) {
		return;
	}
	for (int k = 0; k < 3; k++) {
		if (objs[k].p == ptr && objs[k].st != OS_NONE) {
			if (objs[k].st == OS_LIVE) {
				out("FREE %s", objname[k]);
				objs[k].st = OS_FREED;
				free(ptr);
			} else if (objs[k].st == OS_FREED) {
				out("FREE %s", objname[k]);
				out("FAULT double free of %s", objname[k]);
			} else {
				out("FREE %s", objname[k]);
				out("FAULT free of %s that a peer owns", objname[k]);
			}
			return;
		}
	}
	out("FAULT cjet_free of unknown pointer");
}

void buffered_socket_init(struct buffered_socket *bs, socket_type sock, struct eventloop *l,
                          void (*error)(void *error_context), void *error_context)
{
	if (objs[O_BS].st != OS_LIVE || objs[O_BS].p != (void *)bs) {
		out("FAULT buffered_socket_init on a record that is not the live buffered socket");
		return;
	}
	bs->ev.sock = sock;
	bs->ev.loop = l;
	bs->error = error;
	bs->error_context = error_context;
	objs[O_BS].sock = (int)sock;
	objs[O_BS].error = error;
	objs[O_BS].error_context = error_context;
	objs[O_BS].loop = l;
	objs[O_BS].inited = 1;
}

static int check_reader(const struct buffered_reader *r, enum objkind owner, void (*expected_error)(void *))
{
	int ok = 1;
	if (objs[O_BS].st != OS_LIVE || r->this_ptr != objs[O_BS].p) {
		out("FAULT reader does not point to the live buffered socket");
		return 0;
	}
	if (!objs[O_BS].inited) {
		out("FAULT buffered socket handed over uninitialised");
		return 0;
	}
	if (cur == NULL || objs[O_BS].sock != cur->fd) {
		out("FAULT buffered socket wraps descriptor %d, accepted %d", objs[O_BS].sock, cur ? cur->fd : -1);
		ok = 0;
	}
	if (objs[O_BS].loop != &loop) {
		out("FAULT buffered socket registered with a different event loop");
		ok = 0;
	}
	if (objs[O_BS].error != expected_error || objs[O_BS].error_context != objs[owner].p) {
		out("FAULT error callback of the buffered socket does not release its owner");
		ok = 0;
	}
	if (r->close != buffered_socket_close || r->read_exactly != buffered_socket_read_exactly ||
	    r->read_until != buffered_socket_read_until || r->writev != buffered_socket_writev ||
	    r->set_error_handler != buffered_socket_set_error) {
		out("FAULT reader function table incomplete");
		ok = 0;
	}
	return ok;
}

static int finish_init(enum objkind owner, bool is_local, const char *kind)
{
	if (fails('t')) {
		out("INITFAIL");
		return -1;
	}
	int fd = objs[O_BS].sock;
	out("PEER fd=%d local=%d kind=%s", fd, is_local ? 1 : 0, kind);
	if (fd >= 0 && fd < MAXFD) {
		if (fdst[fd] != FD_FLIGHT) {
			out("FAULT peer created on descriptor %d that is not in flight (state %d)", fd, fdst[fd]);
		}
		fdst[fd] = FD_OWNED;
	}
	objs[owner].st = OS_OWNED;
	objs[O_BS].st = OS_OWNED;
	if (n_owned + 2 <= (int)ARRAY_SIZE(owned_ptrs)) {
		owned_ptrs[n_owned++] = objs[owner].p;
		owned_ptrs[n_owned++] = objs[O_BS].p;
	}
	return 0;
}

int init_socket_peer(struct socket_peer *p, struct buffered_reader *reader, bool is_local_connection)
{
	if (objs[O_PEER].st != OS_LIVE || objs[O_PEER].p != (void *)p) {
		out("FAULT init_socket_peer on a record that is not the live peer");
		return -1;
	}
	check_reader(reader, O_PEER, free_peer_on_error);
	return finish_init(O_PEER, is_local_connection, "jet");
}

int init_http_connection(struct http_connection *connection, const struct http_server *server,
                         struct buffered_reader *reader, bool is_local_connection)
{
	if (objs[O_CONN].st != OS_LIVE || objs[O_CONN].p != (void *)connection) {
		out("FAULT init_http_connection on a record that is not the live connection");
		return -1;
	}
	if (server != &http_srv) {
		out("FAULT init_http_connection got a different server");
	}
	check_reader(reader, O_CONN, free_connection);
	return finish_init(O_CONN, is_local_connection, "http");
}

/* ------------------------------------------------------------------ event loop */

static enum eventloop_return loop_add(const void *this_ptr, const struct io_event *ev)
{
	if (this_ptr != (const void *)&loop) {
		out("FAULT add with wrong this_ptr");
	}
	out("ADD l=%d %s", (int)ev->sock, add_ok ? "ok" : "fail");
	return add_ok ? EL_CONTINUE_LOOP : EL_ABORT_LOOP;
}

static void loop_remove(void *this_ptr, const struct io_event *ev)
{
	if (this_ptr != (void *)&loop) {
		out("FAULT remove with wrong this_ptr");
	}
	out("REMOVE l=%d", (int)ev->sock);
}

/* ------------------------------------------------------------------ scripted kernel */

/* a connection whose handling ended: everything it allocated must be freed or owned */
static void resolve_connection(const char *when)
{
	if (cur == NULL) {
		return;
	}
	if (cur->fd >= 0 && cur->fd < MAXFD && fdst[cur->fd] == FD_FLIGHT) {
		out("FAULT leak: descriptor %d neither closed nor owned by a peer (%s)", cur->fd, when);
		fdst[cur->fd] = FD_CLOSED;
	}
	for (int k = 0; k < 3; k++) {
		if (objs[k].st == OS_LIVE) {
			out("FAULT leak: %s neither freed nor owned by a peer (%s)", objname[k], when);
			free(objs[k].p);
		}
		objs[k].st = OS_NONE;
		objs[k].p = NULL;
	}
	cur = NULL;
}

int __wrap_accept(int lfd, struct sockaddr *addr, socklen_t *len)
{
	resolve_connection("at the next accept");
	if (lfd != listener) {
		out("FAULT accept on descriptor %d, listener is %d", lfd, listener);
	}
	if (++accept_calls > n_answers + 64) {
		out("FAULT spin: accept called %d times on an empty queue", accept_calls - n_answers);
		longjmp(spin_jmp, 1);
	}
	if (next_answer >= n_answers) {
		out("ACCEPT l=%d errno=%d", lfd, EAGAIN);
		errno = EAGAIN;
		return -1;
	}
	struct answer *a = &answers[next_answer++];
	if (!a->is_conn) {
		out("ACCEPT l=%d errno=%d", lfd, a->err);
		errno = a->err;
		return -1;
	}
	/* what accept(2) does: store min(*len, actual) bytes, report the actual length */
	unsigned char img[sizeof(struct sockaddr_storage)];
	memset(img, 0, sizeof(img));
	sa_family_t fam = (sa_family_t)a->fam;
	memcpy(img, &fam, sizeof(fam));
	memcpy(img + sizeof(fam), a->sa, (size_t)a->sa_len);
	socklen_t actual = (socklen_t)(sizeof(fam) + (size_t)a->sa_len);
	if (addr != NULL && len != NULL) {
		memcpy(addr, img, *len < actual ? *len : actual);
		*len = actual;
	}
	if (a->fd >= 0 && a->fd < MAXFD) {
		if (fdst[a->fd] == FD_FLIGHT || fdst[a->fd] == FD_LISTEN) {
			out("FAULT script: descriptor %d is still open", a->fd);
		}
		fdst[a->fd] = FD_FLIGHT;
		touch(a->fd);
	}
	cur = a;
	out("ACCEPT l=%d fd=%d", lfd, a->fd);
	return a->fd;
}

static void sys_line(int fd, const char *name, int ok)
{
	out("SYS fd=%d %s %s", fd, name, ok ? "ok" : "fail");
	if (fd < 0 || fd >= MAXFD || fdst[fd] != FD_FLIGHT) {
		out("FAULT %s on descriptor %d that is not an accepted descriptor in flight (state %d)", name, fd,
		    (fd >= 0 && fd < MAXFD) ? fdst[fd] : -1);
	}
}

int __wrap_fcntl(int fd, int cmd, ...)
{
	va_list ap;
	va_start(ap, cmd);
	long arg = va_arg(ap, long);
	va_end(ap);
	if (cmd == F_GETFL) {
		int ok = !fails('g');
		sys_line(fd, "getfl", ok);
		if (!ok) {
			errno = EBADF;
			return -1;
		}
		return O_RDWR;
	} else if (cmd == F_SETFL) {
		int ok = !fails('s');
		sys_line(fd, "setfl", ok);
		if ((int)arg != (O_RDWR | O_NONBLOCK)) {
			out("FAULT F_SETFL with flags %#x, expected the old flags plus O_NONBLOCK", (unsigned)arg);
		}
		if (!ok) {
			errno = EINVAL;
			return -1;
		}
		return 0;
	}
	out("FAULT fcntl command %d", cmd);
	errno = EINVAL;
	return -1;
}

int __wrap_getsockname(int fd, struct sockaddr *addr, socklen_t *len)
{
	int ok = !fails('n');
	sys_line(fd, "getsockname", ok);
	if (!ok) {
		errno = ENOBUFS;
		return -1;
	}
	struct sockaddr_storage st;
	memset(&st, 0, sizeof(st));
	st.ss_family = (sa_family_t)(cur ? cur->gsfam : AF_INET);
	memcpy(addr, &st, *len < sizeof(st) ? *len : sizeof(st));
	return 0;
}

int __wrap_setsockopt(int fd, int level, int optname, const void *optval, socklen_t optlen)
{
	const char *name = NULL;
	char fault = 0;
	if (level == IPPROTO_TCP && optname == TCP_NODELAY) { name = "nodelay"; fault = 'd'; }
	else if (level == SOL_TCP && optname == TCP_KEEPIDLE) { name = "keepidle"; fault = 'i'; }
	else if (level == SOL_TCP && optname == TCP_KEEPINTVL) { name = "keepintvl"; fault = 'v'; }
	else if (level == SOL_TCP && optname == TCP_KEEPCNT) { name = "keepcnt"; fault = 'c'; }
	else if (level == SOL_SOCKET && optname == SO_KEEPALIVE) { name = "keepalive"; fault = 'k'; }
	if (name == NULL) {
		out("FAULT setsockopt level %d option %d", level, optname);
		errno = ENOPROTOOPT;
		return -1;
	}
	int ok = !fails(fault);
	sys_line(fd, name, ok);
	int v = 0;
	if (optval == NULL || optlen != sizeof(int)) {
		out("FAULT setsockopt %s with option length %u", name, (unsigned)optlen);
	} else {
		memcpy(&v, optval, sizeof(v));
		if (v <= 0) {
			out("FAULT setsockopt %s with value %d", name, v);
		}
	}
	if (!ok) {
		errno = ENOPROTOOPT;
		return -1;
	}
	return 0;
}

int __wrap_close(int fd)
{
	out("CLOSE fd=%d", fd);
	if (fd < 0 || fd >= MAXFD) {
		out("FAULT close of descriptor %d", fd);
		errno = EBADF;
		return -1;
	}
	switch (fdst[fd]) {
	case FD_FLIGHT:
		for (int k = 0; k < 3; k++) {
			if (objs[k].st == OS_LIVE) {
				out("FAULT leak: descriptor %d closed while %s is still allocated", fd, objname[k]);
			}
		}
		fdst[fd] = FD_CLOSED;
		return 0;
	case FD_LISTEN:
		fdst[fd] = FD_CLOSED;
		return 0;
	case FD_CLOSED:
		out("FAULT double close of descriptor %d", fd);
		break;
	case FD_OWNED:
		out("FAULT close of descriptor %d that a peer owns", fd);
		break;
	default:
		out("FAULT close of descriptor %d that was never opened", fd);
		break;
	}
	errno = EBADF;
	return -1;
}

/* ------------------------------------------------------------------ script parsing */

static int hexval(int c)
{
	if (c >= '0' && c <= '9') return c - '0';
	if (c >= 'a' && c <= 'f') return c - 'a' + 10;
	if (c >= 'A' && c <= 'F') return c - 'A' + 10;
	return -1;
}

static int parse_hex(const char *s, unsigned char *dst, int max)
{
	if (strcmp(s, "-") == 0) {
		return 0;
	}
	int n = 0;
	while (s[0] && s[1]) {
		int a = hexval(s[0]), b = hexval(s[1]);
		if (a < 0 || b < 0 || n >= max) return -1;
		dst[n++] = (unsigned char)(a * 16 + b);
		s += 2;
	}
	return s[0] ? -1 : n;
}

static int parse_answer(char *tok, struct answer *a)
{
	memset(a, 0, sizeof(*a));
	if (tok[0] == 'E') {
		a->err = atoi(tok + 1);
		return 0;
	}
	if (tok[0] != 'C') {
		return -1;
	}
	char *f[5];
	int n = 0;
	char *p = tok + 1;
	f[n++] = p;
	while (*p && n < 5) {
		if (*p == ':') {
			*p = 0;
			f[n++] = p + 1;
		}
		p++;
	}
	if (n != 5) {
		return -1;
	}
	a->is_conn = 1;
	a->fd = atoi(f[0]);
	a->fam = atoi(f[1]);
	a->sa_len = parse_hex(f[2], a->sa, (int)sizeof(struct sockaddr_storage) - (int)sizeof(sa_family_t));
	a->gsfam = atoi(f[3]);
	if (a->sa_len < 0 || strlen(f[4]) >= sizeof(a->faults)) {
		return -1;
	}
	strcpy(a->faults, strcmp(f[4], "-") == 0 ? "" : f[4]);
	return 0;
}

static enum eventloop_return accept_null(struct io_event *ev)
{
	return accept_common(ev, NULL);
}

static struct io_event *make_listener(const char *kind, int l)
{
	struct io_event *ev;
	memset(&http_srv, 0, sizeof(http_srv));
	memset(&jet_srv, 0, sizeof(jet_srv));
	memset(&plain_ev, 0, sizeof(plain_ev));
	if (strcmp(kind, "http") == 0) {
		ev = &http_srv.ev;
		ev->read_function = accept_http;
		ev->error_function = accept_http_error;
	} else if (strcmp(kind, "jet") == 0) {
		ev = &jet_srv.ev;
		ev->read_function = accept_jet;
		ev->error_function = accept_jet_error;
	} else {
		ev = &plain_ev;
		ev->read_function = accept_null;
		ev->error_function = accept_jet_error;
	}
	ev->write_function = NULL;
	ev->loop = &loop;
	ev->sock = l;
	listener = l;
	if (l >= 0 && l < MAXFD) {
		fdst[l] = FD_LISTEN;
		touch(l);
	}
	cur_kind = kind;
	return ev;
}

static void end_op(void)
{
	resolve_connection("at the end of the call");
	for (int i = 0; i < n_touched; i++) {
		fdst[touched[i]] = FD_NEVER;
	}
	n_touched = 0;
	for (int i = 0; i < n_owned; i++) {
		free(owned_ptrs[i]);
	}
	n_owned = 0;
	n_answers = next_answer = accept_calls = 0;
	listener = -1;
	out("END");
	flush_all();
}

static char line[1 << 20];

int main(void)
{
	__sanitizer_set_death_callback(flush_all);
	loop.this_ptr = &loop;
	loop.add = loop_add;
	loop.remove = loop_remove;

	while (fgets(line, sizeof(line), stdin) != NULL) {
		char *save = NULL;
		char *op = strtok_r(line, " \t\r\n", &save);
		if (op == NULL || op[0] == '#') {
			continue;
		}
		if (strcmp(op, "call") == 0 || strcmp(op, "start") == 0) {
			int is_start = strcmp(op, "start") == 0;
			char *kind = strtok_r(NULL, " \t\r\n", &save);
			char *ls = strtok_r(NULL, " \t\r\n", &save);
			char *as = is_start ? strtok_r(NULL, " \t\r\n", &save) : "1";
			if (kind == NULL || ls == NULL || as == NULL ||
			    (strcmp(kind, "jet") != 0 && strcmp(kind, "http") != 0 && strcmp(kind, "null") != 0)) {
				out("ERROR bad %s", op);
				out("END");
				continue;
			}
			n_answers = 0;
			int bad = 0;
			char *tok;
			while ((tok = strtok_r(NULL, " \t\r\n", &save)) != NULL) {
				if (n_answers >= MAXANS || parse_answer(tok, &answers[n_answers]) < 0) {
					bad = 1;
					break;
				}
				n_answers++;
			}
			if (bad) {
				out("ERROR bad %s", op);
				n_answers = 0;
				out("END");
				continue;
			}
			add_ok = atoi(as) != 0;
			struct io_event *ev = make_listener(kind, atoi(ls));
			if (setjmp(spin_jmp) == 0) {
				if (is_start) {
					int r = start_server(ev);
					out("START ret=%d", r);
				} else {
					enum eventloop_return r = ev->read_function(ev);
					out("RET %s used=%d", r == EL_CONTINUE_LOOP ? "continue" : r == EL_ABORT_LOOP ? "abort" : "other", next_answer);
				}
			}
			end_op();
		} else if (strcmp(op, "stop") == 0) {
			char *ls = strtok_r(NULL, " \t\r\n", &save);
			if (ls == NULL) {
				out("ERROR bad stop");
				out("END");
				continue;
			}
			struct io_event *ev = make_listener("jet", atoi(ls));
			stop_server(ev);
			if (ev->sock >= 0 && ev->sock < MAXFD && fdst[ev->sock] != FD_CLOSED) {
				out("FAULT leak: listener %d not closed by stop_server", (int)ev->sock);
			}
			end_op();
		} else if (strcmp(op, "islocal") == 0) {
			char *fs = strtok_r(NULL, " \t\r\n", &save);
			char *hs = strtok_r(NULL, " \t\r\n", &save);
			struct sockaddr_storage st;
			unsigned char sa[sizeof(st)];
			int n = (fs && hs) ? parse_hex(hs, sa, (int)sizeof(st) - (int)sizeof(sa_family_t)) : -1;
			if (n < 0) {
				out("ERROR bad islocal");
				out("END");
				continue;
			}
			memset(&st, 0, sizeof(st));
			st.ss_family = (sa_family_t)atoi(fs);
			memcpy((unsigned char *)&st + sizeof(sa_family_t), sa, (size_t)n);
			out("LOCAL %d", is_localhost(&st) ? 1 : 0);
			out("END");
			flush_all();
		} else {
			out("ERROR unknown op");
			out("END");
		}
	}
	flush_all();
	return 0;
}
