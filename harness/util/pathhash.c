/* prints "<bucket> <name>" for candidate path names, using the tree's own string hash (hashtable.h) at the configured
 * element table order: lets the scenario generators choose paths that share a bucket or fill a run of buckets */
#include <stdio.h>
#include <stdlib.h>
#include <string.h>
#include "generated/cjet_config.h"
#include "hashtable.h"

DECLARE_HASHTABLE_STRING(probe, CONFIG_ELEMENT_TABLE_ORDER, 1U)

void *cjet_malloc(size_t n) { return malloc(n); }
void cjet_free(void *p) { free(p); }

int main(int argc, char **argv)
{
	long n = argc > 1 ? atol(argv[1]) : 100000;
	const char *prefix = argc > 2 ? argv[2] : "h/";
	char name[64];
	for (long i = 0; i < n; i++) {
		snprintf(name, sizeof name, "%s%ld", prefix, i);
		printf("%u %s\n", (unsigned)hash_func_probe_string(name), name);
	}
	return 0;
}
