/*
 * simk — the whole cjet daemon on a simulated kernel (harness H2 of /verif/DESIGN.md).
 *
 * Every cjet source file except posix/main.c is linked against this file with
 * -Wl,--wrap=<libc call> for the calls listed at the bottom of vlib/simk.py.  main() does what
 * posix/main.c does and calls the real run_io(); the "kernel" is a deterministic interpreter
 * of a script read from stdin.  All scheduling happens inside the fake epoll_wait().
 *
 * Script (one command per line; a leading '+' defers delivery: the command only changes kernel
 * state, a later EPOLL composes the batch):
 *   CONNECT <jet|http|uds> <local4|remote4|local6|mapped6|remote6|unix>   new connection c<N>
 *   IN c<N> <hex> [k1,k2,...]      bytes arrive; optional read sizes (0 = one would-block, then a new event)
 *   EOF c<N> | RST c<N>            orderly shutdown / read error after the queued bytes
 *   ERR c<N>                       EPOLLERR|EPOLLHUP event for the connection
 *   WMODE c<N> <all|eagain|err|k1,k2,...[:all|eagain|err]>   what successive writev calls accept
 *   WRITABLE c<N>                  EPOLLOUT event
 *   ACCEPTFAIL <jet|http|uds> <errno>     next accept on that listener fails
 *   ADVANCE <ns>                   virtual clock; expired timers become readable (one batch, creation order)
 *   EPOLL <h>:<IN|OUT|INOUT|ERR|HUP|INHUP> ...   explicit batch (h = c<N> | t<N> | l<jet|http|uds>)
 *   ALLOCFAIL <n>                  the n-th allocation from now fails (1 = next)
 *   EPCTLFAIL <n>                  the n-th EPOLL_CTL_ADD from now fails with ENOSPC
 *   TIMERFAIL <n>                  the n-th timerfd_create from now fails with EMFILE
 *   JUNK <byte>                    fill pattern for fresh allocations
 *   REPLY c<N> <k> <hex>           c<N> answers the k-th routed request it received: {"id":<that id>,<member text>}
 *   REPLY c<N> <k1,k2,..> <hex> [arr]   the same answer for several requests (or one, with "arr") as ONE JSON array
 *   QUIESCE                        snapshot of daemon state
 *   TERM                           SIGTERM
 * Observation log on stdout (see vlib/simk.py for the parser).
 */
#include <errno.h>
#include <fcntl.h>
#include <netinet/in.h>
#include <signal.h>
#include <stdarg.h>
#include <stdbool.h>
#include <stdint.h>
#include <stdio.h>
#include <stdlib.h>
#include <string.h>
#include <sys/epoll.h>
#include <sys/socket.h>
#include <sys/timerfd.h>
#include <sys/uio.h>
#include <sys/un.h>
#include <unistd.h>

#include "alloc.h"
#include "socket.h"
#include "authenticate.h"
#include "cmdline_config.h"
#include "element.h"
#include "eventloop.h"
#include "fetch.h"
#include "generated/cjet_config.h"
#include "generated/os_config.h"
#include "hashtable.h"
#include "jet_random.h"
DECLARE_HASHTABLE_STRING(simk_tab, CONFIG_ROUTING_TABLE_ORDER, 1)
#include "linux/eventloop_epoll.h"
#include "linux/linux_io.h"
#include "list.h"
#include "parse.h"
#include "peer.h"
#include "router.h"
#include "table.h"
#include "json/cJSON.h"

#define FD_BASE 1000
#define MAX_FD 4000
#define EPFD 999

enum kind { K_NONE, K_LISTENER, K_CONN, K_TIMER };
enum wmode { W_ALL, W_EAGAIN, W_ERR };

struct chunk { size_t n; };

struct simfd {
	enum kind kind;
	bool open;
	bool ever;
	int handle; /* c<N> / t<N> / listener index */
	/* epoll registration */
	bool registered;
	uint32_t interest;      /* events asked for at EPOLL_CTL_ADD / MOD */
	void *data_ptr;
	/* connection */
	bool is_http;
	int family; /* AF_INET6 / AF_UNIX */
	struct sockaddr_storage origin;
	uint8_t *in;
	size_t in_len, in_pos;
	size_t *chunks;
	size_t n_chunks, chunk_pos;
	bool eof, rst;
	enum wmode wmode, wmode_after;
	size_t *budget;
	size_t n_budget, budget_pos;
	/* listener */
	int pending[64];
	int n_pending;
	int accept_errno;
	/* timer */
	bool armed;
	unsigned long long deadline;
	bool expired;
};

static struct simfd fds[MAX_FD];
static int next_fd = FD_BASE;
static int n_conns = 0, n_timers = 0;
static int conn_fd[2000];
static int timer_fd_of[2000];
static int listener_fd[3] = {-1, -1, -1}; /* jet, http, uds */
static int n_inet6_listeners = 0;
static unsigned long long now_ns = 0;
static bool epoll_open = false;
static int last_fd_event = -1;

static long alloc_fail_in = 0;
static long epctl_fail_in = 0;
static long timer_fail_in = 0;     /* TIMERFAIL <n>: the n-th timerfd_create from now fails with EMFILE */
extern void __sanitizer_print_stack_trace(void);
static int junk_byte = -1;
static unsigned long n_allocs = 0;

static char **script;
static int script_len, script_pos;
static size_t heap_baseline;
static bool baseline_taken = false;
static bool terminated = false;

extern void *__real_malloc(size_t);
extern void *__real_calloc(size_t, size_t);
extern void *__real_realloc(void *, size_t);

static const char *ep_names[3] = {"jet", "http", "uds"};

static void out(const char *fmt, ...)
{
	va_list ap;
	va_start(ap, fmt);
	vfprintf(stdout, fmt, ap);
	va_end(ap);
	fputc('\n', stdout);
	fflush(stdout);
}

static void hex(char *dst, const uint8_t *p, size_t n)
{
	static const char d[] = "0123456789abcdef";
	if (n == 0) {
		strcpy(dst, "-");
		return;
	}
	for (size_t i = 0; i < n; i++) {
		dst[2 * i] = d[p[i] >> 4];
		dst[2 * i + 1] = d[p[i] & 15];
	}
	dst[2 * n] = 0;
}

static char *hexdup(const void *p, size_t n)
{
	char *s = __real_malloc(2 * n + 2);
	hex(s, p, n);
	return s;
}

static struct simfd *sim(int fd)
{
	if (fd >= FD_BASE && fd < MAX_FD) return &fds[fd];
	return NULL;
}

static const char *hname(int fd)
{
	static char buf[4][32];
	static int r = 0;
	char *b = buf[r++ & 3];
	struct simfd *s = sim(fd);
	if (fd == EPFD) { strcpy(b, "ep"); return b; }
	if (!s || !s->ever) { snprintf(b, 32, "fd%d", fd); return b; }
	switch (s->kind) {
	case K_CONN: snprintf(b, 32, "c%d", s->handle); break;
	case K_TIMER: snprintf(b, 32, "t%d", s->handle); break;
	case K_LISTENER: snprintf(b, 32, "l%s", ep_names[s->handle]); break;
	default: snprintf(b, 32, "fd%d", fd);
	}
	return b;
}

static int new_fd(enum kind k)
{
	if (next_fd >= MAX_FD) { out("FATAL out of simulated fds"); exit(3); }
	int fd = next_fd++;
	memset(&fds[fd], 0, sizeof(fds[fd]));
	fds[fd].kind = k;
	fds[fd].open = true;
	fds[fd].ever = true;
	return fd;
}

/* returns the simfd if usable, else logs a hygiene fault */
static struct simfd *use(int fd, const char *what)
{
	struct simfd *s = sim(fd);
	if (!s || !s->ever) {
		out("FAULT %s on foreign descriptor %d", what, fd);
		return NULL;
	}
	if (!s->open) {
		out("FAULT %s on closed descriptor %s", what, hname(fd));
		return NULL;
	}
	return s;
}


/* ids of routed requests seen on each connection (raw escaped JSON string content), for REPLY */
#define MAX_ROUTED 256
static char *routed_ids[2000][MAX_ROUTED];
static int n_routed[2000];

static void note_routed(int fd, const uint8_t *frame, size_t len)
{
	struct simfd *s = sim(fd);
	if (!s || s->kind != K_CONN || s->handle < 0 || s->handle >= 2000) return;
	/* skip the transport header: raw = 4 bytes; websocket = 2, 4 or 10 bytes (server frames are unmasked) */
	size_t off;
	if (s->is_http) {
		if (len < 2) return;
		unsigned l7 = frame[1] & 0x7f;
		off = l7 == 126 ? 4 : (l7 == 127 ? 10 : 2);
	} else off = 4;
	static const char pre[] = "{\"id\":\"";
	if (len < off + sizeof(pre) - 1 || memcmp(frame + off, pre, sizeof(pre) - 1) != 0) return;
	size_t i = off + sizeof(pre) - 1, start = i;
	while (i < len && frame[i] != '"') { if (frame[i] == '\\') i++; i++; }
	if (i >= len) return;
	static const char meth[] = "\",\"method\":";
	if (i + sizeof(meth) - 1 > len || memcmp(frame + i, meth, sizeof(meth) - 1) != 0) return;
	int c = s->handle;
	if (n_routed[c] >= MAX_ROUTED) return;
	char *id = __real_malloc(i - start + 1);
	memcpy(id, frame + start, i - start);
	id[i - start] = 0;
	routed_ids[c][n_routed[c]++] = id;
}

/* ------------------------------------------------------------------ wrapped libc */

extern ssize_t __real_read(int, void *, size_t);
extern int __real_close(int);
extern ssize_t __real_writev(int, const struct iovec *, int);

static int in_harness = 0; /* allocations made by the harness itself (snapshots) are neither counted nor failed */

static bool alloc_should_fail(void)
{
	if (in_harness) return false;
	n_allocs++;
	if (alloc_fail_in > 0) {
		if (--alloc_fail_in == 0) {
			out("ALLOCFAILED n=%lu", n_allocs);
			fprintf(stderr, "ALLOCFAILED-STACK-BEGIN\n");
			__sanitizer_print_stack_trace();
			fprintf(stderr, "ALLOCFAILED-STACK-END\n");
			return true;
		}
	}
	return false;
}

void *__wrap_malloc(size_t n)
{
	if (alloc_should_fail()) return NULL;
	void *p = __real_malloc(n);
	if (p && junk_byte >= 0) memset(p, junk_byte, n);
	return p;
}

void *__wrap_calloc(size_t a, size_t b)
{
	if (alloc_should_fail()) return NULL;
	return __real_calloc(a, b);
}

void *__wrap_realloc(void *p, size_t n)
{
	if (alloc_should_fail()) return NULL;
	return __real_realloc(p, n);
}

void __wrap_syslog(int pri, const char *fmt, ...)
{
	char buf[512];
	va_list ap;
	va_start(ap, fmt);
	vsnprintf(buf, sizeof(buf), fmt, ap);
	va_end(ap);
	char *h = hexdup(buf, strlen(buf));
	out("LOG %d %s", pri, h);
	free(h);
}

int __wrap_socket(int domain, int type, int protocol)
{
	(void)type; (void)protocol;
	int fd = new_fd(K_LISTENER);
	int idx;
	if (domain == AF_UNIX) idx = 2;
	else idx = (n_inet6_listeners++ == 0) ? 0 : 1;
	fds[fd].handle = idx;
	fds[fd].family = domain;
	listener_fd[idx] = fd;
	out("SOCKET l%s", ep_names[idx]);
	return fd;
}

int __wrap_setsockopt(int fd, int level, int optname, const void *optval, socklen_t optlen)
{
	(void)optlen;
	if (!use(fd, "setsockopt")) { errno = EBADF; return -1; }
	if (level == SOL_SOCKET && optname == SO_LINGER && optval != NULL) {
		const struct linger *lg = optval;
		if (lg->l_onoff && lg->l_linger > 0) {
			/* with this option close() sleeps (also on a non-blocking socket) while unsent data is queued for a
			 * peer that does not read: the single-threaded daemon would stand still for every other connection */
			out("FAULT lingering close requested on %s (%d s): close() blocks on a slow reader", hname(fd), lg->l_linger);
		}
	}
	return 0;
}

int __wrap_bind(int fd, const struct sockaddr *addr, socklen_t len)
{
	(void)addr; (void)len;
	if (!use(fd, "bind")) { errno = EBADF; return -1; }
	return 0;
}

int __wrap_listen(int fd, int backlog)
{
	(void)backlog;
	if (!use(fd, "listen")) { errno = EBADF; return -1; }
	return 0;
}

int __wrap_fcntl(int fd, int cmd, ...)
{
	if (!use(fd, "fcntl")) { errno = EBADF; return -1; }
	if (cmd == F_GETFL) return 0;
	return 0;
}

int __wrap_getsockname(int fd, struct sockaddr *addr, socklen_t *len)
{
	struct simfd *s = use(fd, "getsockname");
	if (!s) { errno = EBADF; return -1; }
	struct sockaddr_storage ss;
	memset(&ss, 0, sizeof(ss));
	ss.ss_family = s->family;
	memcpy(addr, &ss, *len < sizeof(ss) ? *len : sizeof(ss));
	return 0;
}

int __wrap_unlink(const char *path)
{
	(void)path;
	return 0;
}

int __wrap_daemon(int a, int b)
{
	(void)a; (void)b;
	return 0;
}

int __wrap_epoll_create(int size)
{
	(void)size;
	epoll_open = true;
	return EPFD;
}

int __wrap_epoll_ctl(int epfd, int op, int fd, struct epoll_event *ev)
{
	if (epfd != EPFD || !epoll_open) {
		out("FAULT epoll_ctl on descriptor %d which is not the epoll instance (op=%d target=%s)", epfd == EPFD ? EPFD : -1, op, hname(fd));
		errno = EBADF;
		return -1;
	}
	struct simfd *s = use(fd, "epoll_ctl");
	if (!s) { errno = EBADF; return -1; }
	if (op == EPOLL_CTL_ADD) {
		if (epctl_fail_in > 0 && --epctl_fail_in == 0) {
			out("EPCTLFAILED %s", hname(fd));
			errno = ENOSPC;
			return -1;
		}
		if (s->registered) { errno = EEXIST; return -1; }
		s->registered = true;
		s->data_ptr = ev->data.ptr;
		s->interest = ev->events;
		out("EPCTL add %s", hname(fd));
	} else if (op == EPOLL_CTL_DEL) {
		if (!s->registered) { out("FAULT epoll_ctl DEL of unregistered %s", hname(fd)); errno = ENOENT; return -1; }
		s->registered = false;
		out("EPCTL del %s", hname(fd));
	} else {
		s->data_ptr = ev->data.ptr;
		s->interest = ev->events;
	}
	return 0;
}

int __wrap_close(int fd)
{
	if (fd == EPFD) {
		if (!epoll_open) out("FAULT close of closed epoll descriptor");
		epoll_open = false;
		out("CLOSE ep");
		return 0;
	}
	struct simfd *s = sim(fd);
	if (!s) {
		if (fd <= 2 || fd >= MAX_FD || fd < 0) { out("FAULT close of foreign descriptor %d", fd); errno = EBADF; return -1; }
		return __real_close(fd); /* a real file (credential file) */
	}
	if (!s->ever) { out("FAULT close of foreign descriptor %d", fd); errno = EBADF; return -1; }
	if (!s->open) { out("FAULT double close of %s", hname(fd)); errno = EBADF; return -1; }
	s->open = false;
	s->registered = false; /* the kernel drops the registration with the last close */
	s->armed = false;
	out("CLOSE %s", hname(fd));
	return 0;
}

int __wrap_accept(int lfd, struct sockaddr *addr, socklen_t *len)
{
	struct simfd *l = use(lfd, "accept");
	if (!l || l->kind != K_LISTENER) { errno = EBADF; return -1; }
	if (l->accept_errno) {
		errno = l->accept_errno;
		out("ACCEPTERR l%s errno=%d", ep_names[l->handle], l->accept_errno);
		l->accept_errno = 0;
		return -1;
	}
	if (l->n_pending == 0) { errno = EAGAIN; return -1; }
	int fd = l->pending[0];
	memmove(l->pending, l->pending + 1, sizeof(int) * (--l->n_pending));
	struct simfd *c = &fds[fd];
	c->open = true;
	memcpy(addr, &c->origin, *len < sizeof(c->origin) ? *len : sizeof(c->origin));
	last_fd_event = fd;
	out("ACCEPT c%d on l%s", c->handle, ep_names[l->handle]);
	return fd;
}

ssize_t __wrap_read(int fd, void *buf, size_t count)
{
	struct simfd *s = sim(fd);
	if (!s) return __real_read(fd, buf, count);
	s = use(fd, "read");
	if (!s) { errno = EBADF; return -1; }
	last_fd_event = fd;
	if (s->kind == K_TIMER) {
		if (s->expired && count >= 8) {
			uint64_t one = 1;
			memcpy(buf, &one, 8);
			s->expired = false;
			out("R %s timer", hname(fd));
			return 8;
		}
		errno = EAGAIN;
		return -1;
	}
	if (s->kind != K_CONN) { errno = EBADF; return -1; }
	size_t avail = s->in_len - s->in_pos;
	if (avail > 0) {
		size_t lim = avail;
		if (s->chunk_pos < s->n_chunks) {
			size_t c = s->chunks[s->chunk_pos];
			if (c == 0) {
				s->chunk_pos++;
				out("R %s asked=%zu got=EAGAIN", hname(fd), count);
				errno = EAGAIN;
				return -1;
			}
			if (c < lim) lim = c;
		}
		size_t n = lim < count ? lim : count;
		if (count == 0) { out("FAULT read of zero bytes on %s", hname(fd)); return 0; }
		memcpy(buf, s->in + s->in_pos, n);
		s->in_pos += n;
		if (s->chunk_pos < s->n_chunks) {
			if (n >= s->chunks[s->chunk_pos]) s->chunk_pos++;
			else s->chunks[s->chunk_pos] -= n;
		}
		out("R %s asked=%zu got=%zu", hname(fd), count, n);
		return (ssize_t)n;
	}
	if (s->rst) {
		out("R %s asked=%zu got=ERR", hname(fd), count);
		errno = ECONNRESET;
		return -1;
	}
	if (s->eof) {
		out("R %s asked=%zu got=EOF", hname(fd), count);
		return 0;
	}
	out("R %s asked=%zu got=EAGAIN", hname(fd), count);
	errno = EAGAIN;
	return -1;
}

ssize_t __wrap_writev(int fd, const struct iovec *iov, int cnt)
{
	struct simfd *s = sim(fd);
	if (!s) return __real_writev(fd, iov, cnt);
	s = use(fd, "writev");
	if (!s || s->kind != K_CONN) { errno = EBADF; return -1; }
	size_t total = 0;
	for (int i = 0; i < cnt; i++) total += iov[i].iov_len;
	size_t take = total;
	enum wmode m = s->wmode;
	if (s->budget_pos < s->n_budget) {
		size_t b = s->budget[s->budget_pos++];
		if (b == 0) m = W_EAGAIN;
		else { m = W_ALL; if (b < take) take = b; }
		if (s->budget_pos == s->n_budget) s->wmode = s->wmode_after;
	}
	if (m == W_EAGAIN) { out("W %s asked=%zu ret=EAGAIN", hname(fd), total); errno = EAGAIN; return -1; }
	if (m == W_ERR) {
		out("W %s asked=%zu ret=ERR", hname(fd), total);
		/* as the kernel: a write to a connection whose peer is gone raises SIGPIPE unless the process ignores it */
		struct sigaction sa;
		if (sigaction(SIGPIPE, NULL, &sa) == 0 && sa.sa_handler != SIG_IGN) {
			out("SIGPIPE raised by the write to %s (disposition is not SIG_IGN)", hname(fd));
			fflush(stdout);
			raise(SIGPIPE);
		}
		errno = EPIPE;
		return -1;
	}
	uint8_t *flat = __real_malloc(total + 1);
	size_t o = 0;
	for (int i = 0; i < cnt; i++) { if (iov[i].iov_len) memcpy(flat + o, iov[i].iov_base, iov[i].iov_len); o += iov[i].iov_len; }
	char *h = hexdup(flat, take);
	out("W %s asked=%zu ret=%zu %s", hname(fd), total, take, h);
	free(h);
	free(flat);
	return (ssize_t)take;
}

int __wrap_timerfd_create(int clockid, int flags)
{
	(void)clockid; (void)flags;
	if (timer_fail_in > 0 && --timer_fail_in == 0) {
		out("TIMERFAILED");
		errno = EMFILE;
		return -1;
	}
	int fd = new_fd(K_TIMER);
	fds[fd].handle = n_timers;
	timer_fd_of[n_timers++] = fd;
	out("TIMER %s create", hname(fd));
	return fd;
}

int __wrap_timerfd_settime(int fd, int flags, const struct itimerspec *nv, struct itimerspec *ov)
{
	(void)flags;
	struct simfd *s = use(fd, "timerfd_settime");
	if (!s || s->kind != K_TIMER) { errno = EBADF; return -1; }
	if (ov != NULL) {
		/* old value: the time left until the next expiration, zero for a timer that is disarmed or has run down */
		unsigned long long left = (s->armed && s->deadline > now_ns) ? s->deadline - now_ns : 0;
		memset(ov, 0, sizeof(*ov));
		ov->it_value.tv_sec = (time_t)(left / 1000000000ULL);
		ov->it_value.tv_nsec = (long)(left % 1000000000ULL);
	}
	if (nv->it_value.tv_nsec < 0 || nv->it_value.tv_nsec >= 1000000000L || nv->it_value.tv_sec < 0) {
		out("TIMER %s set invalid sec=%ld nsec=%ld", hname(fd), (long)nv->it_value.tv_sec, (long)nv->it_value.tv_nsec);
		errno = EINVAL;
		return -1;
	}
	unsigned long long v = (unsigned long long)nv->it_value.tv_sec * 1000000000ULL + (unsigned long long)nv->it_value.tv_nsec;
	if (v == 0) {
		s->armed = false;
		s->expired = false;
		out("TIMER %s disarm", hname(fd));
	} else {
		s->armed = true;
		s->expired = false;
		s->deadline = now_ns + v;
		out("TIMER %s set %llu", hname(fd), v);
	}
	return 0;
}

/* observation of every send: buffered_socket_writev is reached through function pointers that were
 * initialised from other translation units, so --wrap sees them */
extern int __real_buffered_socket_writev(void *this_ptr, struct socket_io_vector *io_vec, unsigned int count);
int __wrap_buffered_socket_writev(void *this_ptr, struct socket_io_vector *io_vec, unsigned int count)
{
	int fd = *(int *)this_ptr; /* struct buffered_socket begins with io_event whose first member is sock */
	size_t total = 0;
	for (unsigned int i = 0; i < count; i++) total += io_vec[i].iov_len;
	uint8_t *flat = __real_malloc(total + 1);
	size_t o = 0;
	for (unsigned int i = 0; i < count; i++) { if (io_vec[i].iov_len) memcpy(flat + o, io_vec[i].iov_base, io_vec[i].iov_len); o += io_vec[i].iov_len; }
	char *h = hexdup(flat, total);
	note_routed(fd, flat, total);
	free(flat);
	/* the frame is logged before the call: a close inside the call must not hide it */
	struct simfd *s = sim(fd);
	bool was_open = s && s->open;
	int ret = __real_buffered_socket_writev(this_ptr, io_vec, count);
	out("SEND %s ret=%d open=%d %s", hname(fd), ret, was_open ? 1 : 0, h);
	free(h);
	return ret;
}

/* HTTP front door observability (C13): every call of the real http-parser and every handler lookup */
#include "http-parser/http_parser.h"
#include "http_server.h"
extern size_t __real_http_parser_execute(http_parser *parser, const http_parser_settings *settings, const char *data, size_t len);
size_t __wrap_http_parser_execute(http_parser *parser, const http_parser_settings *settings, const char *data, size_t len)
{
	size_t n = __real_http_parser_execute(parser, settings, data, len);
	out("HPE %s len=%zu nparsed=%zu upgrade=%d method=%d http=%d.%d errno=%d", hname(last_fd_event), len, n, parser->upgrade ? 1 : 0,
	    (int)parser->method, (int)parser->http_major, (int)parser->http_minor, (int)parser->http_errno);
	return n;
}

extern const struct url_handler *__real_find_url_handler(const struct http_server *server, const char *url, size_t url_length);
const struct url_handler *__wrap_find_url_handler(const struct http_server *server, const char *url, size_t url_length)
{
	const struct url_handler *h = __real_find_url_handler(server, url, url_length);
	out("URLHANDLER %s found=%d", hname(last_fd_event), h != NULL);
	return h;
}

extern int __real_init_peer(struct peer *p, bool is_local_connection, struct eventloop *loop);
int __wrap_init_peer(struct peer *p, bool is_local_connection, struct eventloop *loop)
{
	int ret = __real_init_peer(p, is_local_connection, loop);
	out("PEER %s %p local=%d ret=%d", hname(last_fd_event), (void *)p, is_local_connection ? 1 : 0, ret);
	return ret;
}

/* ------------------------------------------------------------------ snapshots */

static void snapshot_inner(const char *tag);

static void snapshot(const char *tag)
{
	in_harness++;
	snapshot_inner(tag);
	in_harness--;
}

static void snapshot_inner(const char *tag)
{
	char line[256];
	size_t heap = cjet_get_alloc_size();
	printf("%s peers=%d heap=%ld fds=", tag, get_number_of_peers(), (long)heap - (long)heap_baseline);
	int first = 1;
	for (int fd = FD_BASE; fd < next_fd; fd++)
		if (fds[fd].open && fds[fd].kind != K_LISTENER) {
			printf("%s%s", first ? "" : ",", hname(fd));
			first = 0;
		}
	if (first) printf("-");
	printf(" armed=");
	first = 1;
	for (int t = 0; t < n_timers; t++) {
		struct simfd *s = &fds[timer_fd_of[t]];
		if (s->open && s->armed) { printf("%st%d@%llu", first ? "" : ",", t, s->deadline); first = 0; }
	}
	if (first) printf("-");
#ifdef SIMK_NO_INTERNALS
	/* built without access to the daemon's structures (their declarations changed): counters only */
	printf(" now=%llu allocs=%lu internals=0\n", now_ns, n_allocs);
	(void)line;
	(void)first;
	fflush(stdout);
	return;
#else
	printf(" now=%llu allocs=%lu\n", now_ns, n_allocs);
	(void)line;
	if (strcmp(tag, "SNAP") != 0) { fflush(stdout); return; }
	const struct list_head *pl = get_peer_list();
	const struct list_head *it;
	for (it = pl->next; it != pl; it = it->next) {
		const struct peer *p = list_entry(it, struct peer, next_peer);
		char *nm = p->name ? hexdup(p->name, strlen(p->name)) : NULL;
		char *un = p->user_name ? hexdup(p->user_name, strlen(p->user_name)) : NULL;
		printf("SNAPPEER %p name=%s user=%s local=%d groups=%u,%u,%u elements=", (void *)p, nm ? nm : "~", un ? un : "~",
		       p->is_local_connection ? 1 : 0, (unsigned)p->fetch_groups, (unsigned)p->set_groups, (unsigned)p->call_groups);
		free(nm);
		free(un);
		const struct list_head *e;
		first = 1;
		for (e = p->element_list.next; e != &p->element_list; e = e->next) {
			const struct element *el = list_entry(e, struct element, element_list);
			char *ph = hexdup(el->path, strlen(el->path));
			printf("%s%s", first ? "" : ",", ph);
			free(ph);
			first = 0;
		}
		if (first) printf("~");
		printf(" fetches=");
		first = 1;
		for (e = p->fetch_list.next; e != &p->fetch_list; e = e->next) {
			const struct fetch *f = list_entry(e, struct fetch, next_fetch);
			char *js = cJSON_PrintUnformatted(f->fetch_id);
			char *jh = js ? hexdup(js, strlen(js)) : NULL;
			printf("%s%s", first ? "" : ",", jh ? jh : "?");
			if (js) cjet_free(js);
			free(jh);
			first = 0;
		}
		if (first) printf("~");
		printf(" routes=");
		first = 1;
		const struct hashtable_string *tab = p->routing_table;
		for (unsigned i = 0; tab && i < (1u << CONFIG_ROUTING_TABLE_ORDER); i++) {
			if (tab[i].key != (char *)HASHTABLE_INVALIDENTRY) {
				char *kh = hexdup(tab[i].key, strlen(tab[i].key));
				printf("%s%u:%s", first ? "" : ",", i, kh);
				free(kh);
				first = 0;
			}
		}
		if (first) printf("~");
		printf("\n");
		for (e = p->element_list.next; e != &p->element_list; e = e->next) {
			const struct element *el = list_entry(e, struct element, element_list);
			char *ph = hexdup(el->path, strlen(el->path));
			char *js = el->value ? cJSON_PrintUnformatted(el->value) : NULL;
			char *jh = js ? hexdup(js, strlen(js)) : NULL;
			printf("SNAPELEM %s owner=%p value=%s flags=%d timeout=%llu groups=%u,%u,%u fetchers=", ph, (void *)el->peer, jh ? jh : "~",
			       el->flags, (unsigned long long)el->timeout_nsec, (unsigned)el->fetch_groups, (unsigned)el->set_groups, (unsigned)el->call_groups);
			first = 1;
			for (unsigned i = 0; i < el->fetch_table_size; i++) {
				const struct fetch *f = el->fetcher_table[i];
				if (f) {
					char *fs = cJSON_PrintUnformatted(f->fetch_id);
					char *fh = fs ? hexdup(fs, strlen(fs)) : NULL;
					printf("%s%u:%p:%s", first ? "" : ",", i, (void *)f->peer, fh ? fh : "?");
					if (fs) cjet_free(fs);
					free(fh);
					first = 0;
				}
			}
			if (first) printf("~");
			printf(" tablesize=%u\n", el->fetch_table_size);
			if (js) cjet_free(js);
			free(jh);
			free(ph);
		}
	}
	fflush(stdout);
#endif
}

/* ------------------------------------------------------------------ script interpreter */

static int parse_handle(const char *s, char *kind)
{
	*kind = s[0];
	if (s[0] == 'l') {
		for (int i = 0; i < 3; i++)
			if (strcmp(s + 1, ep_names[i]) == 0) return i;
		return -1;
	}
	return atoi(s + 1);
}

static int fd_of_handle(const char *h)
{
	char k;
	int n = parse_handle(h, &k);
	if (n < 0) return -1;
	if (k == 'c') return n < n_conns ? conn_fd[n] : -1;
	if (k == 't') return n < n_timers ? timer_fd_of[n] : -1;
	if (k == 'l') return listener_fd[n];
	return -1;
}

static size_t unhex(const char *h, uint8_t **outp)
{
	if (strcmp(h, "-") == 0) { *outp = __real_malloc(1); return 0; }
	size_t n = strlen(h) / 2;
	uint8_t *b = __real_malloc(n + 1);
	for (size_t i = 0; i < n; i++) {
		unsigned v;
		sscanf(h + 2 * i, "%2x", &v);
		b[i] = (uint8_t)v;
	}
	*outp = b;
	return n;
}

static size_t parse_list(const char *s, size_t **outp)
{
	size_t n = 1;
	for (const char *p = s; *p; p++) if (*p == ',') n++;
	size_t *v = __real_malloc(sizeof(size_t) * n);
	size_t i = 0;
	char *dup = strdup(s), *save = NULL;
	for (char *tok = strtok_r(dup, ",", &save); tok; tok = strtok_r(NULL, ",", &save)) v[i++] = strtoull(tok, NULL, 10);
	free(dup);
	*outp = v;
	return i;
}

static void set_origin(struct simfd *c, const char *origin)
{
	memset(&c->origin, 0, sizeof(c->origin));
	if (strcmp(origin, "unix") == 0) {
		/* accept on an AF_UNIX listener fills a sockaddr_un (unnamed client: family only) */
		c->origin.ss_family = AF_UNIX;
		c->family = AF_UNIX;
		return;
	}
	c->family = AF_INET6;
	if (strcmp(origin, "local4") == 0 || strcmp(origin, "remote4") == 0) {
		/* plain AF_INET peers appear when the daemon binds v4 sockets (bind_local_only) */
		struct sockaddr_in *a = (struct sockaddr_in *)&c->origin;
		a->sin_family = AF_INET;
		a->sin_port = htons(40000);
		uint8_t l[4] = {127, 0, 0, 1}, r[4] = {192, 168, 1, 7};
		memcpy(&a->sin_addr, strcmp(origin, "local4") == 0 ? l : r, 4);
		return;
	}
	struct sockaddr_in6 *a = (struct sockaddr_in6 *)&c->origin;
	a->sin6_family = AF_INET6;
	a->sin6_port = htons(40000);
	uint8_t *b = a->sin6_addr.s6_addr;
	if (strcmp(origin, "local6") == 0) b[15] = 1;
	else if (strcmp(origin, "mapped6") == 0) { b[10] = 0xff; b[11] = 0xff; b[12] = 127; b[15] = 1; }
	else if (strcmp(origin, "mappedremote6") == 0) { b[10] = 0xff; b[11] = 0xff; b[12] = 10; b[15] = 9; }
	else { b[0] = 0x20; b[1] = 0x01; b[15] = 7; } /* remote6 */
}

struct batch_item { int fd; uint32_t events; };
static struct batch_item batch[64];
static int batch_n = 0;
static int carry_n = 0;
static struct batch_item carry[64];

static void batch_add(int fd, uint32_t ev)
{
	if (batch_n < 64) { batch[batch_n].fd = fd; batch[batch_n].events = ev; batch_n++; }
}

/* executes one script line; returns true if a batch is ready to be delivered */
static bool exec_line(char *line)
{
	bool defer = false;
	if (line[0] == '+') { defer = true; line++; }
	char *save = NULL;
	char *cmd = strtok_r(line, " \t\r\n", &save);
	if (!cmd || cmd[0] == '#') return false;
	char *a1 = strtok_r(NULL, " \t\r\n", &save);
	char *a2 = strtok_r(NULL, " \t\r\n", &save);
	char *a3 = strtok_r(NULL, " \t\r\n", &save);
	if (strcmp(cmd, "CONNECT") == 0 && a1 && a2) {
		int ep = -1;
		for (int i = 0; i < 3; i++) if (strcmp(a1, ep_names[i]) == 0) ep = i;
		if (ep < 0 || listener_fd[ep] < 0) { out("BADCMD no listener %s", a1); return false; }
		int fd = new_fd(K_CONN);
		fds[fd].open = false; /* not a daemon descriptor before accept() returns it */
		fds[fd].handle = n_conns;
		conn_fd[n_conns++] = fd;
		set_origin(&fds[fd], a2);
		fds[fd].is_http = (ep == 1);
		struct simfd *l = &fds[listener_fd[ep]];
		if (l->n_pending < 64) l->pending[l->n_pending++] = fd;
		if (!defer) batch_add(listener_fd[ep], EPOLLIN);
		return !defer;
	}
	if (strcmp(cmd, "REPLY") == 0 && a1 && a2 && a3) {
		/* REPLY c<N> <k> <hex of member text>: the owner's answer to the k-th routed request it received */
		int fd0 = fd_of_handle(a1);
		int kk = atoi(a2);
		if (fd0 < 0) { out("BADCMD %s", a1); return false; }
		int cn = fds[fd0].handle;
		/* <k> may be a comma separated list: the answers are then sent as ONE JSON array; a single <k> followed by the
		 * word "arr" gives an array with one element */
		int ks[16], nks = 0;
		for (const char *q = a2; *q && nks < 16;) {
			ks[nks++] = atoi(q);
			q = strchr(q, ',');
			if (!q) break;
			q++;
		}
		char *a4 = strtok_r(NULL, " \t\r\n", &save);
		bool as_array = nks > 1 || (a4 && strcmp(a4, "arr") == 0);
		for (int i = 0; i < nks; i++) {
			if (ks[i] < 0 || ks[i] >= n_routed[cn]) { out("NOREPLY c%d %d", cn, ks[i]); return false; }
		}
		uint8_t *member;
		size_t mlen = unhex(a3, &member);
		size_t tlen = 4;
		for (int i = 0; i < nks; i++) tlen += 7 + strlen(routed_ids[cn][ks[i]]) + 2 + mlen + 2;
		uint8_t *text = __real_malloc(tlen + 16);
		size_t o = 0;
		if (as_array) text[o++] = '[';
		for (int i = 0; i < nks; i++) {
			const char *id = routed_ids[cn][ks[i]];
			if (i) text[o++] = ',';
			memcpy(text + o, "{\"id\":\"", 7); o += 7;
			memcpy(text + o, id, strlen(id)); o += strlen(id);
			memcpy(text + o, "\",", 2); o += 2;
			memcpy(text + o, member, mlen); o += mlen;
			text[o++] = '}';
		}
		if (as_array) text[o++] = ']';
		free(member);
		uint8_t *frame = __real_malloc(o + 16);
		size_t fl = 0;
		if (fds[fd0].is_http) {
			static const uint8_t mask[4] = {0x11, 0x22, 0x33, 0x44};
			frame[fl++] = 0x81;
			if (o <= 125) frame[fl++] = 0x80 | (uint8_t)o;
			else { frame[fl++] = 0x80 | 126; frame[fl++] = (uint8_t)(o >> 8); frame[fl++] = (uint8_t)o; }
			memcpy(frame + fl, mask, 4); fl += 4;
			for (size_t i = 0; i < o; i++) frame[fl++] = text[i] ^ mask[i & 3];
		} else {
			frame[fl++] = (uint8_t)(o >> 24); frame[fl++] = (uint8_t)(o >> 16); frame[fl++] = (uint8_t)(o >> 8); frame[fl++] = (uint8_t)o;
			memcpy(frame + fl, text, o); fl += o;
		}
		char *th = hexdup(text, o);
		out("REPLYTEXT c%d %d %s", cn, kk, th);
		free(th);
		free(text);
		struct simfd *s = &fds[fd0];
		size_t rest = s->in_len - s->in_pos;
		uint8_t *nb = __real_malloc(rest + fl + 1);
		if (rest) memcpy(nb, s->in + s->in_pos, rest);
		memcpy(nb + rest, frame, fl);
		free(frame);
		free(s->in);
		s->in = nb;
		s->in_len = rest + fl;
		s->in_pos = 0;
		if (!defer && s->open) batch_add(fd0, EPOLLIN);
		return !defer && s->open;
	}
	if (strcmp(cmd, "IN") == 0 && a1 && a2) {
		int fd = fd_of_handle(a1);
		if (fd < 0) { out("BADCMD %s", a1); return false; }
		struct simfd *s = &fds[fd];
		uint8_t *b;
		size_t n = unhex(a2, &b);
		/* append to unread input */
		size_t rest = s->in_len - s->in_pos;
		uint8_t *nb = __real_malloc(rest + n + 1);
		if (rest) memcpy(nb, s->in + s->in_pos, rest);
		memcpy(nb + rest, b, n);
		free(b);
		free(s->in);
		s->in = nb;
		s->in_len = rest + n;
		s->in_pos = 0;
		if (s->chunk_pos >= s->n_chunks) { free(s->chunks); s->chunks = NULL; s->n_chunks = s->chunk_pos = 0; }
		if (a3) {
			size_t *extra;
			size_t ne = parse_list(a3, &extra);
			size_t keep = s->n_chunks - s->chunk_pos;
			size_t *nc = __real_malloc(sizeof(size_t) * (keep + ne + 1));
			if (keep) memcpy(nc, s->chunks + s->chunk_pos, sizeof(size_t) * keep);
			memcpy(nc + keep, extra, sizeof(size_t) * ne);
			free(extra);
			free(s->chunks);
			s->chunks = nc;
			s->n_chunks = keep + ne;
			s->chunk_pos = 0;
		}
		if (!defer && s->open) batch_add(fd, EPOLLIN);
		return !defer && s->open;
	}
	if ((strcmp(cmd, "EOF") == 0 || strcmp(cmd, "RST") == 0) && a1) {
		int fd = fd_of_handle(a1);
		if (fd < 0) { out("BADCMD %s", a1); return false; }
		if (cmd[0] == 'E') fds[fd].eof = true; else fds[fd].rst = true;
		if (!defer && fds[fd].open) batch_add(fd, EPOLLIN);
		return !defer && fds[fd].open;
	}
	if (strcmp(cmd, "ERR") == 0 && a1) {
		int fd = fd_of_handle(a1);
		if (fd < 0) { out("BADCMD %s", a1); return false; }
		fds[fd].rst = true;
		if (!defer && fds[fd].open) batch_add(fd, EPOLLERR | EPOLLHUP);
		return !defer && fds[fd].open;
	}
	if (strcmp(cmd, "WMODE") == 0 && a1 && a2) {
		int fd = fd_of_handle(a1);
		if (fd < 0) { out("BADCMD %s", a1); return false; }
		struct simfd *s = &fds[fd];
		free(s->budget);
		s->budget = NULL;
		s->n_budget = s->budget_pos = 0;
		if (strcmp(a2, "all") == 0) s->wmode = W_ALL;
		else if (strcmp(a2, "eagain") == 0) s->wmode = W_EAGAIN;
		else if (strcmp(a2, "err") == 0) s->wmode = W_ERR;
		else {
			char *colon = strchr(a2, ':');
			s->wmode_after = W_ALL;
			if (colon) {
				*colon = 0;
				if (strcmp(colon + 1, "eagain") == 0) s->wmode_after = W_EAGAIN;
				else if (strcmp(colon + 1, "err") == 0) s->wmode_after = W_ERR;
			}
			s->n_budget = parse_list(a2, &s->budget);
		}
		return false;
	}
	if (strcmp(cmd, "WRITABLE") == 0 && a1) {
		int fd = fd_of_handle(a1);
		if (fd < 0) { out("BADCMD %s", a1); return false; }
		if (!defer && fds[fd].open) batch_add(fd, EPOLLOUT);
		return !defer && fds[fd].open;
	}
	if (strcmp(cmd, "ACCEPTFAIL") == 0 && a1 && a2) {
		int ep = -1;
		for (int i = 0; i < 3; i++) if (strcmp(a1, ep_names[i]) == 0) ep = i;
		if (ep < 0 || listener_fd[ep] < 0) { out("BADCMD no listener %s", a1); return false; }
		fds[listener_fd[ep]].accept_errno = atoi(a2);
		if (!defer) batch_add(listener_fd[ep], EPOLLIN);
		return !defer;
	}
	if (strcmp(cmd, "ADVANCE") == 0 && a1) {
		now_ns += strtoull(a1, NULL, 10);
		bool any = false;
		for (int t = 0; t < n_timers; t++) {
			struct simfd *s = &fds[timer_fd_of[t]];
			if (s->open && s->armed && s->deadline <= now_ns) {
				s->armed = false;
				s->expired = true;
				out("EXPIRE t%d", t);
				if (!defer && s->registered) { batch_add(timer_fd_of[t], EPOLLIN); any = true; }
			}
		}
		return any;
	}
	if (strcmp(cmd, "EPOLL") == 0) {
		char *items[16];
		int n = 0;
		if (a1) items[n++] = a1;
		if (a2) items[n++] = a2;
		if (a3) items[n++] = a3;
		char *tok;
		while (n < 16 && (tok = strtok_r(NULL, " \t\r\n", &save))) items[n++] = tok;
		for (int i = 0; i < n; i++) {
			char *colon = strchr(items[i], ':');
			if (!colon) continue;
			*colon = 0;
			int fd = fd_of_handle(items[i]);
			uint32_t ev = 0;
			if (strcmp(colon + 1, "IN") == 0) ev = EPOLLIN;
			else if (strcmp(colon + 1, "OUT") == 0) ev = EPOLLOUT;
			else if (strcmp(colon + 1, "INOUT") == 0) ev = EPOLLIN | EPOLLOUT;
			else if (strcmp(colon + 1, "ERR") == 0) ev = EPOLLERR | EPOLLHUP;
			else if (strcmp(colon + 1, "HUP") == 0) ev = EPOLLHUP;                 /* orderly hang-up, nothing to read flagged */
			else if (strcmp(colon + 1, "INHUP") == 0) ev = EPOLLIN | EPOLLHUP;       /* data and hang-up in one event (unix sockets) */
			if (fd < 0 || !fds[fd].open || !fds[fd].registered) { out("BADBATCH %s not registered", items[i]); continue; }
			batch_add(fd, ev);
		}
		return batch_n > 0;
	}
	if (strcmp(cmd, "ALLOCFAIL") == 0 && a1) { alloc_fail_in = atol(a1); return false; }
	if (strcmp(cmd, "EPCTLFAIL") == 0 && a1) { epctl_fail_in = atol(a1); return false; }
	if (strcmp(cmd, "TIMERFAIL") == 0 && a1) { timer_fail_in = atol(a1); return false; }
	if (strcmp(cmd, "JUNK") == 0 && a1) { junk_byte = atoi(a1) & 255; return false; }
	if (strcmp(cmd, "QUIESCE") == 0) { snapshot("SNAP"); return false; }
	if (strcmp(cmd, "TERM") == 0) { terminated = true; return false; }
	out("BADCMD %s", cmd);
	return false;
}

int __wrap_epoll_wait(int epfd, struct epoll_event *events, int maxevents, int timeout)
{
	(void)timeout;
	if (epfd != EPFD || !epoll_open) { out("FAULT epoll_wait on %d", epfd); errno = EBADF; return -1; }
	if (!baseline_taken) {
		heap_baseline = cjet_get_alloc_size();
		baseline_taken = true;
		snapshot("BASE");
	}
	while (1) {
		if (terminated || (script_pos >= script_len && carry_n == 0)) {
			terminated = true;
			out("STEP %d TERM", script_pos);
			snapshot("PRETERM");
			raise(SIGTERM);
			errno = EINTR;
			return -1;
		}
		bool ready;
		if (carry_n > 0) {
			/* ready descriptors that did not fit into the caller's event array last time are reported now,
			 * before the next script line (as the kernel's ready list would) */
			batch_n = carry_n;
			memcpy(batch, carry, sizeof(batch[0]) * (size_t)carry_n);
			carry_n = 0;
			ready = true;
		} else {
			char *line = strdup(script[script_pos]);
			out("STEP %d %s", script_pos, script[script_pos]);
			script_pos++;
			batch_n = 0;
			ready = exec_line(line);
			free(line);
		}
		if (terminated) continue;
		if (ready && batch_n > 0) {
			int n = 0;
			for (int i = 0; i < batch_n; i++) {
				struct simfd *s = &fds[batch[i].fd];
				if (!s->open || !s->registered) { out("DROPPED event for %s (not registered)", hname(batch[i].fd)); continue; }
				if (n >= maxevents) {
					if (carry_n < 64) carry[carry_n++] = batch[i];
					continue;
				}
				/* as the kernel: a peer that has shut down its side reports EPOLLRDHUP to whoever asked for it, and only
				 * conditions the registration asked for (plus error and hang-up, which cannot be masked) are reported */
				uint32_t evs = batch[i].events;
				if (s->eof && (s->interest & EPOLLRDHUP)) evs |= EPOLLRDHUP;
				evs &= (s->interest | EPOLLERR | EPOLLHUP);
				if (evs == 0) continue;
				events[n].events = evs;
				events[n].data.ptr = s->data_ptr;
				n++;
			}
			if (n == 0) continue;
			printf("BATCH");
			for (int i = 0; i < batch_n; i++) printf(" %s:%x", hname(batch[i].fd), batch[i].events);
			if (carry_n > 0) printf(" (last %d carried over to the next wait)", carry_n);
			printf("\n");
			fflush(stdout);
			return n;
		}
	}
}

/* ------------------------------------------------------------------ main: what posix/main.c does */

int main(int argc, char **argv)
{
	setvbuf(stdout, NULL, _IOFBF, 1 << 16);
	struct cmdline_config config = {
	    .run_foreground = true,
	    .bind_local_only = false,
	    .user_name = NULL,
	    .passwd_file = NULL,
	    .request_target = "/api/jet/",
	};
	for (int i = 1; i < argc; i++) {
		if (strcmp(argv[i], "-p") == 0 && i + 1 < argc) config.passwd_file = argv[++i];
		else if (strcmp(argv[i], "-l") == 0) config.bind_local_only = true;
	}
	/* read the script */
	size_t cap = 1024;
	script = __real_malloc(sizeof(char *) * cap);
	char *lineb = NULL;
	size_t ln = 0;
	while (getline(&lineb, &ln, stdin) > 0) {
		if ((size_t)script_len == cap) { cap *= 2; script = __real_realloc(script, sizeof(char *) * cap); }
		size_t l = strlen(lineb);
		while (l && (lineb[l - 1] == '\n' || lineb[l - 1] == '\r')) lineb[--l] = 0;
		script[script_len++] = strdup(lineb);
	}
	free(lineb);

	if (init_random() < 0) { out("FATAL random source"); return 2; }
	init_parser();
	if (load_passwd_data(config.passwd_file) < 0) { out("FATAL cannot load password file"); return 2; }
	signal(SIGPIPE, SIG_IGN);
	if (element_hashtable_create() == -1) { out("FATAL element table"); return 2; }
	struct eventloop_epoll eloop = {
	    .epoll_fd = 0,
	    .loop = {
	        .this_ptr = &eloop,
	        .init = eventloop_epoll_init,
	        .destroy = eventloop_epoll_destroy,
	        .run = eventloop_epoll_run,
	        .add = eventloop_epoll_add,
	        .remove = eventloop_epoll_remove,
	    },
	};
	int ret = run_io(&eloop.loop, &config);
	out("RUNIO ret=%d steps_done=%d of %d", ret, script_pos, script_len);
	snapshot("FINAL");
	element_hashtable_delete();
	free_passwd_data();
	close_random();
	out("EXIT heap_total=%zu", cjet_get_alloc_size());
	return 0;
}
