#!/usr/bin/env python3
"""Regenerates /verif/MANIFEST.json from the table below (one entry per property that is claimed).
Run: python3 tools/manifest.py   (validates against the schema when jsonschema is importable)"""
import json
import os
import subprocess
import sys

ROOT = os.path.dirname(os.path.dirname(os.path.abspath(__file__)))

TB = ("Trusted: Lean 4.33 kernel (+leanchecker in the thorough tier); axioms per theorem limited to propext/Classical.choice/"
      "Quot.sound (audited on every run, no native_decide/bv_decide/own axioms); the hand-written Lean model, tied to /repo by the "
      "correspondence harness compiled from the working tree on every run and by constants regenerated from the source; "
      "gcc ASan/UBSan on the C side; the Lean compiler for the driver executable. ")

CLAIMED = {
    # id: (category, text, level_note, technique, design_ref)
    "C16": ("proof",
            "Lean theorems (libc_specs, matcher_spec for all 12 match functions, rule_spec, refusals, repeated_option_key, "
            "matchers_filled) over a loop-level model of fetch.c's matchers and rule parser, for all paths/operands/rule objects; "
            "model tied to the real fetch.c by an exhaustive differential run (every function x ci x adversarial pool^2, all matcher "
            "subsets/orders/option variants) and a matcher table regenerated from the source.",
            TB + "glibc string functions are tied to the modelled loops by exhaustive test, not proof; cJSON's parser is outside the model.",
            "Lean 4 proof over executable model + differential correspondence with the compiled C", "DESIGN.md §6 C16, docs/C16.md"),
}

NOT_YET = "machinery under construction in this round; not yet claimed"


def main():
    props = [json.loads(l) for l in open(os.path.join(ROOT, "properties.jsonl"))]
    checks = []
    for p in props:
        pid = p["id"]
        if pid not in CLAIMED:
            continue
        cat, text, note, tech, ref = CLAIMED[pid]
        checks.append({
            "property_id": pid,
            "quick_cmd": "./check %s --tier quick" % pid,
            "thorough_cmd": "./check %s --tier thorough" % pid,
            "evidence_file": "/verif/evidence/%s.json" % pid,
            "replay_cmd_template": "./check %s --replay {path}" % pid,
            "engine": "lean4-proof+correspondence",
            "level_claimed": {"category": cat, "text": text, "design_ref": ref},
            "level_note": note,
            "technique": tech,
        })
    na = [{"property_id": p["id"], "reason": NOT_YET} for p in props if p["id"] not in CLAIMED]
    m = {
        "version": 1,
        "setup_cmd": "cd /verif && python3 -m vlib.setup",
        "hooks": {
            "guard": "CJET_VERIF",
            "enable": "no source hooks are needed: observation and fault injection are done at link level (-Wl,--wrap of libc calls and of "
                      "buffered_socket_writev/init_peer) or by #include-ing .c files into harness translation units; the guard name is "
                      "recorded for the interface only and appears nowhere in /repo",
            "baseline_off_cmd": "cmake --build /repo/_build && ctest --test-dir /repo/_build -j8 --timeout 900",
            "source_commits": [],
            "add_only": True,
        },
        "engines": [{
            "name": "lean4-proof+correspondence", "path": "/verif/check",
            "serves_properties": [c["property_id"] for c in checks],
            "kind_free_text": "Lean 4 theorems over hand-written executable models (lean/Cjet); models tied to /repo by differential "
                              "correspondence harnesses compiled from the working tree on every run (component harnesses and the whole "
                              "daemon on a simulated kernel) and by constants regenerated from the source (extract/)"}],
        "checks": checks,
        "notes": "See DESIGN.md. A property is claimed only once its proof and its tie are green on the unchanged tree at several seeds.",
        "not_applicable": na,
    }
    with open(os.path.join(ROOT, "MANIFEST.json"), "w") as f:
        json.dump(m, f, indent=1)
    try:
        rc = subprocess.run(["python3-vt", "-c", "import json,jsonschema;jsonschema.validate(json.load(open('%s/MANIFEST.json')),"
                             "json.load(open('/root/.vp/MANIFEST.schema.json')));print('MANIFEST valid, %d checks')" % (ROOT, len(checks))])
    except Exception as ex:
        print("not validated:", ex)


if __name__ == "__main__":
    main()
