#!/usr/bin/env python3
"""Regenerates /verif/MANIFEST.json from the table below (one entry per property that is claimed).
Run: python3 tools/manifest.py   (validates against the schema when jsonschema is importable)"""
import json
import os
import subprocess
import sys

ROOT = os.path.dirname(os.path.dirname(os.path.abspath(__file__)))

TB = ("Trusted: Lean 4.33 kernel (+leanchecker in the thorough tier); axioms per theorem limited to propext/Classical.choice/"
      "Quot.sound (audited on every run, no native_decide/bv_decide/own axioms); the hand-written Lean model, tied to /repo by the "
      "correspondence harness compiled from the working tree on every run and by constants regenerated from the source; "
      "gcc ASan/UBSan on the C side; the Lean compiler for the driver executable. ")

CLAIMED = {
    # id: (category, text, level_note, technique, design_ref)
    "C16": ("proof",
            "Lean theorems (libc_specs, matcher_spec for all 12 match functions, rule_spec, refusals, repeated_option_key, "
            "matchers_filled) over a loop-level model of fetch.c's matchers and rule parser, for all paths/operands/rule objects; "
            "model tied to the real fetch.c by an exhaustive differential run (every function x ci x adversarial pool^2, all matcher "
            "subsets/orders/option variants) and a matcher table regenerated from the source.",
            TB + "glibc string functions are tied to the modelled loops by exhaustive test, not proof; cJSON's parser is outside the model.",
            "Lean 4 proof over executable model + differential correspondence with the compiled C", "DESIGN.md §6 C16, docs/C16.md"),
    "C10": ("proof",
            "Lean theorems (stream_integrity, torn_frame_is_last, order_preserved, no_dup, accepted_frame_is_whole, refusal_is_clean, "
            "dead_is_final, nothing_after_dead, fill_le_cap, copy_in_bounds, send_buffer_terminates, ...) over a transcription of "
            "buffered_socket.c's write side, for every capacity, frame sequence, kernel answer script and interleaving with writability "
            "events; tied to the real buffered_socket.c + posix/socket.c behind a scripted writev: exhaustive product for a small buffer "
            "(fill level x frame shapes x partial-write position x flush follow-ups) and seeded histories at the real size; an independent "
            "monitor evaluates the property on the implementation's byte stream.",
            TB + "The kernel contract (a successful write of n>0 requested bytes returns 1..n) is a stated hypothesis of the termination theorems.",
            "Lean 4 proof over executable model + differential correspondence with the compiled C", "DESIGN.md §6 C10, docs/C10.md"),
    "C18": ("proof",
            "Lean theorems (byte_checker_eq_spec, text_checker_eq_spec, byte_checker_incomplete_eq_prefix, split_irrelevant, "
            "chunks_irrelevant, word_path_eq_byte_path, word64_path_eq_byte_path, auto_aligned_eq, ...) relating a branch-for-branch model "
            "of utf8_checker.c to an RFC 3629 grammar spec for all byte strings, all split points, all words and all alignments; tie: "
            "exhaustive transition table (78 reachable states x 256 bytes) of the real code vs model vs a python RFC automaton, class "
            "products / all 2^32 words (thorough) for the fast paths, masks regenerated from the source.",
            TB + "sizeof(uint_fast16_t) and the buffer address are parameters of the auto-aligned model.",
            "Lean 4 proof over executable model + exhaustive/differential correspondence with the compiled C", "DESIGN.md §6 C18, docs/C18.md"),
    "C20": ("proof",
            "Lean theorems over a model of auth_file.c's change_password decision and write_user_data call sequence on a file-system "
            "model with short writes, errors and crash points: change_authorised, refusal_order, new_authenticates_old_does_not, "
            "other_users_untouched, step_changes_authorised, short_writes_complete, window_holds_prefix_of_new; crash atomicity is FALSE "
            "for the code as it is (truncate-then-write): update_counterexample (decide) + update_crash_atomic_partial outside the window; "
            "that defect (F24) is an open known finding printed on every run. Tie: real auth_file.c with eleven wrapped libc calls, file "
            "snapshot after every call judged by a fresh load_passwd_data; exhaustive caller/target matrix, every crash point and short "
            "write of each update.",
            TB + "crypt is a parameter (verifies its own output; distinct passwords give distinct hashes under one setting); power-loss "
            "(unsynced page) semantics are not simulated. F24 (truncate window) is listed in known_findings.json as open.",
            "Lean 4 proof (+ machine-checked counterexample for the open finding) + differential correspondence with the compiled C",
            "DESIGN.md §6 C20, docs/C20.md"),
    "C04": ("proof",
            "Lean theorems over the daemon model (Cjet.Daemon.Model, a message-level transcription of parse/element/fetch/router/peer.c): "
            "wf_invariant (index and element lists in sync, paths unique, owners consistent) for every reachable state, findElement_iff_abs, "
            "add_spec / add_success_iff, remove_spec, change_spec, set_call_refusals, error_means_unchanged (any request answered with an error "
            "leaves the element abstraction equal), step_elems_only_by_requester_or_close — for all configurations, histories, JSON values and "
            "oracle values. Tie: the whole daemon (every cjet source file except main.c) linked against a simulated kernel (-Wl,--wrap) runs generated and directed sessions under ASan/UBSan; the Lean daemon model runs the same message-level operations (send results and table refusals observed on the implementation are its oracle inputs); outputs per connection, closes, timer operations and the full state image at every quiescent point (peers, elements, values, fetcher tables, routing tables) must agree; a python reference finite map judges add/remove/change outcomes on the implementation's own responses.",
            TB + "cJSON parse/print are outside the model; refusals of the hopscotch path index are an oracle input (C17 characterises them).",
            "Lean 4 proof over executable model + differential correspondence with the compiled daemon", "DESIGN.md §6 C04, docs/C04-proofs.md"),
    "C09": ("proof",
            "Lean theorems over a model of buffered_socket.c's reader and its clients (raw length/message framing, line reader, WebSocket header "
            "reader): deliveries_eq_spec (for every client, capacity, initial fill and every event list the observable equals a specification on "
            "the byte stream alone), chunking_irrelevant, prompt, ptrs_in_bounds, raw_framing_spec, raw_zero_skipped, raw_too_long_closes, "
            "raw_message_exact, own_bytes_only, line_spec, line_full_buffer_errors. Tie: the real buffered_socket.c + socket_peer.c over a scripted "
            "socket_read (asked sizes, deliveries, pointers and buffer compared after every event); exhaustive at capacity 6, seeded differential at "
            "512/21/16/8; chunking-independence is also evaluated directly on the real code.",
            TB + "Batching of readiness events across connections is exercised on the whole daemon by the C05/C06 families, not here.",
            "Lean 4 proof over executable model + differential correspondence with the compiled C", "DESIGN.md §6 C09, docs/C09.md"),
    "C12": ("proof",
            "40 Lean theorems over a model of websocket.c (header machine, dispatcher with the daemon's callback set regenerated from source, unmask "
            "fast path, server frame construction, close handshake, handshake decision, base64, executable SHA-1): server_frame_wellformed, "
            "header_spec, segmentation_independent, unmask_fast_eq_bytewise (every alignment/length/key), decode_encode(_masked), pong_echo, the "
            "close-code table (1002/1003/1007/1011 per rule), data_fragments_processed_or_refused, handshake_valid_101, handshake_refusals, "
            "base64_decode_encode, accept_value_rfc6455_sample. Tie: real websocket.c/websocket_peer.c/http_parser/base64/sha1 over a stub reader "
            "and over the real buffered_socket.c; full header matrix (16 opcodes x FIN x RSV x MASK x length forms and boundaries), fragment "
            "sequences, close frames of every status class, handshake permutations; a python RFC 6455 reference judges the implementation's output.",
            TB + "http-parser's tokenisation is an observed oracle (the model consumes the callback sequence the real parser produced); "
            "permessage-deflate negotiation is C19; utf8 validity of close reasons is a parameter tied to the real validator. A request without "
            "Sec-WebSocket-Key/Version is still answered 101 (F32): outside the property as stated, reported in the evidence.",
            "Lean 4 proof over executable model + differential correspondence with the compiled C", "DESIGN.md §6 C12, docs/C12.md"),
    "C17": ("proof",
            "Lean refinement proof for the hopscotch table of hashtable.h, transcribed loop for loop, for every order, key type and hash function "
            "(collisions included): wf_run, get_iff_maps, put_ok, put_full, remove_spec, others_undisturbed, run_refines_map (any operation sequence "
            "from the empty table behaves like an association map), full_reason, full_iff_small (N<=64), no_capacity_loss, sweep_spec. Tie: the "
            "real DECLARE_HASHTABLE_* macros for orders 2..13 and all three key types, complete slot dump compared after every operation; "
            "exhaustive for orders 2-4 over a colliding key universe (breadth-first over slot images), seeded long histories beyond; a python dict "
            "reference judges the implementation.",
            TB + "The lock-free reader claims of the header are not modelled; char is assumed signed in the string hash.",
            "Lean 4 proof (refinement to a finite map) + differential correspondence with the compiled C", "DESIGN.md §6 C17, docs/C17.md"),
}

NOT_YET = "machinery under construction in this round; not yet claimed"


def main():
    props = [json.loads(l) for l in open(os.path.join(ROOT, "properties.jsonl"))]
    checks = []
    for p in props:
        pid = p["id"]
        if pid not in CLAIMED:
            continue
        cat, text, note, tech, ref = CLAIMED[pid]
        checks.append({
            "property_id": pid,
            "quick_cmd": "./check %s --tier quick" % pid,
            "thorough_cmd": "./check %s --tier thorough" % pid,
            "evidence_file": "/verif/evidence/%s.json" % pid,
            "replay_cmd_template": "./check %s --replay {path}" % pid,
            "engine": "lean4-proof+correspondence",
            "level_claimed": {"category": cat, "text": text, "design_ref": ref},
            "level_note": note,
            "technique": tech,
        })
    na = [{"property_id": p["id"], "reason": NOT_YET} for p in props if p["id"] not in CLAIMED]
    m = {
        "version": 1,
        "setup_cmd": "cd /verif && python3 -m vlib.setup",
        "hooks": {
            "guard": "CJET_VERIF",
            "enable": "no source hooks are needed: observation and fault injection are done at link level (-Wl,--wrap of libc calls and of "
                      "buffered_socket_writev/init_peer) or by #include-ing .c files into harness translation units; the guard name is "
                      "recorded for the interface only and appears nowhere in /repo",
            "baseline_off_cmd": "cmake --build /repo/_build && ctest --test-dir /repo/_build -j8 --timeout 900",
            "source_commits": [],
            "add_only": True,
        },
        "engines": [{
            "name": "lean4-proof+correspondence", "path": "/verif/check",
            "serves_properties": [c["property_id"] for c in checks],
            "kind_free_text": "Lean 4 theorems over hand-written executable models (lean/Cjet); models tied to /repo by differential "
                              "correspondence harnesses compiled from the working tree on every run (component harnesses and the whole "
                              "daemon on a simulated kernel) and by constants regenerated from the source (extract/)"}],
        "checks": checks,
        "notes": "See DESIGN.md. A property is claimed only once its proof and its tie are green on the unchanged tree at several seeds.",
        "not_applicable": na,
    }
    with open(os.path.join(ROOT, "MANIFEST.json"), "w") as f:
        json.dump(m, f, indent=1)
    try:
        rc = subprocess.run(["python3-vt", "-c", "import json,jsonschema;jsonschema.validate(json.load(open('%s/MANIFEST.json')),"
                             "json.load(open('/root/.vp/MANIFEST.schema.json')));print('MANIFEST valid, %d checks')" % (ROOT, len(checks))])
    except Exception as ex:
        print("not validated:", ex)


if __name__ == "__main__":
    main()
