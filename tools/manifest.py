#!/usr/bin/env python3
"""Regenerates /verif/MANIFEST.json from the table below (one entry per property that is claimed).
Run: python3 tools/manifest.py   (validates against the schema when jsonschema is importable)"""
import json
import os
import subprocess
import sys

ROOT = os.path.dirname(os.path.dirname(os.path.abspath(__file__)))

TB = ("Trusted: Lean 4.33 kernel (+leanchecker in the thorough tier); axioms per theorem limited to propext/Classical.choice/"
      "Quot.sound (audited on every run, no native_decide/bv_decide/own axioms); the hand-written Lean model, tied to /repo by the "
      "correspondence harness compiled from the working tree on every run and by constants regenerated from the source; "
      "gcc ASan/UBSan on the C side; the Lean compiler for the driver executable. ")

DAEMON_TIE = ("Tie: the whole daemon (every cjet source file except main.c) linked against a simulated kernel (-Wl,--wrap) runs generated "
              "and directed sessions over raw, local-socket and WebSocket connections under ASan/UBSan; the Lean daemon model runs the same "
              "message-level operations (send results and table refusals observed on the implementation are its oracle inputs); messages per "
              "connection, closes, timer operations and the full state image at every quiescent point (peers, elements, values, fetcher "
              "tables, routing tables) must agree. ")
DAEMON_NOTE = ("cJSON parse/print are outside the model (messages enter it as JSON values); refusals of the hopscotch tables and the result of "
               "every send are oracle inputs of the model (theorems quantify over all of them; C17 and C10 characterise the real ones). ")

CLAIMED = {
    # id: (category, text, level_note, technique, design_ref)
    "C16": ("proof",
            "Lean theorems (libc_specs, matcher_spec for all 12 match functions, rule_spec, refusals, repeated_option_key, "
            "matchers_filled) over a loop-level model of fetch.c's matchers and rule parser, for all paths/operands/rule objects; "
            "model tied to the real fetch.c by an exhaustive differential run (every function x ci x adversarial pool^2, all matcher "
            "subsets/orders/option variants) and a matcher table regenerated from the source.",
            TB + "glibc string functions are tied to the modelled loops by exhaustive test, not proof; cJSON's parser is outside the model.",
            "Lean 4 proof over executable model + differential correspondence with the compiled C", "DESIGN.md §6 C16, docs/C16.md"),
    "C10": ("proof",
            "Lean theorems (stream_integrity, torn_frame_is_last, order_preserved, no_dup, accepted_frame_is_whole, refusal_is_clean, "
            "dead_is_final, nothing_after_dead, fill_le_cap, copy_in_bounds, send_buffer_terminates, ...) over a transcription of "
            "buffered_socket.c's write side, for every capacity, frame sequence, kernel answer script and interleaving with writability "
            "events; tied to the real buffered_socket.c + posix/socket.c behind a scripted writev: exhaustive product for a small buffer "
            "(fill level x frame shapes x partial-write position x flush follow-ups) and seeded histories at the real size; an independent "
            "monitor evaluates the property on the implementation's byte stream.",
            TB + "The kernel contract (a successful write of n>0 requested bytes returns 1..n) is a stated hypothesis of the termination theorems.",
            "Lean 4 proof over executable model + differential correspondence with the compiled C", "DESIGN.md §6 C10, docs/C10.md"),
    "C18": ("proof",
            "Lean theorems (byte_checker_eq_spec, text_checker_eq_spec, byte_checker_incomplete_eq_prefix, split_irrelevant, "
            "chunks_irrelevant, word_path_eq_byte_path, word64_path_eq_byte_path, auto_aligned_eq, ...) relating a branch-for-branch model "
            "of utf8_checker.c to an RFC 3629 grammar spec for all byte strings, all split points, all words and all alignments; tie: "
            "exhaustive transition table (78 reachable states x 256 bytes) of the real code vs model vs a python RFC automaton, class "
            "products / all 2^32 words (thorough) for the fast paths, masks regenerated from the source.",
            TB + "sizeof(uint_fast16_t) and the buffer address are parameters of the auto-aligned model.",
            "Lean 4 proof over executable model + exhaustive/differential correspondence with the compiled C", "DESIGN.md §6 C18, docs/C18.md"),
    "C20": ("proof",
            "json_replace_* (Cjet.Cjson.TreeOps, tied to the real cJSON.c by the cjsontree harness): cJSON_ReplaceItemInObject — the call change_password swaps the password member with — replaces the first answering member in place; with its key copy unchecked (cJSON 1.7.13 as shipped) a failed allocation stripped the member's name and lost the password (finding F69, repaired; the code as repaired changes nothing on failure). Lean theorems over a model of auth_file.c's change_password decision and write_user_data call sequence on a file-system "
            "model with short writes, errors and crash points: change_authorised, refusal_order, new_authenticates_old_does_not, "
            "other_users_untouched, step_changes_authorised, short_writes_complete, window_holds_prefix_of_new; crash atomicity is FALSE "
            "for the code as it is (truncate-then-write): update_counterexample (decide) + update_crash_atomic_partial outside the window; "
            "that defect (F24) is an open known finding printed on every run. Tie: real auth_file.c with eleven wrapped libc calls, file "
            "snapshot after every call judged by a fresh load_passwd_data; exhaustive caller/target matrix, every crash point and short "
            "write of each update.",
            TB + "crypt is a parameter (verifies its own output; distinct passwords give distinct hashes under one setting); power-loss "
            "(unsynced page) semantics are not simulated. F24 (truncate window) is listed in known_findings.json as open.",
            "Lean 4 proof (+ machine-checked counterexample for the open finding) + differential correspondence with the compiled C",
            "DESIGN.md §6 C20, docs/C20.md"),
    "C04": ("proof",
            "Lean theorems over the daemon model (Cjet.Daemon.Model, a message-level transcription of parse/element/fetch/router/peer.c): "
            "wf_invariant (index and element lists in sync, paths unique, owners consistent) for every reachable state, findElement_iff_abs, "
            "add_spec / add_success_iff, remove_spec, change_spec, set_call_refusals, error_means_unchanged (any request answered with an error "
            "leaves the element abstraction equal), step_elems_only_by_requester_or_close — for all configurations, histories, JSON values and "
            "oracle values. Tie: the whole daemon (every cjet source file except main.c) linked against a simulated kernel (-Wl,--wrap) runs generated and directed sessions under ASan/UBSan; the Lean daemon model runs the same message-level operations (send results and table refusals observed on the implementation are its oracle inputs); outputs per connection, closes, timer operations and the full state image at every quiescent point (peers, elements, values, fetcher tables, routing tables) must agree; a python reference finite map judges add/remove/change outcomes on the implementation's own responses.",
            TB + "cJSON parse/print are outside the model; refusals of the hopscotch path index are an oracle input (C17 characterises them).",
            "Lean 4 proof over executable model + differential correspondence with the compiled daemon", "DESIGN.md §6 C04, docs/C04-proofs.md"),
    "C09": ("proof",
            "Lean theorems over a model of buffered_socket.c's reader and its clients (raw length/message framing, line reader, WebSocket header "
            "reader): deliveries_eq_spec (for every client, capacity, initial fill and every event list the observable equals a specification on "
            "the byte stream alone), chunking_irrelevant, prompt, ptrs_in_bounds, raw_framing_spec, raw_zero_skipped, raw_too_long_closes, "
            "raw_message_exact, own_bytes_only, line_spec, line_full_buffer_errors. Tie: the real buffered_socket.c + socket_peer.c over a scripted "
            "socket_read (asked sizes, deliveries, pointers and buffer compared after every event); exhaustive at capacity 6, seeded differential at "
            "512/21/16/8; chunking-independence is also evaluated directly on the real code.",
            TB + "Batching of readiness events across connections is exercised on the whole daemon by the C05/C06 families, not here.",
            "Lean 4 proof over executable model + differential correspondence with the compiled C", "DESIGN.md §6 C09, docs/C09.md"),
    "C12": ("proof",
            "40 Lean theorems over a model of websocket.c (header machine, dispatcher with the daemon's callback set regenerated from source, unmask "
            "fast path, server frame construction, close handshake, handshake decision, base64, executable SHA-1): server_frame_wellformed, "
            "header_spec, segmentation_independent, unmask_fast_eq_bytewise (every alignment/length/key), decode_encode(_masked), pong_echo, the "
            "close-code table (1002/1003/1007/1011 per rule), data_fragments_processed_or_refused, handshake_valid_101, handshake_refusals, "
            "base64_decode_encode, accept_value_rfc6455_sample. Tie: real websocket.c/websocket_peer.c/http_parser/base64/sha1 over a stub reader "
            "and over the real buffered_socket.c; full header matrix (16 opcodes x FIN x RSV x MASK x length forms and boundaries), fragment "
            "sequences, close frames of every status class, handshake permutations; a python RFC 6455 reference judges the implementation's output.",
            TB + "http-parser's tokenisation is an observed oracle (the model consumes the callback sequence the real parser produced); "
            "permessage-deflate negotiation is C19; utf8 validity of close reasons is a parameter tied to the real validator. A request without "
            "Sec-WebSocket-Key/Version is still answered 101 (F32): outside the property as stated, reported in the evidence.",
            "Lean 4 proof over executable model + differential correspondence with the compiled C", "DESIGN.md §6 C12, docs/C12.md"),
    "C17": ("proof",
            "Lean refinement proof for the hopscotch table of hashtable.h, transcribed loop for loop, for every order, key type and hash function "
            "(collisions included): wf_run, get_iff_maps, put_ok, put_full, remove_spec, others_undisturbed, run_refines_map (any operation sequence "
            "from the empty table behaves like an association map), full_reason, full_iff_small (N<=64), no_capacity_loss, sweep_spec. Tie: the "
            "real DECLARE_HASHTABLE_* macros for orders 2..13 and all three key types, complete slot dump compared after every operation; "
            "exhaustive for orders 2-4 over a colliding key universe (breadth-first over slot images), seeded long histories beyond; a python dict "
            "reference judges the implementation.",
            TB + "The lock-free reader claims of the header are not modelled; char is assumed signed in the string hash.",
            "Lean 4 proof (refinement to a finite map) + differential correspondence with the compiled C", "DESIGN.md §6 C17, docs/C17.md"),
    "C01": ("proof",
            "16 Lean theorems over the daemon model: reachable_inv / fetch_table_char (a fetch is in an element's fetcher table iff rule and access "
            "match; no duplicates), groups_stable_while_fetching, step_replica, replica_exact (replaying the notifications of a fetch from its "
            "installation on yields exactly the matching visible elements with their current values, never a spurious event), adds_before_success, "
            "silence_after_unfetch, no_spurious_on_rollback (index-full add: add then remove), order_is_generation_order - for every history, "
            "configuration and oracle. A fetch's lifetime is delimited at request granularity (step_granularity_too_coarse shows why the batch "
            "[fetch, unfetch, fetch] needs that). " + DAEMON_TIE + "Monitor: every subscriber's stream is replayed into a replica and compared at "
            "every quiescent point with the daemon's own element set filtered by a python reference of the rule. Values pass through the daemon by "
            "parse then print: on the component model of the vendored cJSON.c strings and number-free trees survive exactly "
            "(json_string_survives_print_parse, json_tree_survives_print_parse) and a double survives bit for bit given the strtod/sprintf "
            "oracle (code as repaired, F65; counterexample for the code before).",
            TB + DAEMON_NOTE, "Lean 4 proof over executable model + differential correspondence with the compiled daemon", "DESIGN.md §6 C01, docs/C01-proofs.md"),
    "C02": ("proof",
            "23 Lean theorems over the daemon model: response_shape / id_echo (the response id is the request's id, same bytes / same number), "
            "immediate_discipline and immediate_response_count (one request object yields at most one response to its sender, exactly one iff it "
            "has a string/number id and was not routed, none otherwise; others only receive values with a method member), no_response_to_others "
            "(message / disconnect / timer forms: a response reaches another connection only as the relay or shutdown/timeout answer of a routing "
            "record whose requester it is), responses_never_answered, batch_as_sequence (+ step-level corollaries), at_most_one_final_answer "
            "(ledger form). " + DAEMON_TIE + "Monitor: responses are matched one-to-one with the requests of each connection on the implementation's trace.",
            TB + DAEMON_NOTE + "'answered' means handed to the connection's send function (delivery of the bytes is C10).",
            "Lean 4 proof over executable model + differential correspondence with the compiled daemon", "DESIGN.md §6 C02, docs/C02-proofs.md"),
    "C03": ("proof",
            "31 Lean theorems: 26 over the daemon model and 5 over the cJSON tree layer (Cjet.Cjson.TreeOps: cJSON_Duplicate returns the original field for field and child for child at every depth, succeeds whenever its allocations do; GetObjectItem finds the first member equal under ASCII case folding) tied to the real cJSON.c by the cjsontree component harness. Daemon model: routes_wf, rid_unique / rid_fresh (generated ids differ from every in-flight id; hypotheses: "
            "address tokens are non-empty and '_'-free, fewer than 2^32 requests in the run), routed_delivery (exactly one message, to the owner, "
            "path and payload unchanged), entry_stable / resolution_cases (a routing entry is untouched by everything except its own resolvers: "
            "third-party independence), final_answer_reply / _timeout / _shutdown (exactly one answer with the original id, payload unchanged or "
            "the error; none for callers without id), caller_disconnect_purges, late / duplicate replies ignored, refusal_only_when_full. "
            + DAEMON_TIE + "Directed families: bystander disconnects, every order of reply / expiry / owner close / caller close in one epoll batch, "
            "failing delivery to the owner, small routing tables. Monitor: routed messages, final answers and routing-table contents on the trace.",
            TB + DAEMON_NOTE, "Lean 4 proof over executable model + differential correspondence with the compiled daemon", "DESIGN.md §6 C03, docs/C03-proofs.md"),
    "C06": ("proof",
            "PARTIAL by nature: memory safety of C cannot be proved in Lean. Proof part: the index arithmetic of every anchored mechanism as "
            "theorems over the component models (Cjet.Props.C06 lists them: reader pointers in bounds and parser handed exactly its own bytes, "
            "writer fill <= capacity and copy ranges, matcher slots filled / fill index < count / state_matches never faults, WebSocket fragments "
            "and binary frames never call an unset callback, invalid and oversize headers refused, unmask fast path byte-exact, hash table "
            "well-formed for every sequence, log-buffer prefix arithmetic; for the epoll dispatcher (Cjet.Evloop, transcribed from eventloop_epoll.c) "
            "no_call_after_remove within and across batches for every batch, mask and callback behaviour, with a machine-checked counterexample "
            "for the loop before its repair; for the JSON text layer (Cjet.Cjson, transcribed from the vendored cJSON.c) parser reads in bounds "
            "for every byte string, parse_string writes within its allocation, nesting bounded). Component ties: the real eventloop_epoll.c with "
            "really freed io_events and the real cJSON.c on exactly sized buffers, both under ASan, against their models. The rest is SEARCH on the assembled daemon under ASan+UBSan on the "
            "simulated kernel: structured sessions through the model tie with random segmentation, and byte-level chaos on all three endpoints "
            "(valid/mutated/truncated/oversized raw frames, HTTP requests, WebSocket frames of every opcode/flag/length class, random bytes; random "
            "read sizes, interleaving and batch composition) with a bystander connection that must survive and still be served.",
            TB + "http-parser, zlib and sha1 internals are not modelled (cJSON's text layer is; its number conversion is an oracle); "
            "uninitialised reads are only seen where ASan/UBSan see them.",
            "Lean 4 proof of index-safety obligations + sanitizer-backed search on the whole daemon (stated as partial)", "DESIGN.md §6 C06"),
    "C08": ("proof",
            "25 Lean theorems over the daemon model: groups_spec / access_iff_shared_group, peer_groups_from_auth_only (invariant: a peer's group "
            "words are zero or exactly those of the credential record whose password it presented), fresh_peer_has_no_groups (both transports), "
            "failed_auth_changes_nothing, visible_only_shared_group and get_only_shared_group, set_call_only_shared_group / routed_only_if_shared, "
            "unauthenticated_sees_nothing_protected, password_noninterference (outputs depend on comparison verdicts, not on password bytes), "
            "local_only_add, is_localhost_iff; on the component model of the real accept path (Cjet.Accept, byte patterns regenerated from "
            "linux_io.c) local_bit_exact / _other_families / _unix_unnamed / _unix_pathname. " + DAEMON_TIE + "Component tie: the real "
            "is_localhost on every perturbed byte and truncation of the loopback patterns. Families: generated credential files (users x group sets), allocator filling fresh "
            "memory with adversarial patterns (uninitialised group words would be non-zero), local-only-add build. Monitor: visibility / set / call "
            "follow the authenticated user's groups; passwords searched in every byte written and every syslog line.",
            TB + DAEMON_NOTE + "crypt(3) is outside the model (plaintext comparison there; SHA-512 crypt hashes of the same passwords in the file).",
            "Lean 4 proof over executable model + differential correspondence with the compiled daemon", "DESIGN.md §6 C08, docs/C08-proofs.md"),
    "C14": ("proof",
            "17 Lean theorems: deadline_precedence, element_timeout_from_add / _stable, timeout_refusal (set/call and add), itimerspec_exact / "
            "_in_range, one_outcome, reply_after_timeout_ignored, reply_and_expiry_together (both orders), timeout_only_on_fire, and batch_safety "
            "for a model of the repaired handle_events (no dispatched event refers to a registration removed earlier in the same batch, for every "
            "batch and every removal behaviour) with batch_unsafe_original (decide) for the original loop. " + DAEMON_TIE + "The simulated kernel has "
            "a virtual clock and composes epoll batches: timerfd_settime values are compared with the model's, and every order of reply / expiry / "
            "owner close / caller close of one request is harvested in one batch under ASan.",
            TB + DAEMON_NOTE + "'never early' rests on the timerfd contract (the simulated kernel raises a timer only at or after its deadline); the "
            "double->ns conversion is IEEE in both code and executable model and opaque in proofs.",
            "Lean 4 proof over executable model + differential correspondence with the compiled daemon", "DESIGN.md §6 C14, docs/C14-proofs.md"),
    "C19": ("proof",
            "zlib is an ORACLE (not modelled): 23 Lean theorems over the bookkeeping of compression.c, the frame dispatch in front of it and the offer parser of websocket.c: "
            "roundtrip_interleaved_given_zlib / roundtrip_session_interleaved_given_zlib (every cut of the compressed body with ping/pong frames "
            "between the fragments), dispatch_memory_safe, "
            "reassemble_in_bounds (all fragment size sequences), reassemble_in_bounds_iff + counterexample for the original, frames_memory_safe, "
            "tail_roundtrip, outloop_bookkeeping, response_len_le_buffer (any header value), response_params_legal, offer_parse_reads_in_bounds, "
            "compress_never_truncates and compress_no_oob_for_any_zlib_output (no hypothesis on zlib: for every output length the sender sends a "
            "complete message or reports an error), roundtrip_given_zlib and roundtrip_session_given_zlib (hypotheses on the oracle only: output "
            "ends in the sync-flush tail, inflate inverts deflate, output length within deflateBound + flush marker), and the counterexample for "
            "the sender before the repair of F37. "
            "Tie: real compression.c + zlib + negotiation code under ASan: exhaustive fragment-size sequences, every offer subset/order/window, "
            "round trips over payload kinds x sizes x levels x windows x takeover x fragmentations through three receive paths, corrupt streams.",
            TB + "Losslessness rests on zlib (an oracle with three named hypotheses; the round-trip peer uses the same zlib). F23/F36/F37/F38 were "
            "repaired in /repo and run as regressions.",
            "Lean 4 proof of bookkeeping (+ machine-checked counterexamples) + differential correspondence with the compiled C", "DESIGN.md §6 C19, docs/C19.md"),
    "C05": ("proof",
            "12 Lean theorems over the daemon model: closing_steps, disconnect_post (after any step that emits closed c — EOF/error or a message the "
            "daemon rejects — c is gone, no element, index entry, fetcher slot or routing entry refers to it, every request routed to it is answered "
            "exactly once with the shutdown error to its foreign requester, its own in-flight requests are dropped with their timers destroyed), "
            "subscribers_see_remove, others_untouched (every other peer's elements, fetches, groups and routing entries not requested by c are "
            "identical), no_send_to_departed / teardown_never_addresses_leaver / no_send_after_close (over every run nothing is ever sent to a "
            "departed peer). " + DAEMON_TIE + "Families: a victim connection ends at every byte position of length prefix, message, HTTP request "
            "line, header block, WebSocket frame header and payload, by EOF and by reset, while it owns elements, holds a fetch and is caller and "
            "owner of in-flight requests, with snapshots before and after; the harness flags any send on a released connection and ASan any "
            "dangling access. Monitors: state refers to live peers only, others untouched between the two snapshots, replica and routing monitors.",
            TB + DAEMON_NOTE + "At the model's level a peer and its connection have one lifetime; which C object is released first on each "
            "transport's close path is judged by ASan and the harness's released-connection check on the real code.",
            "Lean 4 proof over executable model + differential correspondence with the compiled daemon", "DESIGN.md §6 C05, docs/C05-proofs.md"),
    "C11": ("proof",
            "12 Lean theorems: notify_results_ignored / handlers_results_ignored (post-state and the (target, json) sequence of every notification, "
            "teardown, relay and timeout path do not depend on any send result), parseJsonRpc_independent / fanout_independent (a step depends only on "
            "the results of the response to the requester and of the routed request to the owner), runs_independent / healthy_peers_unaffected (two "
            "runs differing only in send results for a faulty set F give every peer outside F identical messages and equal final states), "
            "answered_exactly_once_under_faults, accept_failure_survived for a model of the repaired accept loop (+ counterexample for the original); "
            "component level: for the real dispatcher (Cjet.Evloop) others_undisturbed, every_entry_gets_its_turn, error masks call only the error "
            "function, abort_stops_everything, eintr_continues; for the real accept loop (Cjet.Accept, errno classes regenerated from linux_io.c) "
            "fatal_class_exact, retry_class_exact, abort_only_on_fatal, listener_survives_transient, retry_class_continues_accepting, "
            "loop_terminates_when_queue_drains. Component ties: real eventloop_epoll.c and real linux_io.c on scripted kernels (every errno, every "
            "single and double fault position) against those models. "
            + DAEMON_TIE + "Families: subscribers whose kernel send path errors, blocks or accepts a few bytes, garbage senders, failing accept "
            "(eight errno values) on every listener. Monitor: each scenario is run twice (faulty / healed) and every healthy peer must receive "
            "identical messages and the element set must be equal; the daemon must still serve at the end.",
            TB + DAEMON_NOTE + "The differential family keeps faulty peers to subscribers/bystanders (a faulty requester or owner legitimately changes "
            "the history; the faulty-owner case is the directed F30 family judged by the C03 monitor).",
            "Lean 4 proof over executable model + differential correspondence with the compiled daemon", "DESIGN.md §6 C11, docs/C11-proofs.md"),
    "C07": ("proof",
            "21 Lean theorems: on the daemon model no_double_destroy, no_double_arm, destroyed_were_created, held_timers_live, timer_ledger (the "
            "timers created and not yet destroyed over the history are exactly those of the stored routing entries), baseline_when_no_peers, "
            "disconnect_all_reaches_baseline, term_releases_all, objects_owned_once, close_releases_exactly; on a model of alloc.c (size_t arithmetic, "
            "cap test as written, OS-failure oracle) cap_respected, accounting_exact, refusal_iff, free_returns_to_baseline; on a model of the accept "
            "path of linux_io.c fd_closed_or_owned_exactly_once, fd_discipline_monitor, no_leak_of_peer_or_bs, init_failure_releases_both, "
            "start_server_unwinds, stop_server_closes_listener (every script of accept results and set-up failures); on a model of run_io's "
            "start-up and shut-down (Cjet.Startup, every configuration and failure script) startup_releases_all_listeners, "
            "startup_failure_releases_all (code as repaired, F66; counterexample for the code before), remove_before_close, "
            "no_use_after_close, startup_success_owns_exactly, shutdown_releases_all, shutdown_order, error_reported. " + DAEMON_TIE +
            "Single-fault enumeration over epoll registrations (every connection and timer registration of the corpus fails in turn; F67). " +
            "Monitor: at every snapshot with all client connections gone and after SIGTERM the accounted heap, peer count, simulated descriptor table "
            "and armed timers must be at baseline and run_io must return 0; the simulated kernel reports every double close, operation on a closed or "
            "foreign descriptor and epoll_ctl on a non-epoll descriptor. Allocator tie: real alloc.c with intercepted malloc/calloc on random scripts "
            "around a small cap.",
            TB + DAEMON_NOTE + "Hypotheses of timer_ledger: '_'-free address tokens, fewer than 2^32 requests per run (a machine-checked counterexample "
            "shows they are needed). LeakSanitizer and the accounted-heap delta measure the real code; the ledger theorems are about the model.",
            "Lean 4 proof over executable models + differential correspondence and resource measurement on the compiled daemon", "DESIGN.md §6 C07, docs/C07-proofs.md"),
    "C15": ("proof",
            "PARTIAL: the C unwinding under allocation failure is ENUMERATED on the real daemon; the proof side carries its logic. 19 Lean theorems "
            "over the acquisition ladders of the creation paths transcribed as data from the C (add of state/method, routed set/call incl. "
            "remove_routing_information on the late failures, fetch creation for all shapes up to 3 matchers x 4 operands and 0-12 single-operand "
            "matchers, fetcher-table growth, raw / HTTP / WebSocket connection set-up): unwind_releases_all (for EVERY failure point the held set "
            "equals the held set before, nothing released twice), at_most_one_response, table_not_left_dangling; the audit rejects the pre-repair "
            "routed-request ladder; startup_goto_ladders_audit / startup_failure_releases_all for the goto ladders of run_io (label for label, "
            "tied to the real linux_io.c by the Startup component harness); json_duplicate_failure_leaks_nothing / json_duplicate_stops_at_first_failure / json_duplicate_children_ledger: cJSON_Duplicate under EVERY schedule of failing allocations gives back all it took and stops at the first failure (Cjet.Cjson.TreeOps, tied to the real cJSON.c: every allocation index of every generated item); json_add_member_failure_changes_nothing / _attaches_last / _conserves_blocks: add_item_to_object changes nothing when its key copy fails and leaves the item with the caller (the shape of F60), otherwise attaches it last with every block accounted for; json_create_string_ledger: cJSON_CreateString returns the item with its two blocks or NULL with none. Tie: single-fault enumeration — every allocation of every corpus scenario (all request types, teardown paths, "
            "authentication, regressions) fails in turn (every index, both tiers) plus multi-fault runs, judged by "
            "ASan/UBSan/LSan, accounted heap, peers, descriptors, two liveness probes and at most one response per request.",
            TB + "The ladder transcriptions are by hand (per-step C line tables in docs/C15-proofs.md); one C allocation does not map one-to-one to a "
            "ladder step (cJSON nodes). Open known finding F60 (unchecked cJSON_AddItemToObject: a failing key copy leaks the item) is printed on every run.",
            "Lean 4 proof of unwinding ladders + single-fault enumeration on the compiled daemon (stated as partial)", "DESIGN.md §6 C15, docs/C15-proofs.md"),
    "C13": ("proof",
            "9 Lean theorems over a lifecycle model of one HTTP connection (descriptor, buffered socket, http_connection and its list membership, "
            "websocket_peer and its registration, routing table, current error handler; every acquiring/releasing/linking C statement is an action, "
            "faults recorded on use of a released object or double release): non_upgrade_leaves_nothing, no_orphan_peer, no_fault_ever, "
            "error_status_or_close, term_releases_all, upgrade_keeps_exactly_one_peer — for all pre-existing peers/connections and all event "
            "sequences — plus decide-checked counterexamples for the three pre-repair versions (F17, F54, F55). Tie: the whole daemon on the "
            "simulated kernel; per connection the event sequence is derived from the log of the real http-parser calls, handler lookups and peer "
            "registrations and run through the model; statuses, order of observable statements, peers / descriptors / heap at every snapshot are "
            "compared; the property is also judged directly (400/404/500 or close, before/after snapshots equal, everything zero after SIGTERM). "
            "Families: every truncation point x EOF/RST, every corruption position, over-long lines, header variants, segmentations, allocation and "
            "epoll_ctl failures on the accept path.",
            TB + "http-parser's tokenisation is an observed oracle; the WebSocket phase after 101 is abstracted to one 'wsEnd' event (C05/C12 cover it).",
            "Lean 4 proof over executable lifecycle model + correspondence with the compiled daemon", "DESIGN.md §6 C13, docs/C13.md"),
}

NOT_YET = "machinery under construction in this round; not yet claimed"


def main():
    props = [json.loads(l) for l in open(os.path.join(ROOT, "properties.jsonl"))]
    checks = []
    for p in props:
        pid = p["id"]
        if pid not in CLAIMED:
            continue
        cat, text, note, tech, ref = CLAIMED[pid]
        checks.append({
            "property_id": pid,
            "quick_cmd": "./check %s --tier quick" % pid,
            "thorough_cmd": "./check %s --tier thorough" % pid,
            "evidence_file": "/verif/evidence/%s.json" % pid,
            "replay_cmd_template": "./check %s --replay {path}" % pid,
            "engine": "lean4-proof+correspondence",
            "level_claimed": {"category": cat, "text": text, "design_ref": ref},
            "level_note": note,
            "technique": tech,
        })
    na = [{"property_id": p["id"], "reason": NOT_YET} for p in props if p["id"] not in CLAIMED]
    m = {
        "version": 1,
        "setup_cmd": "cd /verif && python3 -m vlib.setup",
        "hooks": {
            "guard": "CJET_VERIF",
            "enable": "no source hooks are needed: observation and fault injection are done at link level (-Wl,--wrap of libc calls and of "
                      "buffered_socket_writev/init_peer) or by #include-ing .c files into harness translation units; the guard name is "
                      "recorded for the interface only and appears nowhere in /repo",
            "baseline_off_cmd": "cmake --build /repo/_build && ctest --test-dir /repo/_build -j8 --timeout 900",
            "source_commits": [],
            "add_only": True,
        },
        "engines": [{
            "name": "lean4-proof+correspondence", "path": "/verif/check",
            "serves_properties": [c["property_id"] for c in checks],
            "kind_free_text": "Lean 4 theorems over hand-written executable models (lean/Cjet); models tied to /repo by differential "
                              "correspondence harnesses compiled from the working tree on every run (component harnesses and the whole "
                              "daemon on a simulated kernel) and by constants regenerated from the source (extract/)"}],
        "checks": checks,
        "notes": "See DESIGN.md. A property is claimed only once its proof and its tie are green on the unchanged tree at several seeds.",
        "not_applicable": na,
    }
    with open(os.path.join(ROOT, "MANIFEST.json"), "w") as f:
        json.dump(m, f, indent=1)
    try:
        rc = subprocess.run(["python3-vt", "-c", "import json,jsonschema;jsonschema.validate(json.load(open('%s/MANIFEST.json')),"
                             "json.load(open('/root/.vp/MANIFEST.schema.json')));print('MANIFEST valid, %d checks')" % (ROOT, len(checks))])
    except Exception as ex:
        print("not validated:", ex)


if __name__ == "__main__":
    main()
