#!/usr/bin/env python3
"""Rewrites the generated tables of DESIGN.md: §7 (defects and their disposition, from known_findings.json)
and §13 (seeded changes and which checks catch them, from seeded/*/meta.json)."""
import glob
import json
import os
import re

ROOT = os.path.dirname(os.path.dirname(os.path.abspath(__file__)))


def fnum(e):
    m = re.match(r"F(\d+)(\w*)", e["id"])
    return (int(m.group(1)), m.group(2)) if m else (999, e["id"])


def sec7():
    d = json.load(open(os.path.join(ROOT, "known_findings.json")))["findings"]
    out = ["## 7. Defects found in gatzka/cjet and what was done about them\n",
           "Every entry was first reproduced on the REAL code (component harness or the whole daemon on the simulated kernel, under",
           "ASan/UBSan), then either repaired by one minimal unguarded `fix:` commit in /repo (the pinned suite passes unedited with",
           "each) or kept as an OPEN known finding with the reason a small safe repair was not possible. `known_findings.json` is the",
           "machine-read form: a `fixed` entry suppresses nothing (its replay runs as an ordinary regression and a recurrence is a",
           "VIOLATION); an `open` entry makes the check print `KNOWN-FINDING: …` while its directed replay still reproduces and exempts",
           "only failures that satisfy its trigger. F-numbers up to F35 are those of the round-0 reading; later ones were found by the",
           "machinery (F36–F38 by the C19 slice, F51–F55 by C12/C13, F60–F63 by the C15 enumeration, F64/F65 by the cJSON slice, F66 by the",
           "Startup slice, F67 by triaging a survivor of the mutation campaign of §14).\n",
           "| # | property | status | commit | what |", "|---|---|---|---|---|"]
    for e in sorted(d, key=fnum):
        out.append("| %s | %s | %s | %s | %s |" % (e["id"], e["property"], e["status"], ("`%s`" % e["commit"]) if e.get("commit") else "—",
                                                   e["what"].replace("|", "/").replace("\n", " ")[:330]))
    out += ["", "Round-0 suspicions that did not survive replay or were folded into another entry: F7/F8 (timer not destroyed) are part of",
            "the F6/F30 commits; F12/F13/F27 part of F11's; F18 (WebSocket close order) is repaired by F6's commit (teardown never sends to",
            "the leaving peer), the model-level statement is C05 `teardown_never_addresses_leaver`; F21 is in F20's commit; F32 (101 without",
            "Sec-WebSocket-Key/Version) is confirmed but outside C12 as stated — it is reported in the C12 evidence, not listed as a finding;",
            "F24 is split into F24 (open: truncate-then-write window) and F24b (fixed: short-write loop).", "",
            "---------------------------------------------------------------------------", ""]
    return "\n".join(out)


def sec13():
    rows = []
    for p in sorted(glob.glob(os.path.join(ROOT, "seeded", "*", "meta.json"))):
        m = json.load(open(p))
        v = m.get("verification", {})
        name = os.path.basename(os.path.dirname(p))
        det = []
        for cid, r in v.get("checks", {}).items():
            det.append("%s: %s" % (cid, ("VIOLATION with failing input" if r.get("with_failing_input") else ("VIOLATION no-failing-input-found" if r.get("detected") else "missed"))))
        if m.get("out_of_scope"):
            det = ["outside what the properties state: " + m["out_of_scope"]]
        rows.append("| %s | %s | %s | %s | %s |" % (name, m.get("breaks_property", ""), (m.get("what_breaks") or m.get("title") or "")[:170].replace("|", "/").replace("\n", " "),
                                                   (m.get("needs_to_manifest") or "")[:150].replace("|", "/").replace("\n", " "), "; ".join(det)))
    out = ["## 13. Seeded changes and which checks catch them\n",
           "Fresh sub-agents were given only a property's text and their own scratch worktree (nothing from /verif) and asked for two",
           "changes each that break the property while the project still compiles and its 251 tests pass, with a demonstration (round 1:",
           "`Cxx-1/2`; round 2, `Cxx-r2-1/2`: harder ones — one pair of cooperating edits that are each harmless alone, and one change",
           "that needs a particular order of events, fault, value or transport). Each",
           "change was confirmed independently (`tools/seedtest.py`: suite passes with the change, demonstration fails with it and passes",
           "without) and the checks were run against the changed tree (`VERIF_REPO=<worktree> ./check Cxx --tier quick`). Kept under",
           "`/verif/seeded/<id>-<n>/` (patch.diff, demonstration, meta.json with what was run). Misses on the first pass and what was",
           "strengthened are listed in §12.\n",
           "| seeded change | breaks | what | needs to manifest | result |", "|---|---|---|---|---|"] + rows + [""]
    return "\n".join(out)


def main():
    p = os.path.join(ROOT, "DESIGN.md")
    s = open(p).read()
    i = s.index("## 7. Defects")
    j = s.index("## 8. Trusted base")
    s = s[:i] + sec7() + "\n" + s[j:]
    if "## 13. Seeded changes" in s:
        i = s.index("## 13. Seeded changes")
        j = s.index("## 14. ") if "## 14. " in s else s.index("## Appendix A")
        s = s[:i] + sec13() + "\n---------------------------------------------------------------------------\n\n" + s[j:]
    else:
        j = s.index("## Appendix A")
        s = s[:j] + sec13() + "\n---------------------------------------------------------------------------\n\n" + s[j:]
    open(p, "w").write(s)
    print("DESIGN.md §7 and §13 regenerated")


if __name__ == "__main__":
    main()
