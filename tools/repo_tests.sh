#!/bin/sh
# builds /repo/_build and runs the pinned suite (23 ctest tests = 251 boost cases); prints a one-line verdict
cmake --build /repo/_build 2>&1 | grep -E "error|FAILED" | head -20
ctest --test-dir /repo/_build -j16 --timeout 900 2>&1 | tail -4
