#!/usr/bin/env python3
"""Re-run the checks against every kept seeded change (regression of detection): tools/seedsweep.py [name-prefix...]"""
import glob
import json
import os
import subprocess
import sys

ROOT = os.path.dirname(os.path.dirname(os.path.abspath(__file__)))
rows = []
for d in sorted(glob.glob(os.path.join(ROOT, "seeded", "*"))):
    name = os.path.basename(d)
    if sys.argv[1:] and not any(name.startswith(p) for p in sys.argv[1:]):
        continue
    meta = json.load(open(os.path.join(d, "meta.json")))
    if meta.get("out_of_scope"):
        rows.append((name, "out of scope: " + meta["out_of_scope"][:80]))
        continue
    checks = [c for c, r in meta.get("verification", {}).get("checks", {}).items() if r.get("detected")] or [meta.get("breaks_property", name.split("-")[0])]
    p = subprocess.run([sys.executable, os.path.join(ROOT, "tools", "seedtest.py"), d, name, "--checks-only"] + checks[:1], stdout=subprocess.PIPE, stderr=subprocess.STDOUT)
    try:
        r = json.loads(p.stdout.decode())
        res = {k: ("input" if v[1] else ("no-input" if v[0] else "MISSED")) for k, v in r["checks"].items()}
    except Exception:
        res = {"error": p.stdout.decode()[-300:]}
    rows.append((name, res))
    print(name, res, flush=True)
missed = [r for r in rows if isinstance(r[1], dict) and any(v == "MISSED" or k == "error" for k, v in r[1].items())]
print("seeded changes: %d, missed: %d %s" % (len(rows), len(missed), [m[0] for m in missed]))
