#!/usr/bin/env python3
"""Re-run chosen checks against one recorded mutant: tools/mutant_check.py <file> <line> <op prefix> <check> [check...]
(the mutant is looked up in mutation/*.jsonl; applied in a scratch worktree outside /repo and /verif, removed afterwards)"""
import glob
import json
import os
import subprocess
import sys

ROOT = os.path.dirname(os.path.dirname(os.path.abspath(__file__)))
f, line, op = sys.argv[1], int(sys.argv[2]), sys.argv[3]
rec = None
for p in glob.glob(os.path.join(ROOT, "mutation", "*.jsonl")):
    for l in open(p):
        d = json.loads(l)
        if d["file"] == f and d["line"] == line and d["op"].startswith(op):
            rec = d
assert rec, "no such mutant recorded"
wt = "/tmp/mutant-wt"
subprocess.run("git -C /repo worktree remove --force %s" % wt, shell=True, stderr=subprocess.DEVNULL)
subprocess.run("git -C /repo worktree add -q %s HEAD" % wt, shell=True, check=True)
try:
    p = os.path.join(wt, f)
    lines = open(p).read().split("\n")
    cand = [i for i, l in enumerate(lines) if l.strip() == rec["old"]]
    i = min(cand, key=lambda k: abs(k - (line - 1)))
    lines[i] = lines[i].replace(rec["old"], rec["new"])
    open(p, "w").write("\n".join(lines))
    for chk in sys.argv[4:]:
        r = subprocess.run("./check %s --tier quick" % chk, shell=True, cwd=ROOT, env=dict(os.environ, VERIF_REPO=wt), stdout=subprocess.PIPE, stderr=subprocess.STDOUT)
        out = [l for l in r.stdout.decode().splitlines() if l.startswith(("VIOLATION", "OK ", "  ->"))]
        print(f, line, rec["op"], chk, "rc=%d" % r.returncode, " | ".join(x[:160] for x in out[:2]), flush=True)
finally:
    subprocess.run("git -C /repo worktree remove --force %s" % wt, shell=True)
    subprocess.run("python3 extract/consts.py /repo lean/Cjet/Generated/Consts.lean >/dev/null", shell=True, cwd=ROOT)
