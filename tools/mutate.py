#!/usr/bin/env python3
"""Mutation campaign: how many small syntactic changes of cjet that survive its own test suite do the checks notice?

  tools/mutate.py <n-per-file> <seed> <out.jsonl> [file ...]

Works on a private copy of /verif (so that regenerated constants and driver binaries of the campaign never meet a check that
is running against /repo) and on one persistent scratch worktree of /repo outside /repo and /verif (incremental builds).
For every sampled mutant: apply, build, run the project's suite; if the suite still passes, run the quick tier of every
check whose property is anchored in the mutated file.  One JSON line per mutant.  Survivors (suite passes, no check reports
a violation) need a human or an agent to say whether they are equivalent / irrelevant to the properties / a miss.
"""
import collections
import json
import os
import random
import re
import shutil
import subprocess
import sys
import time

ROOT = os.path.dirname(os.path.dirname(os.path.abspath(__file__)))
WT = "/tmp/mut-wt"
VCOPY = "/tmp/verif-mut"

SKIP_LINE = re.compile(r"^\s*(//|/\*|\*|#|log_|assert|BUILD_ASSERT|static_assert|\}|\{|$)")
OWN_FILES = ["src/alloc.c", "src/authenticate.c", "src/base64.c", "src/buffered_socket.c", "src/compression.c", "src/config.c",
             "src/element.c", "src/fetch.c", "src/groups.c", "src/hashtable.h", "src/http_connection.c", "src/http_server.c",
             "src/info.c", "src/linux/eventloop_epoll.c", "src/linux/jet_string.c", "src/linux/linux_io.c",
             "src/linux/timer_linux.c", "src/parse.c", "src/peer.c", "src/posix/auth_file.c", "src/posix/socket.c",
             "src/response.c", "src/router.c", "src/socket_peer.c", "src/table.c", "src/timer.c", "src/utf8_checker.c",
             "src/websocket.c", "src/websocket_peer.c", "src/json/cJSON.c"]


def sh(cmd, cwd=None, env=None, timeout=3600):
    e = dict(os.environ)
    if env:
        e.update(env)
    try:
        p = subprocess.run(cmd, shell=True, cwd=cwd, env=e, stdout=subprocess.PIPE, stderr=subprocess.STDOUT, timeout=timeout)
        return p.returncode, p.stdout.decode("utf-8", "replace")
    except subprocess.TimeoutExpired:
        return 124, "timeout"


def candidates(path, text):
    """(line number, operator name, new line) for every single-line mutation this tool knows"""
    out = []
    in_comment = False
    for i, ln in enumerate(text.split("\n")):
        if "/*" in ln and "*/" not in ln:
            in_comment = True
            continue
        if in_comment:
            if "*/" in ln:
                in_comment = False
            continue
        if SKIP_LINE.match(ln) or "log_err" in ln or "log_warn" in ln or "log_info" in ln or "log_peer" in ln:
            continue
        code = ln.split("//")[0]
        for a, b in ((" < ", " <= "), (" <= ", " < "), (" > ", " >= "), (" >= ", " > "), (" == ", " != "), (" != ", " == "), (" && ", " || "), (" || ", " && ")):
            if a in code and '"' not in code.split(a)[0][-1:]:
                out.append((i, "relop %s->%s" % (a.strip(), b.strip()), ln.replace(a, b, 1)))
        m = re.search(r"(\w|\))\s*([+-])\s*1\b(?!\s*[<>=.]|\w)", code)
        if m and "for (" not in code and "++" not in code and not re.match(r"^\s*return\b", code):
            out.append((i, "drop %s1" % m.group(2), ln[:m.start(2)] + ln[m.end():] if False else ln.replace(m.group(0), m.group(1), 1)))
        if re.match(r"^\s*[A-Za-z_][\w>.\-]*\(.*\);\s*$", code) and not re.match(r"^\s*(return|if|while|for|switch|sizeof)\b", code):
            out.append((i, "delete call", re.sub(r"\S.*$", ";", ln, 1)))
        if re.search(r"\bif \((unlikely|likely)?\(?!", code):
            out.append((i, "drop negation", re.sub(r"(\bif \((?:unlikely|likely)?\(?)!", r"\1", ln, 1)))
        if re.match(r"^\s*return -1;\s*$", code):
            out.append((i, "return -1 -> 0", ln.replace("-1", "0", 1)))
        if re.match(r"^\s*return 0;\s*$", code):
            out.append((i, "return 0 -> -1", ln.replace("0", "-1", 1)))
        if re.search(r"\btrue\b", code) and "=" in code:
            out.append((i, "true -> false", re.sub(r"\btrue\b", "false", ln, 1)))
        elif re.search(r"\bfalse\b", code) and "=" in code:
            out.append((i, "false -> true", re.sub(r"\bfalse\b", "true", ln, 1)))
        m2 = re.search(r"([<>=!]=?|\[)\s*(\d{1,5})\b(?!\.)", code)
        if m2 and int(m2.group(2)) >= 2 and "case " not in code and "#" not in code:
            n = int(m2.group(2))
            out.append((i, "literal %d -> %d" % (n, n + 1), ln[:m2.start(2)] + str(n + 1) + ln[m2.end(2):]))
            out.append((i, "literal %d -> %d" % (n, n - 1), ln[:m2.start(2)] + str(n - 1) + ln[m2.end(2):]))
        if re.match(r"^\s*(break|continue);\s*$", code):
            out.append((i, "delete " + code.strip(), re.sub(r"\S.*$", ";", ln, 1)))
    return out


def main():
    n_per_file, seed, outp = int(sys.argv[1]), int(sys.argv[2]), sys.argv[3]
    files = sys.argv[4:] or OWN_FILES
    r = random.Random(seed)
    anchors = collections.defaultdict(list)
    for l in open(os.path.join(ROOT, "properties.jsonl")):
        d = json.loads(l)
        for f in d["anchors"]["files"]:
            anchors[f].append(d["id"])
    # private copy of the verification tree, scratch worktree with a configured build directory
    if not os.path.exists(VCOPY):
        sh("cp -a %s %s" % (ROOT, VCOPY))
    else:
        sh("rsync -a --delete --exclude work --exclude lean/.lake --exclude replays --exclude evidence %s/ %s/" % (ROOT, VCOPY))
    sh("git -C /repo worktree remove --force %s" % WT)
    rc, o = sh("git -C /repo worktree add -q %s HEAD" % WT)
    rc, o = sh("cmake -G Ninja -B _build -DCMAKE_BUILD_TYPE=RelWithDebInfo . >/dev/null 2>&1 && cmake --build _build 2>&1 | tail -1", cwd=WT)
    done = set()
    if os.path.exists(outp):
        for l in open(outp):
            try:
                d = json.loads(l)
                done.add((d["file"], d["line"], d["op"]))
            except Exception:
                pass
    plan = []
    for f in files:
        text = open(os.path.join(WT, f)).read()
        cs = candidates(f, text)
        r.shuffle(cs)
        plan += [(f, c) for c in cs[:n_per_file]]
    print("planned %d mutants over %d files" % (len(plan), len(files)), flush=True)
    with open(outp, "a") as outf:
        for f, (i, op, newln) in plan:
            if (f, i + 1, op) in done:
                continue
            p = os.path.join(WT, f)
            orig = open(p).read()
            lines = orig.split("\n")
            rec = {"file": f, "line": i + 1, "op": op, "old": lines[i].strip(), "new": newln.strip()}
            lines[i] = newln
            open(p, "w").write("\n".join(lines))
            t0 = time.time()
            try:
                rc, o = sh("cmake --build _build 2>&1 | tail -5", cwd=WT, timeout=900)
                if "error" in o.lower() or "FAILED" in o:
                    rec["outcome"] = "does not compile"
                else:
                    rc, o = sh("ctest --test-dir _build -j8 2>&1 | tail -4", cwd=WT, timeout=900)
                    if "100% tests passed" not in o:
                        rec["outcome"] = "killed by the project's tests"
                    else:
                        rec["checks"] = {}
                        props = anchors.get(f, []) or ["C06"]
                        for pid in props:
                            rc, o = sh("./check %s --tier quick" % pid, cwd=VCOPY, env={"VERIF_REPO": WT}, timeout=1800)
                            v = [l for l in o.splitlines() if l.startswith("VIOLATION")]
                            rec["checks"][pid] = ("input" if any("no-failing-input-found" not in l for l in v) else "no-input") if v else ("ok" if rc == 0 else "rc=%d" % rc)
                        rec["outcome"] = "detected" if any(x in ("input", "no-input") for x in rec["checks"].values()) else "SURVIVED"
            finally:
                open(p, "w").write(orig)
            rec["wall_s"] = round(time.time() - t0, 1)
            outf.write(json.dumps(rec) + "\n")
            outf.flush()
            print(rec["outcome"], f, i + 1, op, rec.get("checks", ""), flush=True)
    sh("git -C /repo worktree remove --force %s" % WT)


if __name__ == "__main__":
    main()
