#!/usr/bin/env python3
"""Confirm a seeded change and run the checks against it.

  tools/seedtest.py <dir with patch.diff, run.sh, meta.json> <name> [check ids...]

1. scratch worktree of /repo HEAD, apply patch, build + run the pinned suite (must pass);
2. the demonstration must fail with the change and pass without it;
3. run the given checks (default: the property named in meta.json) with VERIF_REPO pointing at the changed tree;
4. keep patch, demonstration and an augmented meta.json as /verif/seeded/<name>/; remove the worktree.
"""
import json
import os
import shutil
import subprocess
import sys
import time

ROOT = os.path.dirname(os.path.dirname(os.path.abspath(__file__)))


def sh(cmd, cwd=None, env=None, timeout=3600):
    e = dict(os.environ)
    if env:
        e.update(env)
    p = subprocess.run(cmd, shell=True, cwd=cwd, env=e, stdout=subprocess.PIPE, stderr=subprocess.STDOUT, timeout=timeout)
    return p.returncode, p.stdout.decode("utf-8", "replace")


def main():
    args = [a for a in sys.argv[1:] if a != "--checks-only"]
    checks_only = "--checks-only" in sys.argv   # re-run the checks against an already confirmed seeded change (regression of detection)
    sys.argv = [sys.argv[0]] + args
    src, name = sys.argv[1], sys.argv[2]
    meta = json.load(open(os.path.join(src, "meta.json"))) if os.path.exists(os.path.join(src, "meta.json")) else {}
    checks = sys.argv[3:] or [meta.get("property", name.split("-")[0])]
    wt = "/tmp/verify-" + name
    sh("git -C /repo worktree remove --force %s" % wt)
    rc, out = sh("git -C /repo worktree add -q %s HEAD" % wt)
    report = {"name": name, "checks": {}, "ran": []}
    try:
        # demonstration on the clean tree
        rc_clean, out_clean = (0, "") if checks_only else sh("sh %s %s" % (os.path.join(src, "run.sh"), wt), cwd=src, timeout=1800)
        report["demo_on_clean_tree"] = {"rc": rc_clean, "tail": out_clean[-400:]}
        rc, out = sh("git apply %s" % os.path.join(src, "patch.diff"), cwd=wt)
        if rc != 0:
            report["error"] = "patch does not apply to the current HEAD: " + out[-400:]
            print(json.dumps(report, indent=1))
            return 2
        rc_b, out_b = (0, "100% tests passed (not re-run)") if checks_only else sh("cmake -G Ninja -B _build -DCMAKE_BUILD_TYPE=RelWithDebInfo . >/dev/null 2>&1 && cmake --build _build 2>&1 | tail -2 && ctest --test-dir _build -j8 2>&1 | tail -3", cwd=wt)
        report["suite_with_change"] = {"rc": rc_b, "tail": out_b[-300:], "passes": "100% tests passed" in out_b}
        rc_ch, out_ch = (1, "") if checks_only else sh("sh %s %s" % (os.path.join(src, "run.sh"), wt), cwd=src, timeout=1800)
        report["demo_on_changed_tree"] = {"rc": rc_ch, "tail": out_ch[-400:]}
        report["confirmed"] = bool(report["suite_with_change"]["passes"] and rc_clean == 0 and rc_ch != 0)
        shutil.rmtree(os.path.join(wt, "_build"), ignore_errors=True)
        for cid in checks:
            t0 = time.time()
            rc_c, out_c = sh("./check %s --tier quick" % cid, cwd=ROOT, env={"VERIF_REPO": wt}, timeout=3600)
            lines = [l for l in out_c.splitlines() if l.startswith(("VIOLATION", "OK ", "KNOWN-FINDING", "  ->"))]
            report["checks"][cid] = {"rc": rc_c, "lines": [l[:400] for l in lines[:8]], "wall_s": round(time.time() - t0, 1),
                                     "detected": rc_c != 0 and any(l.startswith("VIOLATION") for l in lines),
                                     "with_failing_input": any(l.startswith("VIOLATION") and "no-failing-input-found" not in l for l in lines)}
            report["ran"].append("VERIF_REPO=%s ./check %s --tier quick" % (wt, cid))
    finally:
        sh("git -C /repo worktree remove --force %s" % wt)
        # constants are regenerated from VERIF_REPO during a check: restore them from /repo
        sh("python3 extract/consts.py /repo lean/Cjet/Generated/Consts.lean >/dev/null", cwd=ROOT)
    dst = os.path.join(ROOT, "seeded", name)
    os.makedirs(dst, exist_ok=True)
    if checks_only:
        old = meta.get("verification", {})
        for k in ("demo_on_clean_tree", "suite_with_change", "demo_on_changed_tree", "confirmed"):
            if k in old:
                report[k] = old[k]
        prev = dict(old.get("checks", {}))
        prev.update(report["checks"])
        report["checks"] = prev
    for f in ([] if os.path.abspath(src) == os.path.abspath(dst) else os.listdir(src)):
        if os.path.isfile(os.path.join(src, f)) and os.path.getsize(os.path.join(src, f)) < 400000 and f not in ("meta.json",):
            shutil.copy(os.path.join(src, f), os.path.join(dst, f))
    meta.update({"verification": report, "breaks_property": meta.get("property", name.split("-")[0])})
    with open(os.path.join(dst, "meta.json"), "w") as f:
        json.dump(meta, f, indent=1)
    print(json.dumps({"name": name, "confirmed": report.get("confirmed"), "checks": {k: (v["detected"], v["with_failing_input"], v["lines"][:2]) for k, v in report["checks"].items()}}, indent=1)[:3000])
    return 0


if __name__ == "__main__":
    sys.exit(main())
