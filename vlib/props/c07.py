"""C07 — reclamation and descriptor hygiene."""
from vlib import common as C
from vlib import dcheck, directed

LEVEL = "proof"
DRIVERS = ["daemon", "alloc", "accept", "startup"]


def run(ctx, out):
    dcheck.run_property(ctx, out, "C07", "mon_c07", n_quick=300, n_thorough=5000,
                        gen_kw=dict(ws_share=0.4, batches=0.1, malformed=0.06, faults=True),
                        directed=directed.regressions() + directed.batch_orders() + directed.close_positions(ctx.thorough) + directed.orphan_routes() + directed.reauth_after_fetch() + directed.abandoned_requests(40) + directed.write_error_after_progress())
    # small tables: the refusals (index full, routing table full, write buffer full) release what the request had acquired
    dcheck.run_more(ctx, out, "C07", "mon_c07", n_quick=150, n_thorough=2000,
                    gen_kw=dict(variant="small", ws_share=0.3, single=True, close_rate=0.08), tag="small")
    from vlib.props import alloc_tie
    alloc_tie.run_alloc_tie(ctx, out)
    # descriptor hygiene of the accept path: real linux_io.c against Cjet.Accept on every single/double fault position
    from vlib import accept_tie
    accept_tie.run_accept_tie(ctx, out)
    # start-up / shut-down of run_io: every configuration x every single, double (thorough: triple) failure position on the real linux_io.c
    from vlib import startup_tie
    startup_tie.run_startup_tie(ctx, out)
    # every registration with the event loop (connections, timers) fails in turn: nothing may stay behind
    from vlib import epctl_enum
    epctl_enum.run_epctl_enum(ctx, out, "C07")
    out.assumptions += ["allocator: the OS never grants a request of 2^63 bytes or more (hypothesis OsOk of cap_respected)",
                        "timer ledger: address tokens are '_'-free and fewer than 2^32 requests per run (the hypotheses of C03's rid_unique)"]
