"""Stand-alone development check for the cJSON text-layer slice (component Cjson, driver drv_cjson):
builds/audits lean/Cjet/Props/CJSON_DEV.lean (= the theorems of Cjet.Props.Cjson restated) and runs the
correspondence vlib/cjson_tie.py.  The C06 check calls run_cjson_tie itself; this module exists so that the
slice can be run alone: ./check cjson_dev --tier quick|thorough."""
from vlib import cjson_tie

LEVEL = "proof"
DRIVERS = ["cjson"]


def run(ctx, out):
    cjson_tie.run_cjson_tie(ctx, out)
    out.coverage.setdefault("distinct_nontrivial", out.coverage.get("cjson_lines_total", 0))
    out.coverage.setdefault("rule", "script lines (inputs) run through model and implementation")
