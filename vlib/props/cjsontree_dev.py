"""Stand-alone check of the CjsonTree slice (cJSON_Duplicate / cJSON_Delete / get_object_item of src/json/cJSON.c):
`./check cjsontree_dev --tier quick|thorough`.  The audit covers lean/Cjet/Props/CJSONTREE_DEV.lean (every theorem of
Cjet.Props.CjsonTree restated); the tie is vlib/cjsontree_tie.py, which the C03 and C15 checks call as well."""
from vlib import cjsontree_tie

LEVEL = "proof"
DRIVERS = ["cjsontree"]


def run(ctx, out):
    r = cjsontree_tie.run_cjsontree_tie(ctx, out)
    cov = out.coverage
    cov["traces_validated_against_impl"] = cov.get("cjsontree_traces_validated_against_impl", 0)
    cov["evaluations"] = cov.get("cjsontree_ops", 0)
    return r


def replay(d):
    return cjsontree_tie.replay(d)
