"""C20 — password changes are authorised, effective and crash-atomic on disk.

Proof side: lean/Cjet/Props/C20.lean over the model lean/Cjet/Authfile.lean.
Tie: harness/comp/authfile.c (the REAL src/posix/auth_file.c, authenticate.c, response.c, groups.c, cJSON and the
real crypt(3); every file-system call made while a passwd request is handled is intercepted with --wrap, gets its
outcome from the script and is followed by a snapshot of the credential file that a fresh load_passwd_data() in a
forked child judges) and the model driver drv_authfile run the same scripts.  The model's parameters are tabulated
from the real code: the crypt table from the crypt calls the harness logs (so the model must derive exactly the same
setting/salt from the same random bytes to hit the table), the serialisation from the buffer of the first write, the
loader's image of a file from the harness's `db` line.  Compared line by line: every crypt call, every file-system call
with arguments and result, the file content after every call and its loadable verdict, the response (ok / error code
/ error kind), the peer's user name after every authenticate, the in-memory database image and the file after every
request, what a reload makes of the file.

The property itself is evaluated on the implementation's observations, independently of the Lean model, by a
small Python specification (monitor()):
  M1 a request that is not authorised (caller authenticated, target exists, not read-only, caller = target or admin)
     gets an error, makes no file-system call, leaves database image and file unchanged; `ok` implies authorised;
  M2 a change alters nothing but the password member of the first entry matching the target;
  M3 afterwards credentials_ok accepts the new password for the target and refuses the old one, also after a reload;
     every other account authenticates as before (cred/auth verdicts against the tracked plaintexts);
  M5 every snapshot (= the disk after a crash at that point; a crash inside a write after k bytes is the snapshot after
     a short write of k bytes) is loadable and its image is the old or the new one;
  M6 a request answered `ok` leaves exactly the new serialisation on disk, loadable, image = in-memory image;
  M7 a file that should be good reloads, to the expected image.
A failing M5 snapshot inside the window of the open known finding F24 (after a successful ftruncate(fd,0) and before
the last byte of the new data is written, or after a failed lseek) on which model and code agree is reported as
KNOWN-FINDING; everything else that fails is a VIOLATION with a shrunk replay.
"""
import concurrent.futures
import ctypes
import os
import re
import shutil
import threading
import time

from vlib import common as C

LEVEL = "proof"

ENV = {"ASAN_OPTIONS": "detect_leaks=0:abort_on_error=0", "UBSAN_OPTIONS": "print_stacktrace=0"}
WRAPS = ["open", "write", "ftruncate", "lseek", "fsync", "fdatasync", "close", "rename", "unlink", "crypt"]

REASONS = {
    "non-authenticated peer can't change any passwords": "notAuthenticated",
    "user not in password database": "userNotInDb",
    "user not allowed to change password": "notAllowed",
    "no password for user in password database": "noPassword",
    "password for user in password database is not a string": "passwordNotString",
    "can't create salt for new password": "noSalt",
    "could not encrypt password": "cryptFailed",
    "Could not write password file": "writeFailed",
}


def srcs():
    return [C.ROOT + "/harness/comp/authfile.c", C.SRC + "/authenticate.c", C.SRC + "/response.c", C.SRC + "/groups.c",
            C.SRC + "/jet_string.c", C.SRC + "/alloc.c", C.SRC + "/json/cJSON.c"]


def build():
    return C.cc_build("authfile", srcs(), link_flags=["-Wl,--wrap=" + w for w in WRAPS] + ["-lcrypt", "-lm"])


# --------------------------------------------------------------------------- real crypt for the generator

_libcrypt = None
_crypt_lock = threading.Lock()
_crypt_cache = {}


def real_crypt(pw, setting):
    """crypt(3) of the installed libcrypt (static result buffer: serialised and memoised)."""
    global _libcrypt
    with _crypt_lock:
        if (pw, setting) in _crypt_cache:
            return _crypt_cache[(pw, setting)]
        if _libcrypt is None:
            _libcrypt = ctypes.CDLL("libcrypt.so.1")
            _libcrypt.crypt.restype = ctypes.c_char_p
            _libcrypt.crypt.argtypes = [ctypes.c_char_p, ctypes.c_char_p]
        r = _libcrypt.crypt(pw, setting)
        _crypt_cache[(pw, setting)] = r
        return r


SETTINGS = {"des": b"hQ", "md5": b"$1$fixedslt$", "sha256": b"$5$saltsaltsalt$", "sha512": b"$6$rounds=1000$QieAoprju2Gf$"}


# --------------------------------------------------------------------------- credential files

def jstr(b):
    out = []
    for ch in b:
        if ch in (0x22, 0x5c):
            out.append("\\" + chr(ch))
        elif ch < 0x20:
            out.append("\\u%04x" % ch)
        else:
            out.append(chr(ch))
    return '"' + "".join(out) + '"'


AUTH = '{"fetchGroups": ["users", "public"], "setGroups": ["users"], "callGroups": ["%s"]}'


def user_json(name, members):
    """members: list of (key, raw json text)"""
    return "    %s: {\n%s\n    }" % (jstr(name), ",\n".join("      %s: %s" % (jstr(k.encode()), v) for k, v in members))


def make_file(users):
    """users: list of (name bytes, members).  Returns the file content (latin-1 encodable text -> bytes)."""
    txt = "{\n  \"users\": {\n" + ",\n".join(user_json(n, m) for n, m in users) + "\n  }\n}\n"
    return txt.encode("latin-1")


def hashed(pw, method):
    h = real_crypt(pw, SETTINGS[method])
    return h


def std_user(name, pw, method="md5", ro=None, adm=None, auth=True, group="users", pwraw=None):
    m = []
    if ro is not None:
        m.append(("readonly", ro))
    if adm is not None:
        m.append(("admin", adm))
    if pwraw is not None:
        m.append(("password", pwraw))
    elif pw is not None:
        m.append(("password", jstr(hashed(pw, method))))
    if auth:
        m.append(("auth", AUTH % group))
    return (name, m)


def db_kinds():
    """One entry of every kind the file format knows.  Returns (file bytes, {name: plaintext})."""
    users = [
        std_user(b"alice", b"alicepw1", "sha512"),
        std_user(b"bob", b"bobpw222", "md5"),
        std_user(b"root", b"rootpw33", "sha256", adm="true"),
        std_user(b"guest", b"guestpw4", "des", ro="true"),
        std_user(b"roadm", b"roadmpw5", "md5", ro="true", adm="true"),
        std_user(b"nopw", None),
        std_user(b"pwnum", None, pwraw="123"),
        std_user(b"noauth", b"noauthp6", "md5", auth=False),
        std_user(b"Alice", b"ALICEPW7", "md5", adm="true"),           # shadowed by "alice": never found
        std_user(b"bcrypt", None, pwraw='"$2b$05$abcdefghijklmnopqrstuu5s2v8.iXieOjg/.AySBTTZIIVFJfBui"'),
        std_user(b"odd", None, pwraw='"$x"'),
        std_user(b"emptyh", None, pwraw='""'),
        std_user(b"rostr", b"rostrpw8", "md5", ro='"true"', adm="1"),  # not JSON true: neither read-only nor admin
        std_user(b"desu", b"desupw99", "des"),
        std_user(b"r\xf6s", b"umlautpw", "md5"),
        std_user(b"bo", b"bopw-prefix", "md5"),                        # a name that is a prefix of another ("bob")
    ]
    truth = {b"alice": b"alicepw1", b"bob": b"bobpw222", b"root": b"rootpw33", b"guest": b"guestpw4", b"roadm": b"roadmpw5",
             b"noauth": b"noauthp6", b"rostr": b"rostrpw8", b"desu": b"desupw99", b"r\xf6s": b"umlautpw", b"bo": b"bopw-prefix"}
    return make_file(users), truth


def db_small(method="md5"):
    users = [std_user(b"u", b"oldpw", method), std_user(b"adm", b"admpw", "md5", adm="true")]
    return make_file(users), {b"u": b"oldpw", b"adm": b"admpw"}


def db_tiny():
    """the smallest useful file: two accounts without group data (short serialisation => all pairs of short writes)"""
    users = [(b"u", [("password", jstr(hashed(b"oldpw", "des"))), ("auth", "{}")]),
             (b"adm", [("admin", "true"), ("password", jstr(hashed(b"admpw", "des"))), ("auth", "{}")])]
    return make_file(users), {b"u": b"oldpw", b"adm": b"admpw"}


def repo_std_file():
    p = os.path.join(C.SRC, "tests", "input_data", "passwd_std.json")
    try:
        with open(p, "rb") as f:
            return f.read()
    except OSError:
        return None


# --------------------------------------------------------------------------- ops and scripts

def hx(b):
    return C.hexs(b)


def op_line(op):
    k = op[0]
    if k == "load":
        return "load " + hx(op[1])
    if k == "reload":
        return "reload"
    if k == "peer":
        return "peer %d" % op[1]
    if k == "auth":
        return "auth %d %s %s" % (op[1], hx(op[2]), hx(op[3]))
    if k == "cred":
        return "cred %s %s" % (hx(op[1]), hx(op[2]))
    if k == "passwd":
        return ("passwd %d %s %s %s %s" % (op[1], hx(op[2]), hx(op[3]), hx(op[4]), op[5])).rstrip()
    raise ValueError(op)


def parse_op(line):
    w = line.split()
    if not w or w[0].startswith("#"):
        return None
    if w[0] == "load":
        return ("load", C.unhex(w[1]))
    if w[0] == "reload":
        return ("reload",)
    if w[0] == "peer":
        return ("peer", int(w[1]))
    if w[0] == "auth":
        return ("auth", int(w[1]), C.unhex(w[2]), C.unhex(w[3]))
    if w[0] == "cred":
        return ("cred", C.unhex(w[1]), C.unhex(w[2]))
    if w[0] == "passwd":
        return ("passwd", int(w[1]), C.unhex(w[2]), C.unhex(w[3]), C.unhex(w[4]), w[5] if len(w) > 5 else "")
    raise ValueError(line)


class Scenario:
    """ops[0] is the load; the four peers used are reset right after it."""

    def __init__(self, name, ops, truth=None, family="directed", known0=None):
        self.name = name
        self.ops = list(ops)
        self.truth = dict(truth or {})       # user name -> plaintext the generator hashed into the file
        self.known0 = dict(known0 or {})     # further stored hash -> plaintext pairs
        self.family = family

    def lines(self):
        return [op_line(o) for o in self.ops]

    def with_ops(self, ops):
        s = Scenario(self.name, ops, self.truth, self.family, self.known0)
        for a in ("kf",):
            if hasattr(self, a):
                setattr(s, a, getattr(self, a))
        return s


def scenario(name, file_bytes, truth, ops, family="directed", known0=None):
    return Scenario(name, [("load", file_bytes)] + [("peer", i) for i in range(4)] + list(ops), truth, family, known0)


# --------------------------------------------------------------------------- running harness and driver

_wd_counter = [0]


def run_harness(binp, lines, tag):
    """Runs one harness process on the script lines (marks inserted); returns (segments, rc, stderr)."""
    _wd_counter[0] += 1
    wd = os.path.join(C.WORK, "c20", "%d_%s" % (os.getpid(), tag))
    shutil.rmtree(wd, ignore_errors=True)
    os.makedirs(wd)
    text = "".join("mark %d\n%s\n" % (i, ln) for i, ln in enumerate(lines))
    rc, out, err = C.sh([binp, wd], inp=text.encode(), env=ENV, timeout=1200)
    shutil.rmtree(wd, ignore_errors=True)
    return split_marks(out.splitlines(), len(lines)), rc, err


def split_marks(out_lines, n):
    segs = [[] for _ in range(n)]
    cur = None
    for ln in out_lines:
        if ln.startswith("mark "):
            try:
                cur = int(ln.split()[1])
            except ValueError:
                cur = None
            continue
        if cur is not None and 0 <= cur < n:
            segs[cur].append(ln)
    return segs


def driver_script(ops, hsegs):
    """The model's script: the same ops plus the parameters tabulated from the harness output."""
    out = []
    for i, (op, seg) in enumerate(zip(ops, hsegs)):
        out.append("mark %d" % i)
        k = op[0]
        if k == "load":
            if seg and seg[0] == "load ok":
                img = seg[1][3:] if len(seg) > 1 and seg[1].startswith("db ") else "empty"
                out.append("load %s ok %s" % (hx(op[1]), img))
            else:
                out.append("load %s fail" % hx(op[1]))
        elif k == "reload":
            if seg and seg[0] == "load ok":
                img = seg[1][3:] if len(seg) > 1 and seg[1].startswith("db ") else "empty"
                out.append("reload ok %s" % img)
            else:
                out.append("reload fail")
        else:
            for ln in seg:
                if ln.startswith("crypt "):
                    out.append(ln)
            if k == "passwd":
                for ln in seg:
                    w = ln.split()
                    if len(w) >= 6 and w[0] == "fs" and w[2] == "write":
                        out.append("ser " + w[5])
                        break
            out.append(op_line(op))
    return out


def run_driver(lines):
    out = C.run_drv("authfile", "\n".join(lines) + "\n", timeout=1200)
    n = sum(1 for ln in lines if ln.startswith("mark "))
    return split_marks(out, n)


def canon_h(seg):
    """Harness lines under the projection."""
    out = []
    for ln in seg:
        w = ln.split()
        if not w:
            continue
        if w[0] == "snap":
            d = dict(x.split("=", 1) for x in w[1:] if "=" in x)
            out.append("snap main=%s loadable=%s" % (d.get("main"), d.get("loadable")))
        elif w[0] == "passwd" and len(w) >= 3 and w[1] == "err":
            reason = C.unhex(w[4]).decode("latin-1") if len(w) > 4 and w[4] != "?" else ""
            kind = REASONS.get(reason)
            out.append("passwd err %s %s" % (w[2], kind if kind else "*"))
        elif w[0] == "auth" and len(w) >= 3 and w[1] == "err":
            out.append("auth err %s" % w[2])
        else:
            out.append(ln)
    return out


def canon_m(seg, hcanon):
    out = []
    for i, ln in enumerate(seg):
        w = ln.split()
        if w and w[0] == "snap":
            d = dict(x.split("=", 1) for x in w[1:] if "=" in x)
            lv = d.get("loadable")
            if lv == "?" and i < len(hcanon) and hcanon[i].startswith("snap "):
                # content the model's assumptions say nothing about: compare the bytes only
                lv = hcanon[i].rsplit("loadable=", 1)[1]
            out.append("snap main=%s loadable=%s" % (d.get("main"), lv))
        elif w and w[0] == "passwd" and len(w) >= 4 and w[1] == "err" and i < len(hcanon) and hcanon[i].endswith(" *"):
            out.append("passwd err %s *" % w[2])    # reworded reason text: the error code is what is compared
        else:
            out.append(ln)
    return out


# --------------------------------------------------------------------------- parsing observations

def parse_image(line):
    if line is None or not line.startswith("db"):
        return None
    w = line.split()[1:]
    if w == ["none"]:
        return None
    if w == ["empty"]:
        return []
    ents = []
    for x in w:
        f = x.split(":")
        pw = ("N",) if f[2] == "N" else ("X",) if f[2] == "X" else ("S", bytes.fromhex(f[2][1:]))
        auth = None if f[5] == "N" else bytes.fromhex(f[5][1:])
        ents.append({"name": C.unhex(f[1]), "pw": pw, "ro": f[3] == "1", "adm": f[4] == "1", "auth": auth})
    return ents


def djb2(s):
    h = 5381
    for ch in s.encode("latin-1"):
        h = ((h << 5) + h + ch) & 0xffffffff
    return "%08x" % h


def parse_passwd_seg(seg):
    r = {"old": None, "crypt": [], "calls": [], "resp": None, "ncalls": None, "db": None, "file": None}
    for ln in seg:
        w = ln.split()
        if not w:
            continue
        if w[0] == "old":
            r["old"] = w[1]
        elif w[0] == "crypt":
            r["crypt"].append((w[1], w[2], w[3]))
        elif w[0] == "fs":
            arrow = w.index("->")
            r["calls"].append({"no": int(w[1]), "name": w[2], "args": w[3:arrow], "ret": w[arrow + 1], "snap": None})
        elif w[0] == "snap":
            d = dict(x.split("=", 1) for x in w[1:] if "=" in x)
            if r["calls"]:
                r["calls"][-1]["snap"] = d
        elif w[0] == "passwd":
            if w[1] == "ok":
                r["resp"] = ("ok",)
            elif w[1] == "err":
                reason = C.unhex(w[4]).decode("latin-1") if len(w) > 4 and w[4] != "?" else ""
                r["resp"] = ("err", int(w[2]), reason)
            else:
                r["resp"] = (w[1],)
        elif w[0] == "calls":
            r["ncalls"] = int(w[1])
        elif w[0] == "db":
            r["db"] = ln
        elif w[0] == "file":
            r["file"] = w[1]
    return r


def window_flags(calls):
    """For every call: is the disk, right after it, inside the window of F24?  Opens at a successful
    ftruncate(main, 0); closes when as many bytes as the first write asked for have been written to main
    (never, once an lseek failed)."""
    flags = []
    is_open, total, written, seek_failed = False, None, 0, False
    for c in calls:
        on_main = bool(c["args"]) and c["args"][0] == "main"
        if c["name"] == "ftruncate" and on_main and c["ret"] == "ok" and c["args"][1:2] == ["0"]:
            is_open, total, written = True, None, 0
        elif c["name"] == "lseek" and on_main and c["ret"] == "err":
            seek_failed = True
        elif c["name"] == "write" and on_main and is_open:
            if total is None:
                total = int(c["args"][1])
            if c["ret"].isdigit():
                written += int(c["ret"])
            if written >= total and not seek_failed:
                is_open = False
        flags.append(is_open)
    return flags


# --------------------------------------------------------------------------- the monitor (property on the implementation)

def lookup(ents, name):
    if ents is None:
        return None
    for e in ents:
        if e["name"].lower() == name.lower():
            return e
    return None


def authorised(ents, caller, target):
    if caller is None:
        return False
    t = lookup(ents, target)
    if t is None or t["ro"]:
        return False
    if caller == target:
        return True
    c = lookup(ents, caller)
    return c is not None and c["adm"]


def cred_expected(ents, known, user, pw):
    e = lookup(ents, user)
    if e is None or e["pw"][0] != "S" or e["auth"] is None:
        return False
    return known.get(e["pw"][1]) == pw


def initial_known(file_bytes, truth):
    """hash -> plaintext for the entries whose plaintext the generator knows (hashes read back from the text)."""
    known = {}
    for name, pw in truth.items():
        for m in SETTINGS:
            h = hashed(pw, m)
            if h and h in file_bytes:
                known[h] = pw
    return known


def monitor(sc, hsegs):
    """Evaluates M1..M7 on the harness observations of one scenario.  Returns (findings, stats); a finding is
    {clause, op, what, in_window}."""
    findings = []
    stats = {"passwd": 0, "changed": 0, "refused": 0, "snaps": 0, "snaps_bad_in_window": 0, "auth_ok": 0, "auth_fail": 0,
             "cred": 0, "reload": 0, "errkinds": {}, "prefix_unloadable": 0, "prefix_loadable": 0, "new_loadable": 0, "unsynced_success": 0}
    ents = None
    names = {}
    known = dict(sc.known0)
    file_good = False
    file_bytes = None
    last_new = None          # (serialisation hex, image line) of the last request that wrote
    mem_line = None

    def bad(clause, i, what, in_window=False):
        findings.append({"clause": clause, "op": i, "what": what, "in_window": in_window})

    for i, (op, seg) in enumerate(zip(sc.ops, hsegs)):
        k = op[0]
        if k == "load":
            file_bytes = hx(op[1])
            if seg and seg[0] == "load ok":
                mem_line = seg[1] if len(seg) > 1 else None
                ents = parse_image(mem_line)
                file_good = True
                known = dict(initial_known(op[1], sc.truth))
                known.update(sc.known0)
            else:
                ents, file_good, mem_line = None, False, None
            last_new = None
        elif k == "reload":
            stats["reload"] += 1
            ok = bool(seg) and seg[0] == "load ok"
            if file_good and not ok:
                bad("M7", i, "a credential file that should be intact does not load")
            if ok:
                line = seg[1] if len(seg) > 1 else None
                if file_good and last_new is not None and file_bytes == last_new[0] and line != last_new[1]:
                    bad("M7", i, "the reloaded database differs from the one that was stored")
                mem_line = line
                ents = parse_image(line)
            else:
                ents, mem_line = None, None
        elif k == "peer":
            names[op[1] % 8] = None
            if seg != ["peer %d name=none" % (op[1] % 8)]:
                bad("A0", i, "fresh peer carries a user name: %r" % (seg,))
        elif k == "auth":
            if ents is None:
                continue
            p = op[1] % 8
            exp = cred_expected(ents, known, op[2], op[3])
            got = any(ln == "auth ok" for ln in seg)
            for ln in seg:
                if ln.startswith("peer "):
                    v = ln.split("name=", 1)[1]
                    names[p] = None if v == "none" else (b"" if v[1:] in ("", "-") else bytes.fromhex(v[1:]))
            want_name = op[2] if exp else names.get(p) if not got else names.get(p)
            if got != exp:
                bad("M3", i, "authenticate %r/%r answered %s, expected %s" % (op[2], op[3], got, exp))
            elif exp and names.get(p) != op[2]:
                bad("A1", i, "peer name after successful authenticate is %r" % (names.get(p),))
            stats["auth_ok" if got else "auth_fail"] += 1
            del want_name
        elif k == "cred":
            if ents is None:
                continue
            exp = cred_expected(ents, known, op[1], op[2])
            got = any(ln == "cred ok" for ln in seg)
            stats["cred"] += 1
            if got != exp:
                bad("M3", i, "credentials_ok(%r, %r) = %s, expected %s" % (op[1], op[2], got, exp))
        elif k == "passwd":
            if ents is None:
                continue
            stats["passwd"] += 1
            r = parse_passwd_seg(seg)
            caller = names.get(op[1] % 8)
            auth_ok = authorised(ents, caller, op[2])
            after = parse_image(r["db"])
            resp_ok = r["resp"] == ("ok",)
            changed_db = r["db"] != mem_line
            changed_file = r["file"] != r["old"]
            touched = bool(r["calls"])
            if r["resp"] is None or r["resp"][0] not in ("ok", "err"):
                bad("M1", i, "no well-formed response: %r" % (r["resp"],))
            if r["resp"] and r["resp"][0] == "err":
                kind = REASONS.get(r["resp"][2], "other")
                stats["errkinds"][kind] = stats["errkinds"].get(kind, 0) + 1
            # M1
            if not auth_ok:
                stats["refused"] += 1
                if resp_ok or changed_db or changed_file or touched:
                    bad("M1", i, "unauthorised request (caller %r, target %r) was carried out: response ok=%s db changed=%s "
                        "file changed=%s fs calls=%d" % (caller, op[2], resp_ok, changed_db, changed_file, len(r["calls"])))
            # M2
            if after is None or len(after) != len(ents):
                bad("M2", i, "database image lost or gained entries")
            else:
                tgt = lookup(ents, op[2])
                for a, b in zip(ents, after):
                    if a is tgt:
                        if {x: a[x] for x in a if x != "pw"} != {x: b[x] for x in b if x != "pw"}:
                            bad("M2", i, "target entry changed in more than its password")
                        if a["pw"] != b["pw"]:
                            stats["changed"] += 1
                            if b["pw"][0] != "S":
                                bad("M2", i, "password member no longer a string")
                            else:
                                # the stored hash must be what crypt returned for the new password
                                res = [c for c in r["crypt"] if c[0] == hx(op[3])]
                                if not res or res[-1][2] != "S" + b["pw"][1].hex():
                                    bad("M2", i, "stored hash is not crypt(new password, setting)")
                                known[b["pw"][1]] = op[3]
                    elif a != b:
                        bad("M2", i, "entry %r changed although the target was %r" % (a["name"], op[2]))
            if resp_ok and after is not None and lookup(ents, op[2]) is not None:
                t2 = lookup(after, op[2])
                if t2 is None or t2["pw"][0] != "S" or known.get(t2["pw"][1]) != op[3]:
                    bad("M3", i, "request answered ok but the target's stored hash is not one of the new password")
            # M5
            flags = window_flags(r["calls"])
            old_hex = r["old"]
            new_img = djb2(r["db"]) if r["db"] else None
            first_write = next((c for c in r["calls"] if c["name"] == "write" and c["args"][0] == "main"), None)
            new_hex = first_write["args"][2] if first_write else None
            for c, inw in zip(r["calls"], flags):
                s = c["snap"]
                if s is None:
                    bad("M5", i, "no snapshot after call %d" % c["no"])
                    continue
                stats["snaps"] += 1
                main = s.get("main")
                good = (main == old_hex and file_good) or (s.get("loadable") == "1" and s.get("img") == new_img) or \
                       (main == old_hex and not file_good)
                if new_hex is not None and main == new_hex:
                    stats["new_loadable"] += 1
                    if s.get("loadable") != "1" or s.get("img") != new_img:
                        bad("M6", i, "the complete new serialisation on disk does not load to the stored database")
                elif new_hex is not None and main != old_hex and main is not None and \
                        new_hex.startswith(main if main != "-" else "") and len(main if main != "-" else "") < len(new_hex):
                    stats["prefix_unloadable" if s.get("loadable") == "0" else "prefix_loadable"] += 1
                if not good:
                    if inw:
                        stats["snaps_bad_in_window"] += 1
                    bad("M5", i, "after call %d (%s %s -> %s) the credential file is %s" % (
                        c["no"], c["name"], " ".join(c["args"][:2]), c["ret"],
                        "empty" if main == "-" else "neither old nor new (loadable=%s, %d bytes)" % (
                            s.get("loadable"), len(main or "") // 2)), in_window=inw)
            # M6 and file_good bookkeeping
            if touched:
                final_ok = new_hex is not None and r["file"] == new_hex
                trunc_failed = r["calls"][0]["name"] == "ftruncate" and r["calls"][0]["ret"] == "err"
                if resp_ok and not final_ok:
                    # never excused by the crash window — except when an lseek failed (its result is ignored by the
                    # code: the explicit second clause of F24's trigger)
                    seek_failed = any(c["name"] == "lseek" and c["ret"] == "err" for c in r["calls"])
                    bad("M6", i, "request answered ok but the file does not hold the new serialisation (%d of %d bytes)" % (
                        len(r["file"] or "") // 2 if r["file"] != "-" else 0, len(new_hex or "") // 2), in_window=seek_failed)
                if resp_ok and r["calls"][-1]["snap"] and r["calls"][-1]["snap"].get("synced") == "0":
                    stats["unsynced_success"] += 1
                if final_ok:
                    file_good = True
                    last_new = (new_hex, r["db"])
                elif trunc_failed and not changed_file:
                    pass
                else:
                    file_good = False
            elif changed_file:
                bad("M1", i, "file changed without any intercepted call")
            file_bytes = r["file"]
            mem_line = r["db"]
            ents = after
    return findings, stats


# --------------------------------------------------------------------------- generators

def after_checks(target, new, old, others):
    ops = [("cred", target, new)]
    if old is not None and old != new:
        ops.append(("cred", target, old))
    for n, p in others:
        ops.append(("cred", n, p))
    return ops


def matrix_scenarios():
    """all user kinds as caller x all user kinds as target, fault-free file system."""
    fb, truth = db_kinds()
    callers = [("unauth", None), ("plain", (b"alice", b"alicepw1")), ("plain2", (b"bob", b"bobpw222")),
               ("admin", (b"root", b"rootpw33")), ("readonly", (b"guest", b"guestpw4")), ("roadm", (b"roadm", b"roadmpw5")),
               ("wrongpw", (b"alice", b"nope")), ("unknown", (b"mallory", b"x")), ("casevariant", (b"ALICE", b"alicepw1")),
               ("shadowed", (b"Alice", b"ALICEPW7")), ("notjsontrue", (b"rostr", b"rostrpw8")), ("noauth", (b"noauth", b"noauthp6")),
               ("des", (b"desu", b"desupw99")), ("umlaut", (b"r\xf6s", b"umlautpw")), ("prefixname", (b"bo", b"bopw-prefix"))]
    targets = [b"alice", b"bob", b"root", b"guest", b"roadm", b"nopw", b"pwnum", b"noauth", b"Alice", b"ALICE", b"bcrypt", b"odd",
               b"emptyh", b"rostr", b"desu", b"r\xf6s", b"R\xd6S", b"mallory", b"", b"alic", b"alicee", b"bo"]
    out = []
    rnd = bytes(range(7, 47))
    for cn, cred in callers:
        for t in targets:
            ops = []
            if cred is not None:
                ops.append(("auth", 0, cred[0], cred[1]))
            ops.append(("passwd", 0, t, b"NEWpw-" + t[:2] + b"!", rnd, ""))
            old = truth.get(t) or truth.get(t.lower())
            ops += after_checks(t, b"NEWpw-" + t[:2] + b"!", old, [(b"bob", b"bobpw222"), (b"root", b"rootpw33")])
            ops.append(("reload",))
            ops += after_checks(t, b"NEWpw-" + t[:2] + b"!", old, [(b"alice", b"alicepw1")])
            ops.append(("auth", 1, t, b"NEWpw-" + t[:2] + b"!"))
            out.append(scenario("matrix/%s/%s" % (cn, t.decode("latin-1")), fb, truth, ops, family="matrix"))
    return out


def order_scenarios():
    fb, truth = db_kinds()
    r = bytes(range(100, 140))
    S = []

    def sc(name, ops):
        S.append(scenario("order/" + name, fb, truth, ops, family="order"))

    sc("passwd-before-auth", [("passwd", 0, b"alice", b"n1", r, ""), ("auth", 0, b"alice", b"alicepw1"),
                              ("passwd", 0, b"alice", b"n1", r, ""), ("cred", b"alice", b"n1"), ("cred", b"alice", b"alicepw1")])
    sc("change-then-old-fails", [("auth", 0, b"alice", b"alicepw1"), ("passwd", 0, b"alice", b"second", r, ""),
                                 ("auth", 1, b"alice", b"alicepw1"), ("auth", 2, b"alice", b"second"),
                                 ("passwd", 1, b"alice", b"third", r, ""), ("passwd", 2, b"alice", b"third", r, ""),
                                 ("cred", b"alice", b"third"), ("cred", b"alice", b"second"), ("reload",),
                                 ("cred", b"alice", b"third"), ("cred", b"alice", b"second"), ("cred", b"alice", b"alicepw1")])
    sc("twice", [("auth", 0, b"bob", b"bobpw222"), ("passwd", 0, b"bob", b"b2", r, ""), ("passwd", 0, b"bob", b"b3", r[5:], ""),
                 ("cred", b"bob", b"b3"), ("cred", b"bob", b"b2"), ("cred", b"bob", b"bobpw222"), ("reload",), ("cred", b"bob", b"b3")])
    sc("admin-changes-other", [("auth", 0, b"root", b"rootpw33"), ("auth", 1, b"bob", b"bobpw222"),
                               ("passwd", 0, b"bob", b"byroot", r, ""), ("auth", 2, b"bob", b"byroot"), ("auth", 3, b"bob", b"bobpw222"),
                               ("passwd", 1, b"bob", b"again", r, ""), ("cred", b"bob", b"again"), ("cred", b"bob", b"byroot"),
                               ("passwd", 0, b"guest", b"g", r, ""), ("passwd", 0, b"root", b"r2", r, ""), ("cred", b"root", b"r2"),
                               ("cred", b"root", b"rootpw33")])
    sc("failed-reauth-keeps-name", [("auth", 0, b"alice", b"alicepw1"), ("auth", 0, b"bob", b"wrong"),
                                    ("passwd", 0, b"alice", b"still", r, ""), ("passwd", 0, b"bob", b"no", r, ""),
                                    ("cred", b"alice", b"still"), ("cred", b"bob", b"bobpw222")])
    sc("reauth-switches-name", [("auth", 0, b"alice", b"alicepw1"), ("auth", 0, b"bob", b"bobpw222"),
                                ("passwd", 0, b"alice", b"no", r, ""), ("passwd", 0, b"bob", b"yes", r, ""),
                                ("cred", b"alice", b"alicepw1"), ("cred", b"bob", b"yes")])
    sc("new-connection-is-anonymous", [("auth", 0, b"root", b"rootpw33"), ("peer", 0), ("passwd", 0, b"bob", b"x", r, ""),
                                       ("passwd", 0, b"root", b"x", r, ""), ("cred", b"bob", b"bobpw222")])
    sc("case-variant-caller", [("auth", 0, b"ALICE", b"alicepw1"), ("passwd", 0, b"ALICE", b"viaupper", r, ""),
                               ("cred", b"alice", b"viaupper"), ("passwd", 0, b"alice", b"lower", r, ""),
                               ("cred", b"alice", b"lower"), ("cred", b"Alice", b"ALICEPW7")])
    sc("admin-after-own-change", [("auth", 0, b"root", b"rootpw33"), ("passwd", 0, b"root", b"rr", r, ""),
                                  ("passwd", 0, b"alice", b"aa", r, ""), ("auth", 1, b"root", b"rootpw33"), ("auth", 1, b"root", b"rr"),
                                  ("passwd", 1, b"desu", b"dd-new-1", r, ""), ("cred", b"desu", b"dd-new-1"), ("cred", b"desu", b"desupw99")])
    sc("same-password-again", [("auth", 0, b"bob", b"bobpw222"), ("passwd", 0, b"bob", b"bobpw222", r, ""),
                               ("cred", b"bob", b"bobpw222"), ("reload",), ("cred", b"bob", b"bobpw222")])
    sc("all-methods", [("auth", 0, b"root", b"rootpw33"), ("passwd", 0, b"alice", b"m6", r, ""), ("passwd", 0, b"bob", b"m1", r, ""),
                       ("passwd", 0, b"root", b"m5", r, ""), ("passwd", 0, b"desu", b"mdes-xyz", r, ""), ("passwd", 0, b"emptyh", b"e", r, ""),
                       ("passwd", 0, b"bcrypt", b"b", r, ""), ("passwd", 0, b"odd", b"o", r, ""),
                       ("cred", b"alice", b"m6"), ("cred", b"bob", b"m1"), ("cred", b"root", b"m5"), ("cred", b"desu", b"mdes-xyz"),
                       ("cred", b"emptyh", b"e"), ("reload",), ("cred", b"alice", b"m6"), ("cred", b"emptyh", b"e"),
                       ("passwd", 0, b"alice", b"m6b", b"", ""), ("passwd", 0, b"root", b"m5b", b"\xff" * 40, ""),
                       ("cred", b"alice", b"m6b"), ("cred", b"root", b"m5b")])
    std = repo_std_file()
    if std is not None:
        t = {b"john": b"doe", b"john-ro": b"doe", b"john-admin": b"doe"}
        s = scenario("order/repo-test-file", std, {}, [
            ("passwd", 0, b"john", b"secret", r, ""), ("auth", 0, b"john", b"doe"), ("passwd", 0, b"john", b"secret", r, ""),
            ("cred", b"john", b"doe"), ("cred", b"john", b"secret"), ("passwd", 0, b"john-ro", b"secret", r, ""),
            ("passwd", 0, b"bob", b"secret", r, ""), ("auth", 1, b"john-admin", b"doe"), ("passwd", 1, b"bob", b"secret", r, ""),
            ("cred", b"bob", b"secret"), ("passwd", 1, b"john-ro", b"secret", r, ""), ("passwd", 1, b"john-no_passwd", b"s", r, ""),
            ("passwd", 1, b"john-pw_no_string", b"s", r, ""), ("passwd", 1, b"bob_read_only", b"s", r, ""), ("reload",),
            ("cred", b"john", b"secret"), ("cred", b"bob", b"secret")], family="order",
            known0={real_crypt(b"doe", b"$6$QieAoprju2Gf$"): b"doe"})   # the stored hashes of the test file are all "doe"
        del t
        S.append(s)
    return S


def new_serialisation_length(binp, db):
    """Length of cJSON_Print of a small database after a change (measured on the real code)."""
    fb, truth = db()
    sc = scenario("probe", fb, truth, [("auth", 0, b"u", b"oldpw"), ("passwd", 0, b"u", b"newpw", b"\x05" * 12, "")])
    segs, rc, err = run_harness(binp, sc.lines(), "probe")
    r = parse_passwd_seg(segs[-1])
    fw = next((c for c in r["calls"] if c["name"] == "write"), None)
    return int(fw["args"][1]) if fw else 0


def fs_ops(o):
    return [("auth", 0, b"u", b"oldpw"), ("passwd", 0, b"u", b"newpw", b"\x05" * 12, o),
            ("cred", b"u", b"newpw"), ("cred", b"u", b"oldpw"), ("cred", b"adm", b"admpw"), ("reload",),
            ("cred", b"u", b"newpw"), ("cred", b"u", b"oldpw")]


def fs_scenarios(n, ntiny, thorough):
    """For a successful change: every outcome of every file-system call, exhaustively where the space is small:
    ftruncate/lseek ok|err; first write ok|err|0|short k for EVERY k (small database, n bytes); two consecutive short
    writes (k, j): every pair on the tiny database (thorough) or a stride (quick), each followed by completion and by
    an error.  Every snapshot is a crash point (a crash inside a write after k bytes = the snapshot after short k)."""
    fb, truth = db_small()
    outs = []
    for t in ("ok", "err"):
        for s in ("ok", "err"):
            for w in ("ok", "err", "z", "z,z,ok", "z,err"):
                outs.append("%s,%s,%s" % (t, s, w))
    for k in range(1, n):
        outs.append("ok,ok,s%d" % k)                  # then complete
        outs.append("ok,ok,s%d,err" % k)
    for k in range(1, n, 7):
        outs.append("ok,ok,s%d,z,ok" % k)
        outs.append("ok,ok,s%d,s%d,s%d,s%d" % (k, max(1, (n - k) // 3), max(1, (n - k) // 3), 1))
    outs.append("ok,err,s3,ok")
    scs = [scenario("fs/%s" % o, fb, truth, fs_ops(o), family="fs-exhaustive") for o in outs]
    # pairs on the tiny database
    fbt, trutht = db_tiny()
    stride = 1 if thorough else max(1, ntiny // 14)
    for k in range(1, ntiny, stride):
        js = set(range(1, ntiny - k, stride)) | {ntiny - k - 1, (ntiny - k) // 2, (ntiny - k + 1) // 2}
        for j in sorted(js):
            if j < 1 or k + j >= ntiny:
                continue
            scs.append(scenario("fs2/s%d,s%d" % (k, j), fbt, trutht, fs_ops("ok,ok,s%d,s%d" % (k, j)), family="fs-exhaustive-pairs"))
            if thorough or (k + j) % 3 == 0:
                scs.append(scenario("fs2/s%d,s%d,err" % (k, j), fbt, trutht, fs_ops("ok,ok,s%d,s%d,err" % (k, j)),
                                    family="fs-exhaustive-pairs"))
    # sequences: a second request after a clean / failed first one (the descriptor offset is n then)
    rnd = b"\x05" * 12
    for o1, o2 in (("", "ok,err,ok"), ("", "ok,err,s5,ok"), ("ok,ok,err", ""), ("ok,ok,s7,err", "ok,ok,s2"), ("err", ""),
                   ("", "err"), ("ok,ok,s9", "ok,ok,s4,s4,s4"), ("ok,err", "ok,err")):
        ops = [("auth", 0, b"u", b"oldpw"), ("passwd", 0, b"u", b"p1", rnd, o1), ("passwd", 0, b"u", b"p2", rnd, o2),
               ("cred", b"u", b"p2"), ("cred", b"u", b"p1"), ("reload",), ("cred", b"u", b"p2"), ("cred", b"adm", b"admpw")]
        scs.append(scenario("fs-seq/%s/%s" % (o1, o2), fb, truth, ops, family="fs-sequence"))
    return scs


NAMES = [b"ann", b"Ann", b"ANN", b"ben", b"cy", b"root", b"Root", b"x", b"xy", b"dave", b"\xe9ve"]


def random_scenario(i):
    rng = C.rng("c20", i)
    nusers = rng.randint(1, 6)
    users, truth = [], {}
    used = []
    for _ in range(nusers):
        name = rng.choice(NAMES)
        kind = rng.choice(["plain", "plain", "admin", "ro", "roadm", "nopw", "pwnum", "noauth", "badhash"])
        method = rng.choice(["des", "md5", "md5", "sha256", "sha512"])
        pw = b"pw%02d%s" % (len(users), name[:1])
        if kind == "nopw":
            users.append(std_user(name, None))
        elif kind == "pwnum":
            users.append(std_user(name, None, pwraw=rng.choice(["17", "true", "null", "[]"])))
        elif kind == "badhash":
            users.append(std_user(name, None, pwraw=rng.choice(['"$9$zz$abc"', '"$"', '"x"', '"$6$"'])))
        else:
            users.append(std_user(name, pw, method, ro="true" if kind in ("ro", "roadm") else rng.choice([None, "false"]),
                                  adm="true" if kind in ("admin", "roadm") else rng.choice([None, "false", "0"]),
                                  auth=(kind != "noauth")))
            if name.lower() not in [u.lower() for u in used]:
                truth[name] = pw
        used.append(name)
    fb = make_file(users)
    cur = dict(truth)
    ops = []
    outcome_pool = ["", "", "", "ok,ok,s%d" % rng.randint(1, 60), "ok,ok,err", "err", "ok,err", "ok,ok,s%d,s%d" % (
        rng.randint(1, 40), rng.randint(1, 40)), "ok,ok,z,ok", "ok,ok,s%d,err" % rng.randint(1, 90)]
    for _ in range(rng.randint(3, 12)):
        c = rng.random()
        p = rng.randint(0, 3)
        if c < 0.3:
            n = rng.choice(NAMES)
            pw = cur.get(n) or cur.get(n.lower()) or b"guess"
            if rng.random() < 0.25:
                pw = b"wrong"
            ops.append(("auth", p, n, pw))
        elif c < 0.75:
            t = rng.choice(NAMES)
            new = b"n%02d-%d" % (len(ops), rng.randint(0, 9))
            rb = bytes(rng.randint(0, 255) for _ in range(rng.choice([0, 3, 20, 24])))
            o = rng.choice(outcome_pool)
            ops.append(("passwd", p, t, new, rb, o))
            ops.append(("cred", t, new))
            old = cur.get(t)
            if old:
                ops.append(("cred", t, old))
        elif c < 0.85:
            ops.append(("reload",))
        elif c < 0.92:
            ops.append(("peer", p))
        else:
            n = rng.choice(NAMES)
            ops.append(("cred", n, cur.get(n, b"zz")))
    return scenario("rand/%d" % i, fb, truth, ops, family="random")


# --------------------------------------------------------------------------- evaluation of a batch

def evaluate(binp, scs, tag):
    """Runs a batch of scenarios through harness and driver (one process each); returns per-scenario results.
    When the harness process aborts (sanitizer report = a result), the batch is re-run one scenario at a time so
    that the abort is attributed to the scenario that causes it."""
    lines = []
    bounds = []
    for sc in scs:
        ls = sc.lines()
        bounds.append((len(lines), len(lines) + len(ls)))
        lines += ls
    hsegs, rc, err = run_harness(binp, lines, tag)
    if rc != 0 and len(scs) > 1:
        out = []
        for j, sc in enumerate(scs):
            out += evaluate(binp, [sc], "%s_%d" % (tag, j))
        return out
    all_ops = [o for sc in scs for o in sc.ops]
    dsegs = run_driver(driver_script(all_ops, hsegs))
    res = []
    for sc, (a, b) in zip(scs, bounds):
        hs, ds = hsegs[a:b], dsegs[a:b]
        diff = None
        for j, (h, d) in enumerate(zip(hs, ds)):
            ch = canon_h(h)
            cm = canon_m(d, ch)
            if ch != cm:
                first = next((x for x in range(max(len(ch), len(cm))) if x >= len(ch) or x >= len(cm) or ch[x] != cm[x]), 0)
                diff = {"op": j, "op_line": op_line(sc.ops[j])[:300], "impl": ch[first][:400] if first < len(ch) else None,
                        "model": cm[first][:400] if first < len(cm) else None}
                break
        findings, stats = monitor(sc, hs)
        stats["crypt"] = crypt_assumptions(hs)
        res.append({"sc": sc, "diff": diff, "findings": findings, "stats": stats, "hsegs": hs, "dsegs": ds,
                    "crashed": rc != 0, "stderr": err[-3000:] if rc != 0 else ""})
    return res


def crypt_assumptions(hsegs):
    """The two CryptOk assumptions evaluated on the crypt calls the real code made in one scenario:
    verifies: crypt(p, s) = h and a later crypt(p, h) = r  =>  r = h;   distinct: crypt(p, s) = crypt(q, s) => p = q."""
    calls = []
    for seg in hsegs:
        for ln in seg:
            if ln.startswith("crypt "):
                w = ln.split()
                calls.append((w[1], w[2], w[3]))
    res = {"calls": len(calls), "verifies_checked": 0, "verifies_failed": 0, "distinct_checked": 0, "distinct_failed": 0,
           "failure_tokens": 0, "null": 0}
    produced = {}      # password -> set of proper hashes crypt produced for it
    by_setting = {}
    for p, s_, r in calls:
        if not r.startswith("S"):
            res["null"] += 1
            continue
        h = r[1:] or "-"
        if h.startswith("2a"):          # "*0" / "*1": libcrypt's failure tokens, outside both assumptions
            res["failure_tokens"] += 1
            continue
        if s_ in produced.get(p, ()):
            res["verifies_checked"] += 1
            if h != s_:
                res["verifies_failed"] += 1
        produced.setdefault(p, set()).add(h)
        for q, hq in by_setting.get(s_, {}).items():
            if q != p:
                res["distinct_checked"] += 1
                if hq == h:
                    res["distinct_failed"] += 1
        by_setting.setdefault(s_, {})[p] = h
    return res


def shrink(binp, sc, still_fails):
    """Greedy: drop ops (never the load) while the failure persists."""
    ops = list(sc.ops)
    changed = True
    rounds = 0
    while changed and rounds < 4:
        changed = False
        rounds += 1
        i = len(ops) - 1
        while i >= 1:
            cand = ops[:i] + ops[i + 1:]
            if still_fails(evaluate(binp, [sc.with_ops(cand)], "shrink")[0]):
                ops = cand
                changed = True
            i -= 1
    return sc.with_ops(ops)


def replay_obj(ctx, r, clause, what):
    sc = r["sc"]
    return {"property": "C20", "scenario": sc.name, "family": sc.family, "seed": ctx.seed, "variant": "default",
            "failing_clause": clause, "what": what,
            "script": sc.lines(), "how": "build harness/comp/authfile.c as vlib/props/c20.py:build() does; run `authfile <workdir> < script`",
            "truth": {hx(k): hx(v) for k, v in sc.truth.items()}, "known0": {hx(k): hx(v) for k, v in sc.known0.items()},
            "impl_trace": [ln[:600] for seg in r["hsegs"] for ln in seg][:400],
            "model_trace": [ln[:600] for seg in r["dsegs"] for ln in seg][:400],
            "first_difference": r["diff"]}


def load_scenario_file(rel):
    p = os.path.join(C.ROOT, rel)
    ops = []
    truth = {}
    with open(p) as f:
        for ln in f:
            if ln.startswith("#truth "):
                w = ln.split()
                truth[C.unhex(w[1])] = C.unhex(w[2])
                continue
            o = parse_op(ln)
            if o is not None:
                ops.append(o)
    return Scenario(rel, ops, truth)


def scenario_from_replay(obj):
    ops = [o for o in (parse_op(ln) for ln in obj["script"]) if o is not None]
    truth = {C.unhex(k): C.unhex(v) for k, v in obj.get("truth", {}).items()}
    known0 = {C.unhex(k): C.unhex(v) for k, v in obj.get("known0", {}).items()}
    return Scenario(obj.get("scenario", "replay"), ops, truth, obj.get("family", "replay"), known0)


def run_replay(ctx, out, binp):
    """./check C20 --replay <file>: re-run the script of a replay file (or a scenarios/*.txt script)."""
    import json
    if ctx.replay.endswith(".txt"):
        sc = load_scenario_file(os.path.relpath(os.path.abspath(ctx.replay), C.ROOT))
    else:
        sc = scenario_from_replay(json.load(open(ctx.replay)))
    r = evaluate(binp, [sc], "replay")[0]
    kf_open = {e["id"] for e in C.open_findings("C20")}
    hard = [f for f in r["findings"] if not f["in_window"]]
    soft = [f for f in r["findings"] if f["in_window"]]
    for f in r["findings"]:
        C.log("  %s op %d: %s%s" % (f["clause"], f["op"], f["what"], " [inside F24 window]" if f["in_window"] else ""))
    if r["diff"]:
        C.log("  model/implementation differ: %r" % (r["diff"],))
    if r["crashed"]:
        out.violation("the real code aborted", replay_obj(ctx, r, "abort", r["stderr"]))
    elif hard or (soft and ("F24" not in kf_open or r["diff"] is not None)):
        f = (hard or soft)[0]
        out.violation("C20 %s: %s" % (f["clause"], f["what"]), replay_obj(ctx, r, f["clause"], f["what"]))
    elif r["diff"] is not None:
        out.violation("model and code differ", replay_obj(ctx, r, "correspondence", "model and implementation differ"), no_input=True)
    elif soft:
        out.known_finding("F24 truncate-then-write is not crash-atomic: %s" % soft[0]["what"])
    out.coverage.update({"traces_validated_against_impl": 1, "evaluations": sum(
        v for k, v in r["stats"].items() if isinstance(v, int)), "replay": ctx.replay})


# --------------------------------------------------------------------------- entry point

def run(ctx, out):
    t0 = time.time()
    binp = build()
    out.assumptions += [
        "crypt(3) of the installed libcrypt is a parameter of the model; the theorems assume (CryptOk) that it verifies its own "
        "output and that distinct passwords give distinct hashes under one setting — checked on every observed call "
        "(DES truncates to 8 seven-bit characters: the generator keeps passwords distinct within that)",
        "cJSON_Print / load_passwd_data are parameters (Codec): the new serialisation loads back to the stored database and no "
        "strict prefix of it (incl. the empty file) loads — checked on every snapshot against the real loader",
        "file-system model: one regular file, contents = bytes, one descriptor offset; a crash keeps what the calls so far put "
        "into the file (page cache = disk); the code never calls fsync, durability after power loss is not claimed",
        "the harness's wrappers' semantics for short writes / errors (a failed call changes nothing)",
    ]
    if getattr(ctx, "replay", None):
        return run_replay(ctx, out, binp)
    n = new_serialisation_length(binp, db_small)
    ntiny = new_serialisation_length(binp, db_tiny)
    scs = matrix_scenarios() + order_scenarios() + fs_scenarios(n, ntiny, ctx.thorough)
    nrand = 6000 if ctx.thorough else 400
    scs += [random_scenario(i) for i in range(nrand)]
    # known-finding replays and regression replays
    kf_open = {e["id"]: e for e in C.open_findings("C20")}
    replays = []
    for e in C.known_findings("C20"):
        rp = e.get("replay")
        if rp and os.path.exists(os.path.join(C.ROOT, rp)):
            s = load_scenario_file(rp)
            s.family = "known-finding-replay:" + e["id"]
            s.kf = e
            replays.append(s)
    scs = replays + scs

    # batches over all cores
    nb = max(1, min(C.NPROC, len(scs) // 20 or 1))
    batches = [scs[i::nb] for i in range(nb)]
    results = []
    with concurrent.futures.ThreadPoolExecutor(max_workers=C.NPROC) as ex:
        for res in ex.map(lambda ib: evaluate(binp, ib[1], "b%d" % ib[0]), list(enumerate(batches))):
            results += res

    agg = {"passwd": 0, "changed": 0, "refused": 0, "snaps": 0, "snaps_bad_in_window": 0, "auth_ok": 0, "auth_fail": 0, "cred": 0,
           "reload": 0, "prefix_unloadable": 0, "prefix_loadable": 0, "new_loadable": 0, "unsynced_success": 0}
    cr = {"calls": 0, "verifies_checked": 0, "verifies_failed": 0, "distinct_checked": 0, "distinct_failed": 0,
          "failure_tokens": 0, "null": 0}
    errk = {}
    fam = {}
    reported = 0
    kf_seen = {}
    todo = []       # (priority, index, result, kind)
    for idx, r in enumerate(results):
        sc = r["sc"]
        fam[sc.family] = fam.get(sc.family, 0) + 1
        for k in agg:
            agg[k] += r["stats"].get(k, 0)
        for k, v in r["stats"]["errkinds"].items():
            errk[k] = errk.get(k, 0) + v
        for k in cr:
            cr[k] += r["stats"]["crypt"][k]
        hard = [f for f in r["findings"] if not f["in_window"]]
        soft = [f for f in r["findings"] if f["in_window"]]
        if r["crashed"]:
            todo.append((1, idx, r, "abort"))
        elif hard:
            todo.append((0, idx, r, "hard"))
        elif soft and not ("F24" in kf_open and r["diff"] is None):
            todo.append((2, idx, r, "soft"))
        elif r["diff"] is not None:
            todo.append((3, idx, r, "diff"))
        elif soft:
            kf_seen["F24"] = kf_seen.get("F24", 0) + len(soft)
    todo.sort(key=lambda t: (t[0], len(t[2]["sc"].ops), t[1]))
    seen_what = set()
    for prio, idx, r, kind in todo:
        if reported >= 5:
            break
        sc = r["sc"]
        if kind == "abort":
            out.violation("the real code aborted (sanitizer / crash) in scenario %s" % sc.name,
                          replay_obj(ctx, r, "abort", r["stderr"]))
            reported += 1
        elif kind in ("hard", "soft"):
            fs_ = [f for f in r["findings"] if (not f["in_window"]) or kind == "soft"]
            clause = fs_[0]["clause"]
            key = (clause, re.sub(r"\d+", "N", fs_[0]["what"])[:80])
            if key in seen_what and reported >= 2:
                continue
            seen_what.add(key)
            want_soft = kind == "soft"
            small = shrink(binp, sc, lambda rr: any(f["clause"] == clause and (want_soft or not f["in_window"])
                                                    for f in rr["findings"]) and (not want_soft or rr["diff"] is not None
                                                                                  or "F24" not in kf_open))
            rr = evaluate(binp, [small], "final")[0]
            ff = [f for f in rr["findings"] if f["clause"] == clause and (want_soft or not f["in_window"])] or fs_
            out.violation("C20 %s: %s" % (clause, ff[0]["what"]), replay_obj(ctx, rr, clause, ff[0]["what"]))
            reported += 1
        else:
            small = shrink(binp, sc, lambda rr: rr["diff"] is not None and not [f for f in rr["findings"] if not f["in_window"]])
            rr = evaluate(binp, [small], "final")[0]
            obj = replay_obj(ctx, rr, "correspondence",
                             "model and implementation differ; the property's monitor holds on the implementation")
            obj["no_longer_checks"] = ("correspondence Cjet.Authfile <-> src/posix/auth_file.c "
                                       "(the theorems of Cjet.Props.C20 speak about the model)")
            out.violation("model and code differ in scenario %s" % sc.name, obj, no_input=True)
            reported += 1

    # known findings: the directed replay decides whether the line is printed
    for s in replays:
        e = s.kf
        rr = next((r for r in results if r["sc"] is s), None)
        if rr is None:
            continue
        soft = [f for f in rr["findings"] if f["in_window"]]
        if e.get("status") == "open" and soft and rr["diff"] is None:
            out.known_finding("%s truncate-then-write is not crash-atomic: %s (replay %s; %d crash points inside the window failed in this run)" % (
                e["id"], soft[0]["what"], e.get("replay"), kf_seen.get(e["id"], len(soft))))

    if cr["verifies_failed"] or cr["distinct_failed"]:
        out.notes.append("crypt assumption failed on observed calls (see coverage.crypt_assumptions_on_observed_calls): "
                         "the installed libcrypt does not satisfy CryptOk for some generated password pair")
    if agg["unsynced_success"]:
        out.notes.append("write_user_data never calls fsync: after %d successful requests the new data was only in the page cache "
                         "(part of F24; durability after power loss is not claimed by the model)" % agg["unsynced_success"])
    out.coverage.update({
        "traces_validated_against_impl": len(results),
        "evaluations": agg["passwd"] + agg["cred"] + agg["auth_ok"] + agg["auth_fail"] + agg["snaps"] + agg["reload"],
        "distinct_nontrivial": len({(r["sc"].family, tuple(op_line(o) for o in r["sc"].ops[5:])) for r in results
                                    if r["stats"]["passwd"] > 0}),
        "rule": "scenarios with at least one passwd request, distinct by their operation list after the load",
        "families": fam,
        "passwd_requests": agg["passwd"], "changes_carried_out": agg["changed"], "unauthorised_requests_refused": agg["refused"],
        "error_kinds": errk,
        "crash_points_checked": agg["snaps"], "crash_points_failing_inside_F24_window": agg["snaps_bad_in_window"],
        "snapshots_equal_to_new_serialisation_loadable": agg["new_loadable"],
        "strict_prefix_snapshots_unloadable": agg["prefix_unloadable"], "strict_prefix_snapshots_loadable": agg["prefix_loadable"],
        "crypt_assumptions_on_observed_calls": cr,
        "successful_requests_left_unsynced": agg["unsynced_success"],
        "credentials_ok_verdicts_checked": agg["cred"], "authenticate_ok": agg["auth_ok"], "authenticate_refused": agg["auth_fail"],
        "reloads": agg["reload"],
        "new_serialisation_bytes": {"small": n, "tiny": ntiny},
        "exhaustive": bool(ctx.thorough),   # quick: the matrix and the single-short-write enumeration are complete, the pairs are strided
        "exhaustive_what": "caller kind x target kind matrix (15 x 22); ftruncate/lseek/first write outcomes incl. a short write at "
                           "EVERY byte position of the %d-byte serialisation, each then completed and then failed; " % n
                           + ("EVERY pair of two consecutive short writes on the %d-byte serialisation" % ntiny if ctx.thorough
                              else "pairs of consecutive short writes on a stride (thorough: every pair)"),
        "samples": [r["sc"].lines()[5:9] for r in results[:3]] + [results[-1]["sc"].lines()[5:8]],
        "tie_wall_s": round(time.time() - t0, 1),
    })
    # cJSON_ReplaceItemInObject, the call change_password replaces the password member with: the real cJSON.c against
    # Cjet.Cjson.TreeOps, every key-copy failure included (finding F69, repaired)
    from vlib import cjsontree_tie
    cjsontree_tie.run_cjsontree_tie(ctx, out)
