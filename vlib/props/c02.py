"""C02 — JSON-RPC discipline.  Proof: Cjet.Props.C02 over the daemon model; tie: whole daemon on the simulated kernel vs
the model (projection: connection, id, result|error, error code, order) + the C02 monitor on the implementation's trace."""
from vlib import common as C
from vlib import dcheck, directed

LEVEL = "proof"


def run(ctx, out):
    dcheck.run_property(ctx, out, "C02", "mon_c02_all", n_quick=400, n_thorough=6000,
                        gen_kw=dict(ws_share=0.35, batches=0.2, malformed=0.06),
                        directed=directed.regressions() + directed.batch_orders() + directed.reply_forms() + directed.orphan_routes() + directed.huge_timeouts() + directed.escaped_ids() + directed.requester_backpressure())
    out.assumptions += ["cJSON parse/print are outside the model; the generator's JSON values are what cJSON yields for the text sent",
                        "'answered' = handed to the connection's send function (delivery of the bytes is C10)"]
