"""C16 — fetch path rules select exactly the paths their matchers describe.

Proof side: lean/Cjet/Props/C16.lean over the model lean/Cjet/Matcher.lean (audited by `check`).
This module is the tie and the search:

  * builds harness/comp/matcher.c (the REAL fetch.c, cJSON, alloc.c, response.c, groups.c, jet_string*.c
    of the tree under test, ASan+UBSan) and runs it and the model driver `drv_matcher` on the same scripts;
  * compares the observation streams line by line (errors by JSON-RPC code, accepted rules by the complete
    matcher array, verdicts, `get` selections);
  * independently evaluates the PROPERTY on the implementation's own outputs with a small Python reference
    (`==`, startswith, endswith, `in`, ASCII-only lower) — a disagreement there is a VIOLATION with a concrete
    input; model≠implementation without a property failure is reported with `no-failing-input-found`;
  * a sanitizer abort / crash of the harness is a result: the crashing case is isolated and reported.

Script structure: a list of *cases*; a case is a list of protocol lines that is self-contained (a `rule` line
followed by the `match` lines that use it, or a single stateless op), so that after a crash the run resumes with
the next case.
"""
import itertools
import json
import os
import re
import time

from vlib import common as C

LEVEL = "proof"

KINDS = ["equals", "equalsNot", "startsWith", "endsWith", "contains", "containsAllOf"]
OPTION = b"caseInsensitive"
INVALID_PARAMS = -32602
INTERNAL_ERROR = -32603
MODEL_ERR_CODE = {"path_not_object": INVALID_PARAMS, "no_matcher": INVALID_PARAMS, "too_many": INVALID_PARAMS,
                  "add_failed": INTERNAL_ERROR}
REASONS = {"path_not_object": "fetch path is not an object", "no_matcher": "no matcher in path object",
           "too_many": "too many matchers in path object", "add_failed": "could not add matchers to fetch"}


# ----------------------------------------------------------------------------- encoding

def hx(b):
    return b.hex() if b else "-"


def enc_item(it):
    return "s" + it[1].hex() if it[0] == "s" else it[0]


def enc_val(v):
    if v[0] == "s":
        return "s" + v[1].hex()
    if v[0] == "a":
        return "a" + ",".join(enc_item(i) for i in v[1])
    return v[0]


def enc_rule(r):
    if r[0] == "absent":
        return "~"
    if r[0] == "notobj":
        return "!" + r[1]
    return "@" + ";".join(k.hex() + "=" + enc_val(v) for k, v in r[1])


def json_str(b):
    out = bytearray(b'"')
    for c in b:
        if c == 0x22:
            out += b'\\"'
        elif c == 0x5C:
            out += b"\\\\"
        elif c < 0x20:
            out += b"\\u%04x" % c
        else:
            out.append(c)
    out += b'"'
    return bytes(out)


SCALAR_JSON = {"t": b"true", "f": b"false", "z": b"null", "n": b"1", "o": b"{}", "a": b"[]"}


def json_val(v):
    if v[0] == "s":
        return json_str(v[1])
    if v[0] == "a" and len(v) > 1:
        return b"[" + b",".join(json_val(i) if i[0] == "s" else SCALAR_JSON[i[0]] for i in v[1]) + b"]"
    return SCALAR_JSON[v[0]]


def json_request(r):
    """The request text the daemon would receive for this rule (method fetch, fetch id "f")."""
    if r[0] == "absent":
        path = b""
    elif r[0] == "notobj":
        path = b',"path":' + (b'"x"' if r[1] == "s" else SCALAR_JSON[r[1]])
    else:
        path = b',"path":{' + b",".join(json_str(k) + b":" + json_val(v) for k, v in r[1]) + b"}"
    return b'{"id":7,"method":"fetch","params":{"id":"f"' + path + b"}}"


# ----------------------------------------------------------------------------- python reference (the property)

def cview(b):
    i = b.find(b"\0")
    return b if i < 0 else b[:i]


def fold(ci, s):
    return bytes(c + 32 if 65 <= c <= 90 else c for c in s) if ci else s


def spec(kind, ci, ops, path):
    p = fold(ci, path)
    o = [fold(ci, x) for x in ops]
    if kind == "equals":
        return o[0] == p
    if kind == "equalsNot":
        return o[0] != p
    if kind == "startsWith":
        return p.startswith(o[0])
    if kind == "endsWith":
        return p.endswith(o[0])
    if kind == "contains":
        return o[0] in p
    if kind == "containsAllOf":
        return all(x in p for x in o)
    raise ValueError(kind)


def operands(kind, v):
    """None when the operand is wrongly typed for the kind."""
    if kind == "containsAllOf":
        if v[0] != "a" or not v[1] or any(i[0] != "s" for i in v[1]):
            return None
        return [cview(i[1]) for i in v[1]]
    if v[0] != "s":
        return None
    return [cview(v[1])]


def classify(rule, max_matchers):
    """What the property says about a rule object:
       ('all',)                      no rule: selects everything
       ('refuse', why)               must be refused
       ('either',)                   the property does not say (path object without any matcher)
       ('repeated',)                 option key repeated: refused, or as given once (judged against companions)
       ('accept', ci, [(kind, ops)]) must be accepted and select exactly the conjunction"""
    if rule[0] == "absent":
        return ("all",)
    if rule[0] == "notobj":
        return ("refuse", "path is not an object")
    members = rule[1]
    opts = [v for k, v in members if cview(k) == OPTION]
    decl = []
    for k, v in members:
        name = cview(k)
        if name == OPTION:
            continue
        try:
            kind = name.decode("ascii")
        except UnicodeDecodeError:
            kind = None
        if kind not in KINDS:
            return ("refuse", "unknown matcher name")
        ops = operands(kind, v)
        if ops is None:
            return ("refuse", "wrongly typed operand")
        decl.append((kind, ops))
    if len(decl) > max_matchers:
        return ("refuse", "too many matchers")
    if len(opts) >= 2:
        return ("repeated",)
    if not decl:
        return ("either",)
    ci = bool(opts) and opts[0][0] == "t"
    return ("accept", ci, decl)


def ref_verdict(cls, path):
    if cls[0] == "all":
        return True
    _, ci, decl = cls
    return all(spec(k, ci, ops, cview(path)) for k, ops in decl)


def ref_libc(f, a, b, n):
    a, b = cview(a), cview(b)
    sg = lambda x, y: (x > y) - (x < y)
    if f == "strcmp":
        return str(sg(a, b))
    if f == "strncmp":
        return str(sg(a[:n], b[:n]))
    if f == "strcasecmp":
        return str(sg(fold(True, a), fold(True, b)))
    if f == "strncasecmp":
        return str(sg(fold(True, a)[:n], fold(True, b)[:n]))
    if f == "strstr":
        return str(a.find(b))
    if f == "strcasestr":
        return str(fold(True, a).find(fold(True, b)))
    if f == "strlen":
        return str(len(a))
    raise ValueError(f)


# ----------------------------------------------------------------------------- pools

POOL = [b"", b"a", b"A", b"ab", b"aB", b"AB", b"abc", b"ABC", b"aBc", b"bc", b"Bc", b"b", b"abab", b"ababab", b"aab",
        b"aaa", b"aa", b"/a/b", b"/A/B", b"a/b", b"abcabcabc", b"cab", b"bca",
        b"\xc3\xa4", b"\xc3\x84", b"a\xe4", b"A\xc4", b"\x80", b"\xff\xfe", b"\xe4", b"\xc4",
        b"@", b"[", b"`", b"{", b"Z", b"z", b"@[`{", b"`{@[",
        b"ab\x00cd", b"\x00", b"abcd", b"ABCD", b" ", b"a b", b"aaab", b"AAAB", b"abababc", b"ababc"]
LONG = [b"ab" * 40, b"ab" * 40 + b"c", b"AB" * 40, b"a" * 300, b"a" * 299 + b"b", b"A" * 299 + b"B", b"b" + b"a" * 299,
        b"x" * 17 + b"needle" + b"y" * 40, b"NEEDLE", b"needle", b"a" * 16, b"a" * 15 + b"B", b"a" * 31 + b"b" + b"a" * 32]
RULE_OPS = [b"a", b"A", b"ab", b"", b"b/", b"\xc3\x84", b"aab", b"ababc"]
RULE_PATHS = [b"", b"a", b"A", b"ab", b"AB", b"ba", b"a/b/ab", b"A/B/", b"\xc3\x84ab", b"xyz", b"b/a", b"ab\x00zz", b"aaab", b"AAAB", b"abababc"]


def mk_member(kind, op_i=0):
    if kind == "containsAllOf":
        return (kind.encode(), ("a", [("s", RULE_OPS[op_i % len(RULE_OPS)]), ("s", RULE_OPS[(op_i + 2) % len(RULE_OPS)])]))
    return (kind.encode(), ("s", RULE_OPS[op_i % len(RULE_OPS)]))


def rule_case(rule, paths, with_json=True, with_get=True):
    enc = enc_rule(rule)
    lines = ["rule " + enc + (" " + json_request(rule).hex() if with_json else "")]
    lines += ["match " + hx(p) for p in paths]
    if with_get and paths:
        lines.append("get " + enc + " " + ",".join(hx(p) for p in paths))
    return {"lines": lines, "rule": rule, "paths": list(paths)}


def gen_fn_cases(pool, multi_pool):
    cases = []
    for kind in KINDS:
        for ci in (0, 1):
            for p in pool:
                for o in pool:
                    cases.append({"lines": ["fn %s %d %s %s" % (kind, ci, hx(p), hx(o))],
                                  "fn": (kind, ci, p, [o])})
    for ci in (0, 1):
        for p in multi_pool:
            for o1 in multi_pool:
                for o2 in multi_pool:
                    cases.append({"lines": ["fn containsAllOf %d %s %s,%s" % (ci, hx(p), hx(o1), hx(o2))],
                                  "fn": ("containsAllOf", ci, p, [o1, o2])})
    return cases


def gen_libc_cases(pool):
    cases = []
    for f in ("strcmp", "strcasecmp", "strstr", "strcasestr"):
        for a in pool:
            for b in pool:
                cases.append({"lines": ["libc %s %s %s" % (f, hx(a), hx(b))], "libc": (f, a, b, 0)})
    for f in ("strncmp", "strncasecmp"):
        for a in pool:
            for b in pool:
                for n in sorted({0, 1, len(cview(a)), len(cview(b)), 16}):
                    cases.append({"lines": ["libc %s %s %s %d" % (f, hx(a), hx(b), n)], "libc": (f, a, b, n)})
    for a in pool:
        cases.append({"lines": ["libc strlen %s -" % hx(a)], "libc": ("strlen", a, b"", 0)})
    # substring search over a tiny alphabet: every needle up to 4 letters in every haystack up to 6 over {a,b}, needles and
    # haystacks with repeated prefixes (a search that does not back up after a partial match misses `aab` in `aaab`), and
    # the same with mixed case for the case-insensitive search
    import itertools
    small = [bytes(t) for n in range(0, 7) for t in itertools.product(b"ab", repeat=n)]
    for hay in small:
        for nee in small:
            if 1 <= len(nee) <= 4 and len(nee) <= len(hay):
                cases.append({"lines": ["libc strstr %s %s" % (hx(hay), hx(nee))], "libc": ("strstr", hay, nee, 0)})
                up = bytes(c - 32 if i % 2 else c for i, c in enumerate(hay))
                cases.append({"lines": ["libc strcasestr %s %s" % (hx(up), hx(nee))], "libc": ("strcasestr", up, nee, 0)})
    for hay, nee in ((b"abababc", b"ababc"), (b"bus/1/1/1/2/temp", b"/1/1/2"), (b"fooo/bar", b"oo/"), (b"AAAB", b"aab"), (b"xaaab", b"AAB"),
                     (b"aabaabaac", b"aabaac"), (b"a/a/a/b", b"A/A/B")):
        for f in ("strstr", "strcasestr"):
            cases.append({"lines": ["libc %s %s %s" % (f, hx(hay), hx(nee))], "libc": (f, hay, nee, 0)})
    return cases


OPTION_VARIANTS = [
    ("none", []),
    ("true", [(OPTION, ("t",))]),
    ("false", [(OPTION, ("f",))]),
    ("string", [(OPTION, ("s", b"true"))]),
    ("number", [(OPTION, ("n",))]),
    ("null", [(OPTION, ("z",))]),
    ("array", [(OPTION, ("a", [("t",)]))]),
    ("tt", [(OPTION, ("t",)), (OPTION, ("t",))]),
    ("tf", [(OPTION, ("t",)), (OPTION, ("f",))]),
    ("ft", [(OPTION, ("f",)), (OPTION, ("t",))]),
    ("ttt", [(OPTION, ("t",)), (OPTION, ("t",)), (OPTION, ("t",))]),
    ("lower", [(b"caseinsensitive", ("t",))]),
    ("upper", [(b"CASEINSENSITIVE", ("t",))]),
    ("mixed", [(b"CaseInsensitive", ("f",))]),
    ("lower+exact", [(b"caseinsensitive", ("f",)), (OPTION, ("t",))]),
    ("exact+upper", [(OPTION, ("t",)), (b"CASEINSENSITIVE", ("f",))]),
    ("nul-suffixed", [(OPTION + b"\x00x", ("t",))]),
]


def place(matchers, opts, mode, rnd):
    """Insert the option members into the matcher list: front / back / spread."""
    ms = list(matchers)
    if not opts:
        return ms
    if mode == "front":
        return list(opts) + ms
    if mode == "back":
        return ms + list(opts)
    out = list(ms)
    for o in opts:
        out.insert(rnd.randrange(len(out) + 1), o)
    return out


def gen_rule_cases(thorough, rnd, max_matchers):
    cases = []
    paths = RULE_PATHS if thorough else RULE_PATHS[:8]
    # fixed corpus: parameter shapes
    for r in [("absent",)] + [("notobj", t) for t in "snatfz"] + [("obj", [])]:
        cases.append(rule_case(r, paths[:4]))
    # every non-empty subset of kinds, several orders, option variants in several positions
    subsets = []
    for n in range(1, len(KINDS) + 1):
        subsets += list(itertools.combinations(range(len(KINDS)), n))
    for si, sub in enumerate(subsets):
        base = [mk_member(KINDS[k], si + j) for j, k in enumerate(sub)]
        orders = [base, list(reversed(base))] if len(base) > 1 else [base]
        if len(base) > 2:
            for _ in range(3 if thorough else 1):
                sh = list(base)
                rnd.shuffle(sh)
                orders.append(sh)
        if len(base) <= 3 and thorough:
            orders = [list(p) for p in itertools.permutations(base)]
        for oi, order in enumerate(orders):
            variants = OPTION_VARIANTS if (thorough or (si + oi) % 4 == 0) else OPTION_VARIANTS[(si + oi) % 5::5]
            for vi, (vname, opts) in enumerate(variants):
                modes = ("front", "back", "spread") if (thorough and opts) else (("front", "back", "spread")[(si + oi + vi) % 3],)
                for mode in modes:
                    members = place(order, opts, mode, rnd)
                    cases.append(rule_case(("obj", members), paths, with_json=(thorough or vi % 3 == 0)))
    # option-only objects
    for vname, opts in OPTION_VARIANTS:
        cases.append(rule_case(("obj", list(opts)), paths[:4]))
    # repeated matcher keys (a conjunction of two matchers of the same kind)
    for kind in KINDS:
        cases.append(rule_case(("obj", [mk_member(kind, 0), mk_member(kind, 1)]), paths))
        cases.append(rule_case(("obj", [mk_member(kind, 0), (OPTION, ("t",)), mk_member(kind, 1)]), paths))
    # wrong operand types
    bad_vals = [("n",), ("t",), ("f",), ("z",), ("o",), ("a", []), ("a", [("n",)]), ("a", [("s", b"a"), ("z",)]),
                ("a", [("z",), ("s", b"a")]), ("a", [("s", b"a"), ("a",)]), ("a", [("s", b"a"), ("s", b"b"), ("o",)]),
                ("a", [("s", b"a")]), ("s", b"a")]
    for kind in KINDS:
        for v in bad_vals:
            cases.append(rule_case(("obj", [(kind.encode(), v)]), paths[:3]))
            cases.append(rule_case(("obj", [mk_member("startsWith", 0), (kind.encode(), v), (OPTION, ("t",))]), paths[:3]))
    # unknown names
    for name in [b"foo", b"", b"Equals", b"EQUALS", b"equals ", b" equals", b"equal", b"equalsNot2", b"match", b"path",
                 b"equals\x00junk", b"\x00equals", b"contains\xc3\xa4", b"containsallof", b"startswith", b"endswith",
                 b"caseInsensitiv", b"caseInsensitive2"]:
        cases.append(rule_case(("obj", [(name, ("s", b"a"))]), paths[:3]))
        cases.append(rule_case(("obj", [mk_member("contains", 0), (name, ("s", b"a"))]), paths[:3]))
        cases.append(rule_case(("obj", [(name, ("s", b"a")), mk_member("contains", 0), (OPTION, ("t",))]), paths[:3]))
    # counts around the maximum
    for n in (max_matchers - 1, max_matchers, max_matchers + 1, max_matchers + 2, 2 * max_matchers + 1):
        if n < 1:
            continue
        ms = [mk_member(KINDS[i % len(KINDS)], i) for i in range(n)]
        same = [(b"contains", ("s", b"a"))] * n
        for members in (ms, same):
            cases.append(rule_case(("obj", members), paths[:4]))
            cases.append(rule_case(("obj", [(OPTION, ("t",))] + members), paths[:4]))
            cases.append(rule_case(("obj", members + [(OPTION, ("f",))]), paths[:4]))
            cases.append(rule_case(("obj", members + [(OPTION, ("t",)), (OPTION, ("t",))]), paths[:4]))
    # long containsAllOf operand lists (the operand count is independent of the matcher maximum): all but the k-th operand occur
    # in the path, so every single operand is decisive; plus a wrongly typed operand at every late index
    for n in (1, 2, max_matchers - 1, max_matchers, max_matchers + 1, max_matchers + 2, 2 * max_matchers, 31, 32, 33):
        ops = [b"%c%d." % (97 + (i % 26), i) for i in range(n)]
        full = b"".join(ops)
        for opts in ([], [(OPTION, ("t",))]):
            ps = [full] + [b"".join(o for j, o in enumerate(ops) if j != k) for k in sorted(set([0, n // 2, n - 1, min(n - 1, max_matchers), min(n - 1, max_matchers - 1)]))]
            cases.append(rule_case(("obj", [(b"containsAllOf", ("a", [("s", o) for o in ops]))] + opts), ps + [full.upper()], with_json=thorough))
        for k in sorted(set([0, n - 1, min(n - 1, max_matchers), min(n - 1, max_matchers + 1)])):
            bad = [("s", o) for o in ops]
            bad[k] = ("t",)
            cases.append(rule_case(("obj", [(b"containsAllOf", ("a", bad))]), [full], with_json=False))
    # adversarial operands inside rules (empty operand, operand longer than the path, case variants, >= 0x80)
    for kind in KINDS:
        for op in POOL[:24] + LONG[:3]:
            v = ("a", [("s", op), ("s", b"a")]) if kind == "containsAllOf" else ("s", op)
            for opts in ([], [(OPTION, ("t",))]):
                cases.append(rule_case(("obj", [(kind.encode(), v)] + opts), [op, op + b"x", b"x" + op, op[:-1], op.swapcase(), b""],
                                       with_json=thorough))
    return cases


def random_rule(rnd, max_matchers):
    r = rnd.random()
    if r < 0.03:
        return ("absent",)
    if r < 0.06:
        return ("notobj", rnd.choice("snatfz"))
    n = rnd.choice([0, 1, 1, 2, 2, 3, 3, 4, 5, 6, max_matchers, max_matchers + 1])
    members = []
    for _ in range(n):
        q = rnd.random()
        if q < 0.75:
            kind = rnd.choice(KINDS)
            op = rnd.choice(POOL + RULE_OPS)
            if kind == "containsAllOf":
                v = ("a", [("s", rnd.choice(POOL + RULE_OPS)) for _ in range(rnd.choice([1, 1, 2, 3, 5]))])
            else:
                v = ("s", op)
            if rnd.random() < 0.07:
                v = rnd.choice([("n",), ("t",), ("z",), ("a", []), ("a", [("s", b"a"), ("n",)]), ("s", b"a"), ("o",)])
            members.append((kind.encode(), v))
        elif q < 0.92:
            members.append((rnd.choice([OPTION, OPTION, OPTION, b"caseinsensitive", b"CASEINSENSITIVE"]),
                            rnd.choice([("t",), ("t",), ("f",), ("s", b"true"), ("n",), ("z",)])))
        else:
            members.append((rnd.choice([b"foo", b"", b"Equals", b"equals\x00x", b"x" * 40]), ("s", b"a")))
    return ("obj", members)


def random_bytes(rnd):
    n = rnd.choice([0, 1, 1, 2, 3, 4, 6, 9, 17, 33])
    alphabet = b"aAbB/cC\xc3\xa4\xc4zZ@[`{ "
    return bytes(rnd.choice(alphabet) for _ in range(n))


def gen_random_cases(rnd, n_rules, n_fn, max_matchers):
    cases = []
    for _ in range(n_rules):
        rule = random_rule(rnd, max_matchers)
        paths = [rnd.choice(POOL + RULE_PATHS) if rnd.random() < 0.6 else random_bytes(rnd) for _ in range(6)]
        cases.append(rule_case(rule, paths, with_json=rnd.random() < 0.5))
    for _ in range(n_fn):
        kind = rnd.choice(KINDS)
        ci = rnd.randrange(2)
        p = random_bytes(rnd)
        # operands derived from the path so that matches are frequent
        ops = []
        for _ in range(1 if kind != "containsAllOf" else rnd.choice([1, 2, 3, 4])):
            if p and rnd.random() < 0.7:
                i = rnd.randrange(len(p) + 1)
                j = rnd.randrange(i, len(p) + 1)
                o = p[i:j]
                if rnd.random() < 0.5:
                    o = o.swapcase()
                if rnd.random() < 0.15:
                    o += b"x"
            else:
                o = random_bytes(rnd)
            ops.append(o)
        cases.append({"lines": ["fn %s %d %s %s" % (kind, ci, hx(p), ",".join(hx(o) for o in ops))], "fn": (kind, ci, p, ops)})
    return cases


# ----------------------------------------------------------------------------- running

def run_impl(binp, cases):
    """Run the harness over the cases; returns (per-case list of output lines or None for lines lost to a crash,
    list of crash records).  After a crash the run resumes with the next case."""
    outs = [None] * len(cases)
    crashes = []
    start = 0
    while start < len(cases):
        lines = []
        index = []
        for ci in range(start, len(cases)):
            for li, l in enumerate(cases[ci]["lines"]):
                lines.append(l)
                index.append((ci, li))
        env = {"ASAN_OPTIONS": "detect_leaks=1:abort_on_error=0:allocator_may_return_null=1", "UBSAN_OPTIONS": "print_stacktrace=1"}
        rc, out, err = C.sh([binp], inp=("\n".join(lines) + "\n").encode(), timeout=1200, env=env)
        got = out.splitlines()
        for k, g in enumerate(got[:len(index)]):
            ci, li = index[k]
            if outs[ci] is None:
                outs[ci] = [None] * len(cases[ci]["lines"])
            outs[ci][li] = g
        if rc == 0 and len(got) == len(lines):
            break
        # abnormal end: the op after the last complete output line is the culprit
        k = min(len(got), len(index) - 1)
        ci, li = index[k]
        if outs[ci] is None:
            outs[ci] = [None] * len(cases[ci]["lines"])
        m = re.search(r"(runtime error:[^\n]*|ERROR: AddressSanitizer[^\n]*|ERROR: LeakSanitizer[^\n]*)", err)
        leak_only = rc != 0 and len(got) == len(lines)
        crashes.append({"case": ci, "line": li, "op": cases[ci]["lines"][li] if not leak_only else "(at exit)",
                        "rc": rc, "what": m.group(1) if m else "abnormal exit rc=%d" % rc, "stderr": err[-3000:],
                        "leak_only": leak_only})
        if leak_only:
            break
        start = ci + 1
    return outs, crashes


def run_model(cases):
    lines = [l for c in cases for l in c["lines"]]
    got = C.run_drv("matcher", "\n".join(lines) + "\n")
    if len(got) != len(lines):
        raise RuntimeError("drv_matcher printed %d lines for %d ops" % (len(got), len(lines)))
    outs = []
    k = 0
    for c in cases:
        outs.append(got[k:k + len(c["lines"])])
        k += len(c["lines"])
    return outs


def split_tail(line):
    if line is None:
        return None, {}
    head, _, tail = line.partition(" | ")
    kv = dict(t.split("=", 1) for t in tail.split() if "=" in t)
    return head, kv


def canon_impl(head):
    """Implementation line -> canonical token compared with the model's."""
    if head is None:
        return "CRASH"
    w = head.split()
    if w and w[0] == "err":
        return "err %s" % w[1]
    return head


def canon_model(line):
    w = line.split()
    if w and w[0] == "err":
        return "err %d" % MODEL_ERR_CODE.get(w[1], 0)
    return line


def outcome_of(case_out):
    """Observable outcome of a rule case on the implementation: ('refused',) or ('accepted', verdicts...)"""
    head, _ = split_tail(case_out[0])
    if head is None:
        return ("crash",)
    if head.startswith("err"):
        return ("refused",)
    return ("accepted",) + tuple(split_tail(x)[0] for x in case_out[1:])


def run(ctx, out):
    t0 = time.time()
    S = C.SRC
    binp = C.cc_build("matcher", [C.ROOT + "/harness/comp/matcher.c", S + "/json/cJSON.c", S + "/alloc.c", S + "/response.c",
                                  S + "/groups.c", S + "/jet_string.c", S + "/linux/jet_string.c", S + "/posix/jet_string.c"])
    max_matchers = int(C.config_values()["CONFIG_MAX_NUMBERS_OF_MATCHERS_IN_FETCH"])
    thorough = ctx.thorough
    rnd = C.rng("c16", "gen")

    if getattr(ctx, "replay", None):
        rp = json.load(open(ctx.replay))
        cases = [{"lines": rp["script"], "replay": True}]
        if "rule" in rp:
            cases[0]["rule"] = _unjson_rule(rp["rule"])
            cases[0]["paths"] = [bytes.fromhex(p) for p in rp.get("paths", [])]
    else:
        cases = [{"lines": ["sizes"], "sizes": True}]
        # directed replays of fixed findings first (regressions)
        for kf in C.known_findings("C16"):
            p = os.path.join(C.ROOT, kf.get("replay", ""))
            if os.path.isfile(p):
                cases += scenario_cases(p, kf["id"])
        pool = POOL + (LONG if thorough else LONG[:4])
        cases += gen_rule_cases(thorough, rnd, max_matchers)
        cases += gen_fn_cases(pool, POOL[:12] if thorough else POOL[:8])
        cases += gen_libc_cases(pool)
        cases += gen_random_cases(rnd, 30000 if thorough else 500, 200000 if thorough else 4000, max_matchers)
        # companions for repeated-option rules: the rule with the option given once (each copy)
        extra = []
        for c in cases:
            if "rule" in c and classify(c["rule"], max_matchers)[0] == "repeated":
                comp = []
                members = c["rule"][1]
                idxs = [i for i, (k, v) in enumerate(members) if cview(k) == OPTION]
                for keep in idxs:
                    ms = [m for i, m in enumerate(members) if i == keep or i not in idxs]
                    cc = rule_case(("obj", ms), c["paths"], with_json=False, with_get=False)
                    comp.append(cc)
                c["companions"] = comp
                extra += comp
        cases += extra

    n_lines = sum(len(c["lines"]) for c in cases)
    impl, crashes = run_impl(binp, cases)
    model = None
    if ctx.lean_ok and os.path.exists(C.drv_path("matcher")):
        model = run_model(cases)

    hist = {"ops": {}, "rule_outcomes": {}, "model_why": {}, "fn_true": 0, "fn_false": 0, "verdict_true": 0, "verdict_false": 0,
            "refuse_reason_property": {}, "json_text_rules": 0}
    problems = []       # (kind, what, case index, detail)
    evaluations = 0
    nontrivial = set()
    accepted_rules = 0

    def bump(d, k):
        d[k] = d.get(k, 0) + 1

    case_index = {id(c): i for i, c in enumerate(cases)}
    for ci, c in enumerate(cases):
        io = impl[ci] or [None] * len(c["lines"])
        mo = model[ci] if model else None
        for li, line in enumerate(c["lines"]):
            bump(hist["ops"], line.split()[0])
            head, kv = split_tail(io[li])
            if head is None:
                continue   # crash: reported below
            # 1. model vs implementation
            if mo is not None and canon_impl(head) != canon_model(mo[li]):
                problems.append(("model", "model and implementation differ", ci, {"line": li, "op": line, "impl": io[li], "model": mo[li]}))
            # 2. hygiene observed by the harness
            if head == "tree_mismatch" or head.startswith("bad_"):
                problems.append(("machinery", "harness could not run the op: " + head, ci, {"line": li, "op": line}))
            for key in ("leak", "prev"):
                if key in kv and kv[key] != "0":
                    problems.append(("property", "side effect: accounted heap differs by %s bytes after the operation (%s)" % (kv[key], key),
                                     ci, {"line": li, "op": line, "impl": io[li]}))
            if head.startswith("err") and kv.get("fl", "0") != "0":
                problems.append(("property", "side effect: refused rule left a fetch in the peer's list", ci, {"line": li, "op": line, "impl": io[li]}))
        # 3. the property, evaluated on the implementation's outputs
        if c.get("sizes"):
            continue
        if "fn" in c and io[0] is not None:
            kind, fci, p, ops = c["fn"]
            want = spec(kind, bool(fci), [cview(o) for o in ops], cview(p))
            evaluations += 1
            bump(hist, "fn_true" if want else "fn_false")
            if cview(p) and any(cview(o) for o in ops):
                nontrivial.add(("fn", kind, fci, p, tuple(ops)))
            if io[0] != "fn %d" % want:
                problems.append(("property", "%s%s: match function result differs from its meaning" % (kind, " (case-insensitive)" if fci else ""),
                                 ci, {"op": c["lines"][0], "impl": io[0], "reference": "fn %d" % want}))
        elif "libc" in c and io[0] is not None:
            f, a, b, n = c["libc"]
            want = ref_libc(f, a, b, n)
            evaluations += 1
            if io[0] != "libc " + want:
                problems.append(("assumption", "libc %s differs from the byte-wise reference" % f, ci,
                                 {"op": c["lines"][0], "impl": io[0], "reference": "libc " + want}))
        elif "rule" in c:
            cls = classify(c["rule"], max_matchers)
            head, kv = split_tail(io[0])
            if head is None:
                continue
            if len(c["lines"][0].split()) > 2:
                hist["json_text_rules"] += 1
            refused = head.startswith("err")
            bump(hist["rule_outcomes"], cls[0] + ("/refused" if refused else "/accepted"))
            if mo is not None and mo[0].startswith("err"):
                bump(hist["model_why"], " ".join(mo[0].split()[1:]))
            if refused:
                w = head.split()
                code = int(w[1])
                reason = bytes.fromhex(w[2]).decode("latin-1") if len(w) > 2 and w[2] not in ("?", "-") else ""
                if code not in (INVALID_PARAMS, INTERNAL_ERROR):
                    problems.append(("property", "refusal without a JSON-RPC error object", ci, {"op": c["lines"][0], "impl": io[0]}))
                if mo is not None and mo[0].startswith("err") and REASONS.get(mo[0].split()[1]) != reason:
                    note = "error text changed: model kind %s, implementation says %r" % (mo[0].split()[1], reason)
                    if note not in out.notes:
                        out.notes.append(note)
            if cls[0] == "refuse":
                bump(hist["refuse_reason_property"], cls[1])
                evaluations += 1
                if not refused:
                    problems.append(("property", "rule must be refused (%s) but was accepted" % cls[1], ci, {"op": c["lines"][0], "impl": io[0]}))
            elif cls[0] in ("accept", "all"):
                evaluations += 1
                if refused:
                    problems.append(("property", "well-formed rule was refused", ci, {"op": c["lines"][0], "impl": io[0]}))
                else:
                    accepted_rules += 1
                    seen = set()
                    k = 1
                    for p in c["paths"]:
                        want = ref_verdict(cls, p)
                        evaluations += 1
                        bump(hist, "verdict_true" if want else "verdict_false")
                        seen.add(want)
                        got = split_tail(io[k])[0]
                        if got is not None and got != "m %d" % want:
                            problems.append(("property", "path %s: selected=%s, the declared matchers say %s" % (hx(p), got, int(want)),
                                             ci, {"op": c["lines"][k], "rule": c["lines"][0], "impl": got, "reference": "m %d" % want}))
                        k += 1
                    if len(seen) == 2:
                        nontrivial.add(("rule", c["lines"][0].split()[1]))
                    if k < len(c["lines"]):   # the get line
                        want_sel = [i for i, p in enumerate(c["paths"]) if ref_verdict(cls, p)]
                        want_line = "sel " + (",".join(map(str, want_sel)) if want_sel else "-")
                        got = split_tail(io[k])[0]
                        evaluations += 1
                        if got is not None and got != want_line:
                            problems.append(("property", "get selected %s, the declared matchers say %s" % (got, want_line), ci,
                                             {"op": c["lines"][k], "impl": got, "reference": want_line}))
            elif cls[0] == "repeated":
                evaluations += 1
                mine = outcome_of(io[:1 + len(c["paths"])])
                if mine[0] == "accepted":
                    comps = [outcome_of(impl[case_index[id(cc)]] or [None]) for cc in c.get("companions", [])]
                    if mine not in comps:
                        problems.append(("property", "repeated option key: accepted, but not as the rule with the key given once", ci,
                                         {"op": c["lines"][0], "impl": list(mine), "given_once": [list(x) for x in comps]}))
            # 'either': only model/implementation agreement is checked

    for cr in crashes:
        problems.append(("property", "sanitizer abort / crash of the real code: %s" % cr["what"], cr["case"],
                         {"op": cr["op"], "rc": cr["rc"], "stderr": cr["stderr"][-1500:], "leak_only": cr["leak_only"]}))

    # ---- report
    reported = 0
    seen_what = {}
    prio = {"property": 0, "assumption": 1, "model": 2, "machinery": 3}
    problems.sort(key=lambda pr: (prio.get(pr[0], 9), len(cases[pr[2]]["lines"][0])))
    for kind, what, ci, detail in problems:
        key = (kind, what.split(":")[0][:60])
        seen_what[key] = seen_what.get(key, 0) + 1
        if seen_what[key] > 3 or reported >= 12:
            continue
        reported += 1
        c = cases[ci]
        script = shrink(binp, c, kind, detail) if kind == "property" and "rule" in c and not c.get("replay") else c["lines"]
        replay = {"property": "C16", "variant": "default", "seed": ctx.seed, "tier": ctx.tier, "script": script,
                  "failing_clause": what, "detail": detail, "impl_trace": impl[ci], "model_trace": model[ci] if model else None,
                  "how_to_replay": "./check C16 --replay <this file>  (harness/comp/matcher.c < script ; drv_matcher < script)"}
        if "rule" in c:
            replay["rule"] = _json_rule(c["rule"])
            replay["paths"] = [p.hex() for p in c["paths"]]
        if c.get("finding"):
            replay["regression_of"] = c["finding"]
            what = "recurrence of fixed finding %s: %s" % (c["finding"], what)
        if kind == "property":
            out.violation(what, replay)
        elif kind == "assumption":
            replay["broken"] = "assumption: glibc string functions behave as the byte-wise loops of Cjet.Matcher (libc_specs)"
            out.violation(what, replay, no_input=True)
        else:
            replay["broken"] = "correspondence model Cjet.Matcher <-> src/fetch.c (theorems of Cjet.Props.C16 speak about the model)"
            out.violation(what, replay, no_input=True)

    out.coverage.update({
        "traces_validated_against_impl": len(cases),
        "ops_run": n_lines,
        "evaluations": evaluations,
        "distinct_nontrivial": len(nontrivial),
        "distinct_nontrivial_rule": "accepted rule objects for which some tested path is selected and some is not, plus match-function "
                                    "inputs with non-empty path and operand (distinct by content)",
        "accepted_rules": accepted_rules,
        "histograms": hist,
        "exhaustive": {"match functions x ci x pool^2": True, "pool_size": len(POOL + (LONG if thorough else LONG[:4])),
                       "subsets of the six matcher kinds": True, "rule objects in general": False},
        "model_compared": model is not None,
        "crashes": len(crashes),
        "problems_by_kind": {"%s: %s" % k: v for k, v in seen_what.items()},
        "samples": [c["lines"][:3] for c in (cases[1:4] + cases[len(cases) // 2:len(cases) // 2 + 2])],
        "tie_wall_s": round(time.time() - t0, 1),
    })
    out.assumptions += [
        "glibc strcmp/strncmp/strstr/strcasecmp/strncasecmp/strcasestr in the C locale equal the loops of Cjet.Matcher "
        "(checked on the whole pool^2 by the `libc` ops on every run, not proved)",
        "LP64: sizeof(struct path_matcher)=24, sizeof(char*[1])=8 (checked against the harness `sizes` line)",
        "allocations other than create_path_matcher's heap-cap test succeed (allocation failure is property C15)",
        "cJSON's parser is not modelled; rule objects are trees; for the rules sent as JSON text the harness checks that the "
        "real cJSON parse is the tree the model was given",
        "element paths and operands are C strings: an embedded NUL (\\u0000) ends the string in the model as in the code",
    ]


# ----------------------------------------------------------------------------- helpers: scenarios, shrinking, replay files

def scenario_cases(path, finding):
    cases = []
    cur = None
    for l in open(path):
        l = l.strip()
        if not l or l.startswith("#"):
            continue
        w = l.split()
        if w[0] == "match" and cur is not None:
            cur["lines"].append(l)
            cur["paths"].append(C.unhex(w[1]))
            continue
        cur = {"lines": [l], "finding": finding}
        if w[0] == "rule":
            cur["rule"] = parse_enc(w[1])
            cur["paths"] = []
        elif w[0] == "get":
            # judged through an equivalent rule case
            cur = rule_case(parse_enc(w[1]), [C.unhex(p) for p in w[2].split(",")], with_json=False)
            cur["finding"] = finding
            cases.append(cur)
            cur = None
            continue
        cases.append(cur)
    return cases


def parse_enc(enc):
    if enc == "~":
        return ("absent",)
    if enc.startswith("!"):
        return ("notobj", enc[1])
    members = []
    body = enc[1:]
    if body:
        for m in body.split(";"):
            k, _, v = m.partition("=")
            if v.startswith("s"):
                val = ("s", bytes.fromhex(v[1:]))
            elif v.startswith("a") and len(v) >= 1:
                items = []
                for it in (v[1:].split(",") if len(v) > 1 else []):
                    items.append(("s", bytes.fromhex(it[1:])) if it.startswith("s") else (it,))
                val = ("a", items)
            else:
                val = (v,)
            members.append((bytes.fromhex(k), val))
    return ("obj", members)


def _json_rule(r):
    return enc_rule(r)


def _unjson_rule(s):
    return parse_enc(s)


def shrink(binp, case, kind, detail):
    """Shrink a failing rule case: drop members and paths while the implementation still disagrees with the
    property's reference on some line (or still crashes)."""
    max_matchers = int(C.config_values()["CONFIG_MAX_NUMBERS_OF_MATCHERS_IN_FETCH"])

    def fails(rule, paths):
        c = rule_case(rule, paths, with_json=False, with_get=False)
        outs, crashes = run_impl(binp, [c])
        if crashes:
            return True
        cls = classify(rule, max_matchers)
        o = outs[0]
        head = split_tail(o[0])[0]
        refused = head.startswith("err")
        if cls[0] == "refuse":
            return not refused
        if cls[0] in ("accept", "all"):
            if refused:
                return True
            return any(split_tail(o[1 + i])[0] != "m %d" % ref_verdict(cls, p) for i, p in enumerate(paths))
        if cls[0] == "repeated":
            return not refused
        return False

    rule, paths = case["rule"], list(case["paths"])
    try:
        if not fails(rule, paths):
            return case["lines"]
        changed = True
        while changed:
            changed = False
            for i in range(len(paths)):
                cand = paths[:i] + paths[i + 1:]
                if fails(rule, cand):
                    paths, changed = cand, True
                    break
            if rule[0] == "obj":
                for i in range(len(rule[1])):
                    cand = ("obj", rule[1][:i] + rule[1][i + 1:])
                    if fails(cand, paths):
                        rule, changed = cand, True
                        break
        return rule_case(rule, paths, with_json=False, with_get=False)["lines"]
    except Exception:
        return case["lines"]
