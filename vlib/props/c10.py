"""C10 — outbound byte streams are whole frames in order, whatever the socket accepts.

Proof side: lean/Cjet/Props/C10.lean over the model lean/Cjet/Bufwrite.lean (audited by `check`).
Tie: harness/comp/bufwrite.c runs the REAL buffered_socket.c + posix/socket.c of the current tree over a
scripted kernel; drv_bufwrite runs the model on the same scripts; observation lines must be identical.
Independently of the model, `monitor()` below evaluates the property itself on what the implementation
did (bytes handed to the kernel vs. the frames whose writev reported success, clean refusal or dead
connection, fill level, kernel-call bound, memory discipline faults reported by the harness).

Families
  corpus      scenarios/c10_*.txt (directed; includes the F19 replays — F19 is fixed, so they are regressions)
  exhaustive  small buffer (-DBW_CAP): fill level x frame shape x first kernel answer (all/block/error/every
              partial position) x every answer sequence of the flush loop that follows x tail events
  random      seeded multi-frame histories at cap 16 and at the repository's real size
"""
import concurrent.futures
import glob
import hashlib
import os
import re
import shutil

from vlib import common as C

LEVEL = "proof"
PID = "C10"
SMALL_CAP = 16
QUICK_CAP = 8
LINK = ["-Wl,--wrap=writev,--wrap=read,--wrap=close"]


# --------------------------------------------------------------------------- builds

def harness_sources():
    return [C.ROOT + "/harness/comp/bufwrite.c", C.SRC + "/posix/socket.c", C.SRC + "/linux/jet_string.c"]


def build(cap=None):
    """cap=None: the repository's CONFIG_MAX_WRITE_BUFFER_SIZE; otherwise the size is overridden at compile time.
    The binary is copied to a private directory of this run: the shared build cache is pruned by other checks
    running at the same time."""
    name = "bufwrite" if cap is None else "bufwrite_cap%d" % cap
    priv = os.path.join(C.WORK, "c10run", str(os.getpid()))
    dst = os.path.join(priv, name)
    if os.path.exists(dst):
        return dst
    for attempt in range(3):
        src = C.cc_build(name, harness_sources(), link_flags=LINK, defines=([] if cap is None else ["BW_CAP=%d" % cap]))
        try:
            os.makedirs(priv, exist_ok=True)
            shutil.copy2(src, dst + ".tmp")
            os.replace(dst + ".tmp", dst)
            return dst
        except OSError:
            continue
    raise C.BuildError("harness binary %s disappeared from the build cache three times" % name)


def cleanup_private():
    shutil.rmtree(os.path.join(C.WORK, "c10run", str(os.getpid())), ignore_errors=True)


# --------------------------------------------------------------------------- running scripts

def split_scenarios(lines):
    """Observation lines -> list of per-scenario line lists (a scenario starts at its `new` line)."""
    out = []
    for ln in lines:
        if ln.startswith("new "):
            out.append([ln])
        elif out:
            out[-1].append(ln)
        else:
            out.append([ln])
    return out


def run_impl(binp, scripts):
    """Run the harness on a batch of scenarios (each a list of op lines starting with `new`).
    Returns a list of (lines, crash_text|None) per scenario.  Sanitizer aborts are isolated per scenario."""
    text = "".join("\n".join(s) + "\n" for s in scripts)
    rc, out, err = C.sh([binp], inp=text.encode(), timeout=600)
    if rc in (0, 3):
        per = split_scenarios(out.splitlines())
        if len(per) == len(scripts):
            return [(p, None) for p in per]
    if len(scripts) == 1:
        return [(out.splitlines(), "rc=%d %s" % (rc, err[-1500:]))]
    res = []
    for s in scripts:
        res += run_impl(binp, [s])
    return res


def run_model(scripts):
    text = "".join("\n".join(s) + "\n" for s in scripts)
    per = split_scenarios(C.run_drv("bufwrite", text))
    if len(per) != len(scripts):
        raise RuntimeError("drv_bufwrite produced %d scenarios for %d scripts" % (len(per), len(scripts)))
    return per


# --------------------------------------------------------------------------- script helpers

def hx(b):
    return bytes(b).hex() if len(b) else "-"


def op_writev(chunks, answers):
    return "writev %s | %s" % (",".join(hx(c) for c in chunks), ",".join(answers))


def op_writable(answers):
    return "writable | %s" % ",".join(answers)


OBS = re.compile(r"^rc=(-?\d+) to_write=(\d+) pending=(\S+) out=(\S+) err=(\d+) calls=(\d+) left=(\d+)$")


def parse_op(line):
    left, _, right = line.partition("|")
    w = left.split()
    answers = [a.strip() for a in right.split(",") if a.strip()]
    if w[0] == "writev":
        chunks = [C.unhex(c) for c in "".join(w[1:]).split(",") if c != ""] if len(w) > 1 else []
        return "writev", chunks, answers
    return w[0], None, answers


def contract_ok(answers):
    return all(not (a.startswith("P") and int(a[1:] or 0) < 1) for a in answers)


# --------------------------------------------------------------------------- the property, evaluated on the implementation

def monitor(script, lines, cap):
    """Reference evaluation of C10 on the implementation's observations of ONE scenario.
    Returns a list of failed clauses (empty = the property held on this history)."""
    fails = []
    body = [ln for ln in lines if not ln.startswith("new ")]
    faults = [ln for ln in body if ln.startswith("FAULT")]
    for f in faults:
        fails.append("memory_discipline: " + f)
    obs = [ln for ln in body if not ln.startswith("FAULT")]
    m = re.match(r"new cap=(\d+) ok=(\d)", lines[0]) if lines else None
    if not m or int(m.group(1)) != cap or m.group(2) != "1":
        return fails + ["harness capacity mismatch: %r (want %d)" % (lines[0] if lines else None, cap)]
    ops = script[1:]
    if len(obs) != len(ops):
        return fails + ["observation count %d != op count %d" % (len(obs), len(ops))]
    accepted = b""
    stream = b""          # concatenation of the frames whose writev reported success
    pending = b""
    dead = False
    why = ""
    for i, (opl, ol) in enumerate(zip(ops, obs)):
        mm = OBS.match(ol)
        if not mm:
            return fails + ["op %d: unparsable observation %r" % (i, ol)]
        rc, tw, pend, outb, err, calls, left = int(mm.group(1)), int(mm.group(2)), C.unhex(mm.group(3)), \
            C.unhex(mm.group(4)), int(mm.group(5)), int(mm.group(6)), int(mm.group(7))
        kind, chunks, answers = parse_op(opl)
        frame = b"".join(chunks) if chunks else b""
        if tw > cap or tw != len(pend):
            fails.append("op %d fill_le_cap: to_write=%d cap=%d shown=%d" % (i, tw, cap, len(pend)))
        if calls + left > len(answers) + 1:
            fails.append("op %d: %d kernel calls with %d answers (%d left)" % (i, calls, len(answers), left))
        if contract_ok(answers):
            bound = len(pending) + (len(frame) if kind == "writev" else 0)
            if calls > bound:
                fails.append("op %d send_buffer_terminates: %d kernel calls for %d bytes" % (i, calls, bound))
        if dead:
            if outb or calls:
                fails.append("op %d refusal_is_clean/dead_is_final: kernel used again (out=%s calls=%d) after %s"
                             % (i, hx(outb), calls, why))
            if kind == "writev" and rc == 0:
                fails.append("op %d refusal_is_clean/dead_is_final: writev succeeded after %s" % (i, why))
            if kind == "writable":
                if err == 0:
                    fails.append("op %d dead connection not reported to the owner on writability (%s)" % (i, why))
                else:
                    break  # the owner was told and closes the connection: later ops are outside the property
            accepted += outb
            pending = pend
            continue
        accepted += outb
        if kind == "writev":
            if rc == 0:
                stream += frame
                if accepted + pend != stream:
                    fails.append("op %d stream_integrity: kernel+pending != completed frames" % i)
                    return fails  # do not cascade
            else:
                if accepted + pend == stream:
                    pass  # clean refusal: nothing of the frame queued or sent
                else:
                    dead = True  # only sound if the connection is now dead: checked on every later op
                    why = "op %d refused a frame (rc=%d) but left %d byte(s) of it sent/queued" % (
                        i, rc, len(accepted) + len(pend) - len(stream))
                    if not (stream + frame).startswith(accepted):
                        fails.append("op %d torn_frame_is_last: kernel stream is not a prefix of completed+this frame" % i)
        else:
            if err > 0:
                if not stream.startswith(accepted):
                    fails.append("op %d flush_error: kernel stream is not a prefix of completed frames" % i)
                break  # error callback: the owner closes the connection; later ops are outside the property
            elif accepted + pend != stream:
                fails.append("op %d stream_integrity (flush): kernel+pending != completed frames" % i)
                return fails
        pending = pend
    return fails


def needs_dead(script, lines, cap):
    """True when the history contains an unclean refusal / flush error (the 'connection dead' branch)."""
    for ln in lines:
        mm = OBS.match(ln)
        if mm and (int(mm.group(5)) > 0):
            return True
    return False


# --------------------------------------------------------------------------- scenario families

def seq_bytes(start, n):
    return bytes(((start + i) % 251) + 1 for i in range(n))


SHAPES = (
    [(4, p) for p in range(0, 21)] + [(2, p) for p in (0, 1, 5, 12, 15, 18)] +
    [(n,) for n in (1, 4, 12, 16, 17, 21)] + [(4, 0, 3), (1, 1, 1), (2, 6, 3), (4, 8, 8), (0, 4, 4), (3, 0, 0)] +
    [(0,), ()]
)
SHAPES_QUICK = (
    [(4, p) for p in range(0, 10)] + [(2, p) for p in (0, 1, 5, 7)] + [(n,) for n in (1, 4, 8, 9)] +
    [(4, 0, 3), (1, 1, 1), (2, 3, 3), (0, 2, 2)] + [(0,), ()]
)
TAILS = (["A"], ["E"], ["B"], ["P1", "P1", "B"], ["P2", "A"], ["P3", "E"])
TAILS_QUICK = (["A"], ["E"], ["P1", "B"])


def follow_sequences(rem):
    """Every shape of the flush loop that runs inside writev after a partial first write left `rem` bytes queued."""
    out = [["B"], ["A"], ["E"]]
    for j in range(1, rem):
        out.append(["P%d" % j, "B"])
        out.append(["P%d" % j, "E"])
    if rem > 2:
        out.append(["P1", "P1", "A"])
        out.append(["P1", "P%d" % (rem - 2), "P1"])
    return out


def exhaustive_task(args):
    """One (cap, fill level, frame shape) cell: enumerate first answers x follow sequences x tails."""
    cap, L, shape, tails, binp = args
    total = sum(shape)
    chunks = []
    pos = 0x40
    for n in shape:
        chunks.append(seq_bytes(pos, n))
        pos += n
    pre = ["new %d" % cap]
    if L:
        pre.append(op_writev([seq_bytes(0, L)], ["B"]))
    firsts = [["A"], ["B"], ["E"]]
    for k in range(1, L + total):
        rem = L + total - k
        if rem > cap:
            firsts.append(["P%d" % k])
        else:
            for f in follow_sequences(rem):
                firsts.append(["P%d" % k] + f)
    scripts = []
    for first in firsts:
        for t in tails:
            scripts.append(pre + [op_writev(chunks, first), op_writable(t),
                                  op_writev([seq_bytes(0xa0, 2), seq_bytes(0xb0, 1)], ["A"]),
                                  op_writable(["A"]), op_writev([seq_bytes(0xc0, 1)], ["A"])])
    return evaluate(binp, cap, scripts, "exhaustive cap=%d L=%d shape=%s" % (cap, L, shape))


def gen_random_scenario(r, cap, real):
    """A multi-frame history.  Sizes are drawn around the interesting boundaries (free space, cap)."""
    script = ["new %d" % cap]
    fill = 0
    nops = r.randint(3, 14)
    counter = r.randint(0, 250)
    for _ in range(nops):
        if r.random() < 0.3:
            script.append(op_writable(rand_answers(r, cap, fill, flush=True)))
            fill = 0 if r.random() < 0.5 else fill  # only a hint for size choice
            continue
        free = max(cap - fill, 0)
        style = r.random()
        if style < 0.45:      # raw jet frame: 4 byte BE length + payload
            plen = pick_len(r, cap, free - 4, real)
            chunks = [plen.to_bytes(4, "big"), seq_bytes(counter, plen)]
        elif style < 0.7:     # websocket server frame header (2 / 4 / 10 bytes) + payload
            plen = pick_len(r, cap, free - 2, real)
            if plen < 126:
                hdr = bytes([0x81, plen])
            elif plen < 65536:
                hdr = bytes([0x81, 126]) + plen.to_bytes(2, "big")
            else:
                hdr = bytes([0x81, 127]) + plen.to_bytes(8, "big")
            chunks = [hdr, seq_bytes(counter, plen)]
        else:                 # arbitrary iovec (http upgrade response has up to 7 elements)
            chunks = []
            for _ in range(r.randint(0, 7)):
                n = pick_len(r, cap, free, real) // r.choice((1, 2, 3, 5)) if r.random() < 0.8 else 0
                chunks.append(seq_bytes(counter + len(chunks) * 7, n))
        counter += sum(len(c) for c in chunks)
        total = fill + sum(len(c) for c in chunks)
        script.append(op_writev(chunks, rand_answers(r, cap, total, flush=False)))
        fill = min(total, cap) if r.random() < 0.6 else 0
    script.append(op_writable(["A"]))
    script.append(op_writev([b"\xfe"], ["A"]))
    return script


def pick_len(r, cap, around, real):
    c = r.random()
    if c < 0.35:
        v = around + r.randint(-3, 3)
    elif c < 0.5:
        v = cap + r.randint(-6, 6)
    elif c < 0.6 and real:
        v = r.randint(cap, cap + 3000)
    elif c < 0.8:
        v = r.randint(0, 12)
    else:
        v = r.randint(0, max(cap, 1))
    return max(0, min(v, 70000 if real and r.random() < 0.02 else cap * 2 + 40))


def rand_answers(r, cap, total, flush):
    out = []
    remaining = max(total, 1)
    for _ in range(r.randint(0, 5)):
        c = r.random()
        if c < 0.3:
            out.append("A")
            break
        elif c < 0.5:
            out.append("B")
            break
        elif c < 0.58:
            out.append(r.choice("EEI"))
            break
        elif c < 0.6:
            out.append("W")
            break
        else:
            k = r.choice((1, 2, 3, 4, 5, max(1, remaining - 1), max(1, remaining // 2), r.randint(1, remaining),
                          max(1, remaining - r.randint(0, min(cap, remaining)))))
            out.append("P%d" % k)
            remaining = max(1, remaining - k)
    return out


def random_task(args):
    cap, lo, hi, binp, real = args
    scripts = [gen_random_scenario(C.rng("c10", "real" if real else "small", cap, i), cap, real) for i in range(lo, hi)]
    return evaluate(binp, cap, scripts, "random cap=%d [%d,%d)" % (cap, lo, hi))


# --------------------------------------------------------------------------- evaluation of a batch

def classify_lines(script, lines):
    """Histogram keys of what a scenario exercised (for the evidence)."""
    keys = set()
    ops = script[1:]
    obs = [ln for ln in lines[1:] if not ln.startswith("FAULT")]
    before = 0
    for opl, ol in zip(ops, obs):
        mm = OBS.match(ol)
        if not mm:
            continue
        rc, tw, outl, err, calls = int(mm.group(1)), int(mm.group(2)), len(C.unhex(mm.group(4))), int(mm.group(5)), int(mm.group(6))
        kind, chunks, answers = parse_op(opl)
        if kind == "writev":
            flen = sum(len(c) for c in chunks)
            if rc == 0 and tw == 0:
                keys.add("writev:sent_completely" if calls <= 1 else "writev:partial_then_flushed")
            elif rc == 0:
                keys.add("writev:queued_all" if outl == 0 else
                         ("writev:cut_in_pending" if outl < before else
                          ("writev:cut_at_frame_start" if outl == before else "writev:cut_in_frame")))
            elif calls == 0:
                keys.add("writev:refused_dead")
            elif outl == 0 and tw == before:
                keys.add("writev:refused_clean_nothing_sent")
            elif outl <= before and tw == before - outl:
                keys.add("writev:refused_clean_after_pending_progress")
            elif outl > before and tw == 0:
                keys.add("writev:refused_torn_marked_dead")
            else:
                keys.add("writev:failed_in_flush_marked_dead")
            if flen == 0:
                keys.add("writev:empty_frame")
        else:
            if err:
                keys.add("writable:error_callback")
            elif tw == 0 and before:
                keys.add("writable:drained")
            elif before == 0:
                keys.add("writable:nothing_pending")
            elif outl:
                keys.add("writable:partial")
            else:
                keys.add("writable:blocked")
        before = tw
    return keys


def evaluate(binp, cap, scripts, label):
    """Run implementation and model on the scripts; monitor the implementation; compare.
    Returns a summary dict (picklable)."""
    res = {"label": label, "scenarios": len(scripts), "ops": sum(len(s) - 1 for s in scripts), "hist": {},
           "problems": [], "distinct": set(), "dead": 0}
    impl = run_impl(binp, scripts)
    model = run_model(scripts)
    for s, (il, crash), ml in zip(scripts, impl, model):
        fails = []
        if crash:
            fails.append("sanitizer/abort: " + crash)
        else:
            fails = monitor(s, il, cap)
        agree = (not crash) and [x.strip() for x in il] == [x.strip() for x in ml]
        if fails or not agree:
            if len(res["problems"]) < 5:
                res["problems"].append({"script": s, "impl": il, "model": ml, "monitor": fails, "agree": agree, "cap": cap})
            else:
                res["problems_more"] = res.get("problems_more", 0) + 1
            continue
        keys = classify_lines(s, il)
        for k in keys:
            res["hist"][k] = res["hist"].get(k, 0) + 1
        res["distinct"].add(hashlib.sha256("\n".join(il).encode()).hexdigest()[:12])
        if needs_dead(s, il, cap) or any(k.endswith("marked_dead") for k in keys):
            res["dead"] += 1
    return res


# --------------------------------------------------------------------------- shrinking and classification

def still_bad(binp, cap, script):
    (il, crash), = run_impl(binp, [script])
    ml, = run_model([script])
    fails = ["sanitizer/abort: " + crash] if crash else monitor(script, il, cap)
    agree = (not crash) and [x.strip() for x in il] == [x.strip() for x in ml]
    return fails, agree, il, ml


def shrink(binp, cap, script, want_monitor):
    """Greedy: drop ops, drop answers, shorten chunks, while the same kind of problem persists."""
    def bad(s):
        fails, agree, _, _ = still_bad(binp, cap, s)
        return bool(fails) if want_monitor else (not agree)
    cur = list(script)
    changed = True
    rounds = 0
    while changed and rounds < 6:
        changed = False
        rounds += 1
        i = 1
        while i < len(cur):
            cand = cur[:i] + cur[i + 1:]
            if len(cand) > 1 and bad(cand):
                cur = cand
                changed = True
            else:
                i += 1
        for i in range(1, len(cur)):
            kind, chunks, answers = parse_op(cur[i])
            for j in range(len(answers)):
                a2 = answers[:j] + answers[j + 1:]
                cand = cur[:i] + [op_writev(chunks, a2) if kind == "writev" else op_writable(a2)] + cur[i + 1:]
                if bad(cand):
                    cur = cand
                    changed = True
                    break
            kind, chunks, answers = parse_op(cur[i])
            if kind == "writev":
                for j in range(len(chunks)):
                    if len(chunks[j]) > 1:
                        c2 = chunks[:j] + [chunks[j][:len(chunks[j]) // 2]] + chunks[j + 1:]
                        cand = cur[:i] + [op_writev(c2, answers)] + cur[i + 1:]
                        if bad(cand):
                            cur = cand
                            changed = True
                            break
    return cur


# trigger predicates of known findings (decidable on the implementation's observations)
def trigger_f19(script, lines, cap):
    """F19: some writev had to keep more unsent bytes than the write buffer can hold
    (free space smaller than the frame remainder) while the kernel did not report a hard error."""
    obs = [ln for ln in lines[1:] if not ln.startswith("FAULT")]
    before = 0
    for opl, ol in zip(script[1:], obs):
        mm = OBS.match(ol)
        if not mm:
            return False
        kind, chunks, answers = parse_op(opl)
        if kind == "writev":
            total = before + sum(len(c) for c in chunks)
            sent = len(C.unhex(mm.group(4)))
            if int(mm.group(1)) != 0 and total - sent > cap:
                return True
        before = int(mm.group(2))
    return False


TRIGGERS = {"F19": trigger_f19}


def report_problem(out, ctx, prob, family):
    cap = prob["cap"]
    binp = build(None if cap == default_cap() else cap)
    want_monitor = bool(prob["monitor"])
    small = shrink(binp, cap, prob["script"], want_monitor)
    fails, agree, il, ml = still_bad(binp, cap, small)
    if not fails and agree:   # shrinking lost it (should not happen): report the original
        small, fails, agree, il, ml = prob["script"], prob["monitor"], prob["agree"], prob["impl"], prob["model"]
    replay = {"property": PID, "family": family, "variant": "BW_CAP=%d" % cap, "seed": ctx.seed, "script": small,
              "impl_trace": il, "model_trace": ml, "failing_clauses": fails, "model_agrees": agree,
              "how_to_replay": "build harness/comp/bufwrite.c (-DBW_CAP=%d) and feed the script on stdin; "
                               "lean/.lake/build/bin/drv_bufwrite for the model" % cap}
    if fails:
        for e in C.open_findings(PID):
            trig = TRIGGERS.get(e.get("id"))
            if trig and agree and trig(small, il, cap):
                out.known_finding("%s %s" % (e["id"], e.get("what", "")))
                return
        out.violation("C10 fails on the implementation: " + "; ".join(fails[:3]), replay)
    else:
        replay["broken"] = "correspondence Cjet.Bufwrite (writev/sendBuffer/writable) vs buffered_socket.c; theorems of " \
                           "Cjet.Props.C10 no longer speak about this code"
        # neighbourhood search on the implementation: the monitor already ran on every scenario of every family
        out.violation("model and implementation differ, no property failure found", replay, no_input=True)


_default_cap = None


def default_cap():
    global _default_cap
    if _default_cap is None:
        _default_cap = int(C.config_values("default")["CONFIG_MAX_WRITE_BUFFER_SIZE"])
    return _default_cap


# --------------------------------------------------------------------------- entry

def load_corpus():
    out = []
    for p in sorted(glob.glob(os.path.join(C.ROOT, "scenarios", "c10_*.txt"))):
        cur = None
        for ln in open(p).read().splitlines():
            ln = ln.strip()
            if not ln or ln.startswith("#"):
                continue
            if ln.startswith("new "):
                cur = [ln]
                out.append((os.path.basename(p), cur))
            elif cur is not None:
                cur.append(ln)
    return out


def run(ctx, out):
    base = os.path.join(C.WORK, "c10run")
    for d in (os.listdir(base) if os.path.isdir(base) else []):   # leftovers of killed runs
        if d.isdigit() and not os.path.exists("/proc/" + d):
            shutil.rmtree(os.path.join(base, d), ignore_errors=True)
    try:
        run_inner(ctx, out)
    finally:
        cleanup_private()
    # whole-daemon family (framework owner): on the assembled daemon the bytes the simulated kernel accepted on every
    # connection are the frames handed to the writer, whole and in order (monitors.mon_wire, applied to every scenario),
    # under write budgets / would-block / errors on subscribers and callers and with requests that fill the read buffer
    from vlib import dcheck, directed
    comp = dict(out.coverage)
    dcheck.run_property(ctx, out, "C10", None, n_quick=150, n_thorough=2500,
                        gen_kw=dict(ws_share=0.4, batches=0.1, malformed=0.03, victims=2, faults=True, timers=True),
                        directed=directed.full_buffer_request() + directed.faulty_caller() + directed.faulty_caller_batched() + directed.write_error_after_progress() + directed.requester_backpressure())
    for k in list(out.coverage):
        if k not in comp or out.coverage[k] != comp[k]:
            out.coverage["daemon_" + k] = out.coverage[k]
            if k in comp:
                out.coverage[k] = comp[k]
            else:
                del out.coverage[k]


def run_inner(ctx, out):
    out.assumptions += [
        "kernel contract for termination only: a successful writev of m>0 requested bytes returns 1..m",
        "the kernel is the scripted stub behind --wrap=writev (real posix/socket.c gathers the iovec)",
        "error callback = the owner closes the connection (free_peer_on_error / free_connection); not part of this component",
    ]
    dcap = default_cap()
    bins = {dcap: build(None), SMALL_CAP: build(SMALL_CAP), QUICK_CAP: build(QUICK_CAP)}
    cov = out.coverage
    totals = {"scenarios": 0, "ops": 0, "hist": {}, "distinct": set(), "dead": 0}
    problems = []
    families = {}

    def absorb(res, fam):
        totals["scenarios"] += res["scenarios"]
        totals["ops"] += res["ops"]
        totals["dead"] += res["dead"]
        totals["distinct"] |= res["distinct"]
        for k, v in res["hist"].items():
            totals["hist"][k] = totals["hist"].get(k, 0) + v
        f = families.setdefault(fam, {"scenarios": 0, "ops": 0})
        f["scenarios"] += res["scenarios"]
        f["ops"] += res["ops"]
        for p in res["problems"]:
            problems.append((fam, p))
        if res.get("problems_more"):
            f["problems_not_listed"] = f.get("problems_not_listed", 0) + res["problems_more"]

    # 0. constants tie: the model's capacity constant is the one the code is compiled with
    drvcap = C.run_drv("bufwrite", "", args=["cfgcap"])
    (il, crash), = run_impl(bins[dcap], [["new %d" % dcap]])
    if crash or not il or drvcap != ["cfgcap %d" % dcap] or not il[0].startswith("new cap=%d ok=1" % dcap):
        out.violation("write buffer size differs between generated constants and compiled code",
                      {"property": PID, "broken": "Cjet.Generated.cfgMaxWriteBufferSize vs CONFIG_MAX_WRITE_BUFFER_SIZE",
                       "driver": drvcap, "harness": il, "crash": crash}, no_input=True)

    # 1. corpus (directed + past disagreements + known-finding replays)
    corpus = load_corpus()
    by_cap = {}
    for name, s in corpus:
        cap = int(s[0].split()[1])
        by_cap.setdefault(cap, []).append(s)
    for cap, scripts in by_cap.items():
        if cap not in bins:
            bins[cap] = build(cap)
        absorb(evaluate(bins[cap], cap, scripts, "corpus cap=%d" % cap), "corpus")

    # known findings: open entries print KNOWN-FINDING while their replay still fails the monitor;
    # fixed entries are ordinary regressions (they are part of the corpus above)
    for e in C.open_findings(PID):
        rp = os.path.join(C.ROOT, e.get("replay", ""))
        if os.path.isfile(rp):
            for name, s in [(n, s) for n, s in corpus if n == os.path.basename(rp)]:
                cap = int(s[0].split()[1])
                fails, agree, _, _ = still_bad(bins[cap], cap, s)
                if fails:
                    out.known_finding("%s %s" % (e["id"], e.get("what", "")))
    for e in [e for e in C.known_findings(PID) if e.get("status") == "fixed"]:
        rp = os.path.join(C.ROOT, e.get("replay", ""))
        if not os.path.isfile(rp):
            out.notes.append("fixed finding %s has no replay file %s" % (e.get("id"), rp))

    # 2. exhaustive product on a small buffer
    if ctx.thorough:
        ecap, shapes, tails = SMALL_CAP, SHAPES, TAILS
    else:
        ecap, shapes, tails = QUICK_CAP, SHAPES_QUICK, TAILS_QUICK
    tasks = [(ecap, L, sh, tails, bins[ecap]) for L in range(0, ecap + 1) for sh in shapes]
    # 3. seeded random histories
    n_small, n_real = (200000, 30000) if ctx.thorough else (20000, 3000)
    step = 500
    rtasks = [(SMALL_CAP, lo, min(lo + step, n_small), bins[SMALL_CAP], False) for lo in range(0, n_small, step)]
    rtasks += [(dcap, lo, min(lo + 100, n_real), bins[dcap], True) for lo in range(0, n_real, 100)]
    with concurrent.futures.ProcessPoolExecutor(max_workers=C.NPROC) as ex:
        futs = [(ex.submit(exhaustive_task, t), "exhaustive") for t in tasks]
        futs += [(ex.submit(random_task, t), "random_small" if not t[4] else "random_real") for t in rtasks]
        for fu, fam in futs:
            absorb(fu.result(), fam)

    seen = set()
    for fam, p in problems[:6]:
        n = len(out.violations)
        report_problem(out, ctx, p, fam)
        # the same shrunk replay found from several cells is reported once
        if len(out.violations) > n:
            key = out.violations[-1]["replay"]
            if key in seen:
                out.violations.pop()
            seen.add(key)
    if len(problems) > 6:
        out.notes.append("%d further problem scenarios not individually reported" % (len(problems) - 6))

    cov.update({
        "traces_validated_against_impl": totals["scenarios"] - len(problems),
        "evaluations": totals["ops"],
        "distinct_nontrivial": len(totals["distinct"]),
        "rule": "distinct = different observation streams (return codes, fill levels, buffer bytes, kernel bytes, "
                "error callbacks) of whole scenarios that agreed between model and code",
        "families": families,
        "branch_histogram": dict(sorted(totals["hist"].items())),
        "scenarios_reaching_dead_connection": totals["dead"],
        "exhaustive": True,
        "exhaustive_scope": "cap=%d: every fill level 0..cap x %d frame shapes (iovec element lengths, incl. empty elements/"
                            "count 0, totals up to %d) x first kernel answer in {all, block, error, every partial position} x "
                            "every follow-up of the flush loop inside writev {block, all, error, (Pj,block), (Pj,error) for every j, "
                            "two repeated partials} x %d tail events; random families are samples, not exhaustive"
                            % (ecap, len(shapes), max(sum(s) for s in shapes), len(tails)),
        "capacities": sorted(bins.keys()),
        "samples": [gen_random_scenario(C.rng("c10", "small", SMALL_CAP, 0), SMALL_CAP, False),
                    exhaustive_sample(ecap)],
        "monitor": "python reference: kernel bytes ++ pending == concat(frames with rc 0) while live; refused frame left "
                   "nothing or connection dead and silent afterwards; to_write<=cap; kernel calls <= bytes; harness FAULT lines",
    })


def exhaustive_sample(cap):
    return ["new %d" % cap, op_writev([seq_bytes(0, cap - 3)], ["B"]),
            op_writev([seq_bytes(0x40, 4), seq_bytes(0x44, 5)], ["P%d" % (cap - 1), "P1", "B"]), op_writable(["A"])]
