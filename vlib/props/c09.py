"""C09 — behaviour depends on each connection's byte stream, not on its segmentation.

Proof side: lean/Cjet/Props/C09.lean over the reader model lean/Cjet/Bufread.lean.
Tie: harness/comp/bufread.c (the REAL buffered_socket.c read side + the REAL socket_peer.c framing over a
scripted socket_read) and the model driver drv_bufread run the same scripts; every observation line
(each read call's size and answer, each delivery, close/error decisions, r/w/buffer image after every event)
must be identical.

The property itself is evaluated on the implementation, independently of the Lean model:
  * the same byte stream (+ the same terminal event) under different chunkings, event groupings, would-block
    positions and initial buffer contents must give identical deliveries and the same end of connection;
  * for the raw-socket framing the deliveries must equal a Python reference (4-byte big-endian length, zero
    skipped, length > cap ends the connection, message = exactly the next `length` bytes);
  * no FAULT line (read target / slice outside the buffer, parse_message not given the slice), no sanitizer
    abort (the buffer tail behind write_ptr is ASan-poisoned while the code runs).
Classification: any of these failing on the real code => VIOLATION with a shrunk replay (stream + two
chunkings); model and code differ but the property holds on the code => `no-failing-input-found`.
"""
import concurrent.futures
import itertools
import os
import time

from vlib import common as C

LEVEL = "proof"

ENV = {"ASAN_OPTIONS": "detect_leaks=0:abort_on_error=0", "UBSAN_OPTIONS": "print_stacktrace=0"}
CLIENTS = ("raw", "line", "ws", "mix")
CRLF = b"\r\n"


def srcs():
    return [C.ROOT + "/harness/comp/bufread.c", C.SRC + "/linux/jet_string.c", C.SRC + "/linux/jet_endian.c"]


def default_cap():
    return int(C.config_values()["CONFIG_MAX_MESSAGE_SIZE"])


def build(cap):
    if cap == default_cap():
        return C.cc_build("bufread", srcs())            # the buffer size the daemon is built with
    return C.cc_build("bufread", srcs(), defines=["BR_CAP=%d" % cap])


# --------------------------------------------------------------------------- python reference (byte stream only)

def _raw_want(s):
    return ("E", 4) if s[0] == "len" else ("E", s[1])


def _raw_deliver(s, m):
    if s[0] == "len":
        n = int.from_bytes(m, "big")
        return (("len",) if n == 0 else ("msg", n)), False
    return ("len",), m[0] == 0xFF


def _line_want(s):
    return ("U", CRLF)


def _line_deliver(s, m):
    return s, m[0] == 0xFF


def _ws_mop(mask, ln):
    if mask:
        return ("mask", ln), False
    if ln > 0:
        return ("payload", ln, False), False
    return ("hdr",), True


def _ws_want(s):
    return ("E", {"hdr": 1, "len1": 1, "len16": 2, "len64": 8, "mask": 4}.get(s[0], s[1] if s[0] == "payload" else 0))


def _ws_deliver(s, m):
    k = s[0]
    if k == "hdr":
        return ("len1",), False
    if k == "len1":
        mask = bool(m[0] & 0x80)
        f = m[0] & 0x7F
        if f < 126:
            return _ws_mop(mask, f)
        return (("len16", mask) if f == 126 else ("len64", mask)), False
    if k in ("len16", "len64"):
        return _ws_mop(s[1], int.from_bytes(m, "big"))
    if k == "mask":
        if s[1] > 0:
            return ("payload", s[1], True), False
        return ("hdr",), False          # empty frame: accepted (frameOk [] in the model, payload "starts with ff" is false)
    # payload
    if not s[2]:
        return ("hdr",), True
    return ("hdr",), m[0] == 0xFF


def _mix_want(s):
    return s


def _mix_deliver(s, m):
    x = m[-1]
    if x == 0xFF:
        return s, True
    if x >= 0x80:
        return ("U", CRLF), False
    return ("E", x % 8), False


REF = {
    "raw": (("len",), _raw_want, _raw_deliver),
    "line": ((), _line_want, _line_deliver),
    "ws": (("hdr",), _ws_want, _ws_deliver),
    "mix": (("E", 1), _mix_want, _mix_deliver),
}
TERM_OUT = {"none": "wouldblock", "E": "peerclosed", "X": "error"}


def spec(client, cap, stream, term):
    """(deliveries, outcome) as a function of the byte stream and its terminal event alone."""
    st, want, deliver = REF[client]
    pos, dels = 0, []
    while True:
        req = want(st)
        if req[0] == "E":
            n = req[1]
            if n > cap:
                return dels, "error"
            if len(stream) - pos < n:
                return dels, TERM_OUT[term]
        else:
            i = stream[pos:pos + cap].find(req[1])
            if i >= 0:
                n = i + len(req[1])
            elif len(stream) - pos >= cap:
                return dels, "error"
            else:
                return dels, TERM_OUT[term]
        if n == 0:
            return dels, "peerclosed"       # the reader hands the callback len 0: indistinguishable from end of stream
        m = stream[pos:pos + n]
        pos += n
        dels.append(m.hex())
        st, closed = deliver(st, m)
        if closed:
            return dels, "clientclosed"


def raw_frames(cap, stream, term):
    """Direct statement of the raw framing clause of C09 (headers and messages as delivered)."""
    dels, pos = [], 0
    while True:
        if len(stream) - pos < 4:
            return dels, TERM_OUT[term]
        n = int.from_bytes(stream[pos:pos + 4], "big")
        dels.append(stream[pos:pos + 4].hex())
        pos += 4
        if n == 0:
            continue
        if n > cap:
            return dels, "error"
        if len(stream) - pos < n:
            return dels, TERM_OUT[term]
        m = stream[pos:pos + n]
        pos += n
        dels.append(m.hex())
        if m[0] == 0xFF:
            return dels, "clientclosed"


# --------------------------------------------------------------------------- scenarios

def mk_events(stream, marks, term, first_empty=False, term_own=False, explicit_w=False):
    """marks[i] (i = 1..len-1) between byte i-1 and byte i: 0 no cut, 1 cut (next read call of the same event),
    2 cut and a new readiness event.  Returns the list of events (lists of answer tokens)."""
    evs = [[]]
    cur = bytearray()
    for i, b in enumerate(stream):
        if i > 0 and marks[i]:
            evs[-1].append("C" + bytes(cur).hex())
            cur = bytearray()
            if marks[i] == 2:
                if explicit_w:
                    evs[-1].append("W")
                evs.append([])
        cur.append(b)
    if cur:
        evs[-1].append("C" + bytes(cur).hex())
    if term != "none":
        tok = term
        if term_own:
            evs.append([tok])
        else:
            evs[-1].append(tok)
    if first_empty:
        evs = [[]] + evs
    return evs


def script_of(cap, client, fill, evs):
    lines = ["new %d %s %02x %s" % (cap, client, fill, ",".join(evs[0]) or "-")]
    for ev in evs[1:]:
        lines.append("event " + (",".join(ev) or "-"))
    return lines


def variant_events(stream, term, v):
    marks, flags = v
    return mk_events(stream, marks, term, first_empty=bool(flags & 1), term_own=bool(flags & 2),
                     explicit_w=bool(flags & 4))


def all_marks(n, kinds=(0, 1, 2)):
    if n <= 1:
        yield (0,) * max(n, 1)
        return
    for t in itertools.product(kinds, repeat=n - 1):
        yield (0,) + t


def random_marks(r, n):
    if n <= 1:
        return (0,) * max(n, 1)
    style = r.random()
    if style < 0.15:
        p_cut = 1.0
    elif style < 0.3:
        p_cut = 0.0
    else:
        p_cut = r.choice((0.05, 0.2, 0.5, 0.8))
    p_ev = r.choice((0.0, 0.3, 0.7, 1.0))
    m = [0]
    for _ in range(n - 1):
        if r.random() < p_cut:
            m.append(2 if r.random() < p_ev else 1)
        else:
            m.append(0)
    return tuple(m)


def canonical_variants(n):
    """single chunk, single bytes in one event, single bytes one event each — with different fills/flags."""
    one = (0,) * max(n, 1)
    return [((one, 0), 0x00), (((0,) + (1,) * (n - 1) if n else one, 0), 0xEE), (((0,) + (2,) * (n - 1) if n else one, 3), 0x0D),
            (((0,) + (2,) * (n - 1) if n else one, 4), 0xFF)]


# --------------------------------------------------------------------------- running both sides

def parse_ops(lines, nops):
    """Split an output into per-op line groups (an op's output ends with an `end`, `dead` or BADOP line)."""
    out, cur = [], []
    for ln in lines:
        cur.append(ln)
        if ln.startswith("end ") or ln == "dead" or ln.startswith("BADOP") or ln.startswith("FAULT script wants cap"):
            out.append(cur)
            cur = []
            if len(out) == nops:
                break
    return out, cur


def run_harness(binp, text):
    rc, out, err = C.sh([binp], inp=text.encode(), env=ENV, timeout=900)
    return rc, out.splitlines(), err


def projection(oplines):
    """(deliveries, final outcome) of one scenario from its observation lines."""
    dels, outcome = [], "wouldblock"
    for grp in oplines:
        for ln in grp:
            if ln.startswith("deliver "):
                dels.append(ln[8:])
            elif ln.startswith("end "):
                outcome = ln.split(" ", 2)[1]
    return dels, outcome


def run_pair(cap, binp, scripts):
    """scripts: list of line lists.  Returns (per-scenario harness op groups or None, per-scenario model op groups, crash)."""
    text = "\n".join("\n".join(s) for s in scripts) + "\n"
    nops = sum(len(s) for s in scripts)
    rc, hl, err = run_harness(binp, text)
    ml = C.run_drv("bufread", text)
    hops, hrest = parse_ops(hl, nops)
    mops, _ = parse_ops(ml, nops)
    crash = None
    if rc not in (0, 3) or len(hops) != nops:
        crash = {"rc": rc, "stderr": err[-3000:], "ops_seen": len(hops), "partial": hrest[-10:]}
    res_h, res_m, i = [], [], 0
    for s in scripts:
        res_h.append(hops[i:i + len(s)] if i + len(s) <= len(hops) else None)
        res_m.append(mops[i:i + len(s)])
        i += len(s)
    return res_h, res_m, crash


def batch_worker(job):
    """job = (cap, binp, groups); group = (client, stream bytes, term, variants[(marks, flags), fill])"""
    cap, binp, groups = job
    groups = [(cl, st, te, ([((m, 0), 0xEE) for m in all_marks(len(st), v[1])] if v and v[0] == "all" else v))
              for (cl, st, te, v) in groups]
    scripts, index = [], []
    for gi, (client, stream, term, variants) in enumerate(groups):
        for vi, (v, fill) in enumerate(variants):
            scripts.append(script_of(cap, client, fill, variant_events(stream, term, v)))
            index.append((gi, vi))
    stats = {"scenarios": len(scripts), "groups": len(groups), "outcomes": {}, "clients": {}, "reads": {},
             "compactions": 0, "deliveries": 0, "nontrivial": 0, "evals": 0, "events": 0}
    problems = []
    res_h, res_m, crash = run_pair(cap, binp, scripts)
    if crash is not None:
        # locate the scenario that kills the harness
        for k, s in enumerate(scripts):
            h1, m1, c1 = run_pair(cap, binp, [s])
            if c1 is not None:
                gi, vi = index[k]
                client, stream, term, variants = groups[gi]
                problems.append({"kind": "crash", "cap": cap, "client": client, "stream": stream.hex(), "term": term,
                                 "variant": variants[vi], "script": s, "detail": c1})
                break
        else:
            problems.append({"kind": "crash", "cap": cap, "detail": crash, "script": scripts[0]})
        return stats, problems
    per_group = {}
    for k, (gi, vi) in enumerate(index):
        client, stream, term, variants = groups[gi]
        h, m = res_h[k], res_m[k]
        flat = [ln for g in h for ln in g]
        stats["events"] += len(h)
        if any(ln.startswith("FAULT") for ln in flat):
            problems.append({"kind": "fault", "cap": cap, "client": client, "stream": stream.hex(), "term": term,
                             "variant": variants[vi], "script": scripts[k], "impl": flat})
        if h != m:
            problems.append({"kind": "model", "cap": cap, "client": client, "stream": stream.hex(), "term": term,
                             "variant": variants[vi], "script": scripts[k], "impl": flat,
                             "model": [ln for g in m for ln in g]})
        pr = projection(h)
        per_group.setdefault(gi, []).append((vi, pr))
        # histograms
        prev = None
        for ln in flat:
            if ln.startswith("read "):
                _, asked, got = ln.split(" ")
                asked = int(asked)
                kind = got[0]
                stats["reads"][kind] = stats["reads"].get(kind, 0) + 1
                if prev is not None and asked > prev:
                    stats["compactions"] += 1
                prev = asked - ((len(got) - 1) // 2 if kind == "C" else 0)
            elif ln.startswith("deliver "):
                prev = prev  # deliveries do not move write_ptr
        stats["outcomes"][pr[1]] = stats["outcomes"].get(pr[1], 0) + 1
        stats["clients"][client] = stats["clients"].get(client, 0) + 1
        stats["deliveries"] += len(pr[0])
    for gi, prs in per_group.items():
        client, stream, term, variants = groups[gi]
        ref = spec(client, cap, stream, term)
        first = prs[0][1]
        stats["evals"] += len(prs)
        if first[0] or first[1] != "wouldblock":
            stats["nontrivial"] += 1
        for vi, pr in prs[1:]:
            if pr != first:
                problems.append({"kind": "chunking", "cap": cap, "client": client, "stream": stream.hex(), "term": term,
                                 "variant_a": variants[prs[0][0]], "variant_b": variants[vi],
                                 "observable_a": first, "observable_b": pr})
                break
        for vi, pr in prs:
            if (list(pr[0]), pr[1]) != (ref[0], ref[1]):
                problems.append({"kind": "spec", "cap": cap, "client": client, "stream": stream.hex(), "term": term,
                                 "variant": variants[vi], "observable": pr, "reference": ref})
                break
        if client == "raw":
            rf = raw_frames(cap, stream, term)
            for vi, pr in prs:
                if (list(pr[0]), pr[1]) != (rf[0], rf[1]):
                    problems.append({"kind": "rawframing", "cap": cap, "client": client, "stream": stream.hex(),
                                     "term": term, "variant": variants[vi], "observable": pr, "reference": rf})
                    break
    return stats, problems


# --------------------------------------------------------------------------- stream generators

def be32(n):
    return n.to_bytes(4, "big")


def gen_raw_stream(r, cap, maxlen):
    out = bytearray()
    while len(out) < maxlen:
        k = r.random()
        if k < 0.12:
            out += be32(0)
            continue
        if k < 0.17:
            n = cap + r.choice((1, 2, 100, 0xFFFFFFFF - cap))
        elif k < 0.3:
            n = cap
        elif k < 0.4:
            n = max(1, cap - r.randrange(0, 5))
        else:
            n = r.randrange(1, max(2, min(cap, 40) + 1))
        n = min(n, 0xFFFFFFFF)
        out += be32(n)
        if n > cap:
            out += bytes(r.randrange(256) for _ in range(r.randrange(0, 12)))
            break
        body = bytearray(r.randrange(256) for _ in range(n))
        if body[0] == 0xFF and r.random() < 0.8:
            body[0] = 0x7B
        out += body
    if r.random() < 0.35 and out:
        out = out[:r.randrange(0, len(out))]
    return bytes(out)


def gen_line_stream(r, cap, maxlen):
    out = bytearray()
    alpha = [0x0D, 0x0A, 0x0D, 0x0A, 0x41, 0x20, 0x00, 0xFF, 0x47]
    while len(out) < maxlen:
        k = r.random()
        if k < 0.6:
            ln = r.randrange(0, max(1, min(cap, 30)))
        elif k < 0.8:
            ln = max(0, cap - r.randrange(0, 4))          # line + CRLF around the buffer size
        else:
            ln = r.randrange(0, cap + 3)
        body = bytes(r.choice(alpha[4:]) if r.random() < 0.8 else r.choice(alpha) for _ in range(ln))
        out += body + (CRLF if r.random() < 0.9 else bytes([r.choice((0x0D, 0x0A))]))
    if r.random() < 0.3 and out:
        out = out[:r.randrange(0, len(out))]
    return bytes(out)


def gen_ws_stream(r, cap, maxlen):
    out = bytearray()
    while len(out) < maxlen:
        b0 = r.choice((0x81, 0x82, 0x01, 0x80, 0x89, 0x8A, 0x88))
        k = r.random()
        if k < 0.5:
            n = r.randrange(0, min(cap, 60) + 1)
        elif k < 0.7:
            n = max(0, cap - r.randrange(0, 3))
        elif k < 0.8:
            n = cap + r.randrange(1, 4)
        else:
            n = r.randrange(0, 3)
        masked = r.random() < 0.9
        form = r.random()
        if n < 126 and form < 0.8:
            hdr = bytes([b0, (0x80 if masked else 0) | n])
        elif n < 65536 and form < 0.95:
            hdr = bytes([b0, (0x80 if masked else 0) | 126]) + n.to_bytes(2, "big")
        else:
            hdr = bytes([b0, (0x80 if masked else 0) | 127]) + n.to_bytes(8, "big")
        out += hdr
        if masked:
            out += bytes(r.randrange(256) for _ in range(4))
        if n > cap:
            out += bytes(r.randrange(256) for _ in range(r.randrange(0, 8)))
            break
        body = bytearray(r.randrange(256) for _ in range(n))
        if n and body[0] == 0xFF and r.random() < 0.8:
            body[0] = 0x22
        out += body
        if not masked and n == 0:
            break
    if r.random() < 0.3 and out:
        out = out[:r.randrange(0, len(out))]
    return bytes(out)


MIX_ALPHA = [0, 1, 2, 3, 4, 5, 6, 7, 0x0D, 0x0A, 0x0D, 0x0A, 0x80, 0x83, 0x41, 0x09, 0x0C, 0xFF]


def gen_mix_stream(r, cap, maxlen):
    n = r.randrange(0, maxlen + 1)
    return bytes(r.choice(MIX_ALPHA[:-1]) if r.random() < 0.97 else 0xFF for _ in range(n))


GEN = {"raw": gen_raw_stream, "line": gen_line_stream, "ws": gen_ws_stream, "mix": gen_mix_stream}


def directed_streams(cap):
    """(client, stream) pairs aimed at the mechanisms of the reader."""
    out = []
    msg = lambda n, b=0x61: be32(max(n, 0)) + bytes([b]) * max(n, 0)
    # raw: exact fits, buffer end, compaction, maximum and over length, zero-length runs
    out.append(("raw", msg(1) + msg(2) + msg(3)))
    out.append(("raw", msg(cap)))
    out.append(("raw", msg(cap) + msg(cap) + msg(1)))
    out.append(("raw", msg(cap - 4) + msg(1)))                       # header+message end exactly at the buffer end
    out.append(("raw", msg(cap - 8) + msg(0) + msg(3)))               # next header ends exactly at the buffer end
    out.append(("raw", msg(cap - 6) + msg(5)))                        # header straddles the buffer end
    out.append(("raw", msg(cap // 2) + msg(cap // 2) + msg(cap // 2)))
    out.append(("raw", be32(cap + 1) + b"xxxx"))
    out.append(("raw", msg(2) + be32(cap + 1) + b"yy"))
    out.append(("raw", be32(0xFFFFFFFF) + b"zz"))
    out.append(("raw", be32(0x01000000) + b"zz"))
    out.append(("raw", be32(0) * 5 + msg(2) + be32(0) * 3))
    out.append(("raw", be32(0) * (cap // 4 + 3) + msg(1)))
    out.append(("raw", msg(3) + be32(4) + b"\xffabc" + msg(1)))        # refused message closes, rest ignored
    out.append(("raw", msg(cap - 1) + msg(cap) + msg(cap - 1)))
    json1 = b'{"jsonrpc":"2.0","method":"info","id":1}'
    if cap >= len(json1):
        out.append(("raw", be32(len(json1)) + json1 + be32(len(json1) - 1) + json1[:-1] + be32(1) + b"}"))
    # line: CRLF at every kind of boundary
    out.append(("line", b"GET / HTTP/1.1\r\nHost: a\r\n\r\n"[:max(4, min(cap, 27))] + b"\r\n"))
    out.append(("line", b"a" * (cap - 2) + CRLF + b"b\r\n"))          # line fills the buffer exactly
    out.append(("line", b"a" * (cap - 1) + CRLF))                      # delimiter would end one past the buffer
    out.append(("line", b"a" * (cap - 1) + b"\r" + b"\n"))
    out.append(("line", b"a" * cap + CRLF))
    out.append(("line", b"ab\r\n" + b"c" * (cap - 5) + b"\r" + b"\n" + b"d\r\n"))   # CRLF straddles a compaction
    out.append(("line", b"\r\n\r\n\r\r\n\n\r\n"))
    out.append(("line", b"\r" * (cap - 1) + b"\n"))
    out.append(("line", b"x\r\n\xffy\r\nz\r\n"))
    out.append(("line", b"abc\r"))
    # ws
    out.append(("ws", bytes([0x81, 0x83, 1, 2, 3, 4, 0x61, 0x62, 0x63]) * 3))
    out.append(("ws", bytes([0x81, 0x80, 1, 2, 3, 4]) * 3 + bytes([0x81, 0x00])))
    if cap >= 126:
        out.append(("ws", bytes([0x82, 0xFE]) + (126).to_bytes(2, "big") + b"\x01\x02\x03\x04" + b"p" * 126))
        out.append(("ws", bytes([0x82, 0xFF]) + (cap).to_bytes(8, "big") + b"\x01\x02\x03\x04" + b"q" * cap + bytes([0x89, 0x80, 0, 0, 0, 0])))
    out.append(("ws", bytes([0x82, 0xFE]) + min(cap, 65535).to_bytes(2, "big") + b"\x01\x02\x03\x04" + b"p" * min(cap, 65535)))
    out.append(("ws", bytes([0x82, 0xFF]) + (cap + 1).to_bytes(8, "big") + b"\x01\x02\x03\x04" + b"r" * 5))
    out.append(("ws", bytes([0x82, 0xFF]) + (2 ** 64 - 1).to_bytes(8, "big") + b"\x01\x02\x03\x04"))
    out.append(("ws", bytes([0x81, 0x03, 0x61, 0x62, 0x63])))          # unmasked: refused by the server
    out.append(("ws", bytes([0x81, 0x81, 9, 9, 9, 9, 0xFF, 0x81, 0x80, 0, 0, 0, 0])))
    # mix: reader switches, read_exactly(0)
    out.append(("mix", bytes([3, 1, 2, 0x83, 0x41, 0x0D, 0x0A, 2, 9, 1, 0x80, 0x0D, 0x0D, 0x0A, 0x01, 0x08])))
    out.append(("mix", bytes([0x80]) + b"\r" * (cap - 1) + b"\n" + bytes([1, 1])))
    out.append(("mix", bytes([0x80]) + b"a" * cap))
    out.append(("mix", bytes([7]) + bytes([1]) * 6 + bytes([7]) + bytes([2]) * 6 + bytes([0x0A])))
    out.append(("mix", bytes([1, 0xFF, 1])))
    out.append(("mix", bytes([2, 0x41, 0x08, 0x55])))
    return out


# --------------------------------------------------------------------------- shrinking and neighbourhood search

def run_one(cap, client, fill, evs):
    res_h, res_m, crash = run_pair(cap, build(cap), [script_of(cap, client, fill, evs)])
    return res_h[0], res_m[0], crash


def observable_of(cap, client, stream, term, v, fill):
    h, m, crash = run_one(cap, client, fill, variant_events(stream, term, v))
    if crash is not None or h is None:
        return ("CRASH", str(crash)[:200]), False
    flat = [ln for g in h for ln in g]
    return projection(h), any(ln.startswith("FAULT") for ln in flat)


def drop_byte(stream, marks, i):
    s = stream[:i] + stream[i + 1:]
    m = list(marks[:i] + marks[i + 1:])
    if m:
        m[0] = 0
    return s, tuple(m) if m else (0,)


def shrink_pair(cap, client, stream, term, va, vb, budget=150):
    """Shrink a chunking-dependence witness: same stream, two variants with different observables."""
    def differs(s, a, b):
        oa, _ = observable_of(cap, client, s, term, a[0], a[1])
        ob, _ = observable_of(cap, client, s, term, b[0], b[1])
        return oa != ob
    i = len(stream) - 1
    while i >= 0 and budget > 0 and len(stream) > 1:
        s2, ma = drop_byte(stream, va[0][0], i)
        _, mb = drop_byte(stream, vb[0][0], i)
        a2, b2 = ((ma, va[0][1]), va[1]), ((mb, vb[0][1]), vb[1])
        budget -= 1
        if differs(s2, a2, b2):
            stream, va, vb = s2, a2, b2
        i -= 1
    for which in (0, 1):
        v = (va, vb)[which]
        marks = list(v[0][0])
        for j in range(1, len(marks)):
            if marks[j] and budget > 0:
                budget -= 1
                old = marks[j]
                marks[j] = 0
                cand = ((tuple(marks), v[0][1]), v[1])
                ok = differs(stream, cand, vb) if which == 0 else differs(stream, va, cand)
                if ok:
                    if which == 0:
                        va = cand
                    else:
                        vb = cand
                else:
                    marks[j] = old
    return stream, va, vb


def shrink_single(cap, client, stream, term, v, bad, budget=150):
    """Shrink one scenario while `bad(stream, term, v)` stays true."""
    i = len(stream) - 1
    while i >= 0 and budget > 0 and len(stream) > 1:
        s2, m2 = drop_byte(stream, v[0][0], i)
        v2 = ((m2, v[0][1]), v[1])
        budget -= 1
        if bad(s2, term, v2):
            stream, v = s2, v2
        i -= 1
    marks = list(v[0][0])
    for j in range(1, len(marks)):
        if marks[j] and budget > 0:
            budget -= 1
            old = marks[j]
            marks[j] = 0
            cand = ((tuple(marks), v[0][1]), v[1])
            if bad(stream, term, cand):
                v = cand
            else:
                marks[j] = old
    if term != "none" and budget > 0 and bad(stream, "none", v):
        term = "none"
    return stream, term, v


def neighbourhood(cap, client, stream, term, seed_tag):
    """Evaluate the property on the implementation around a stream: many chunkings, fills; returns a problem or None."""
    r = C.rng("c09-nb", seed_tag)
    variants = canonical_variants(len(stream))
    for _ in range(40):
        variants.append(((random_marks(r, len(stream)), r.randrange(8)), r.randrange(256)))
    stats, problems = batch_worker((cap, build(cap), [(client, stream, term, variants)]))
    for p in problems:
        if p["kind"] in ("chunking", "fault", "crash", "rawframing"):
            return p
    return None


# --------------------------------------------------------------------------- the check

def replay_of(p, extra=None):
    cap, client = p.get("cap"), p.get("client")
    obj = {"property": "C09", "seed": C.base_seed(), "harness": "harness/comp/bufread.c (BR_CAP=%s)" % cap,
           "driver": "drv_bufread", "kind": p["kind"], "cap": cap, "client": client,
           "stream_hex": p.get("stream"), "terminal": p.get("term")}
    if "variant_a" in p:
        stream = bytes.fromhex(p["stream"])
        for k in ("a", "b"):
            v, fill = p["variant_" + k]
            obj["script_" + k] = script_of(cap, client, fill, variant_events(stream, p["term"], v))
            obj["observable_" + k] = p["observable_" + k]
    for k in ("script", "impl", "model", "observable", "reference", "detail"):
        if k in p:
            obj[k] = p[k]
    if extra:
        obj.update(extra)
    return obj


def _run_component(ctx, out):
    t0 = time.time()
    dcap = default_cap()
    thorough = ctx.thorough
    caps_small = [6, 8, 16, 21]
    with concurrent.futures.ThreadPoolExecutor(max_workers=8) as tp:
        bins = dict(zip([dcap] + caps_small, tp.map(build, [dcap] + caps_small)))

    jobs = []       # (cap, binp, groups)
    samples = []

    def add_groups(cap, groups, per_job):
        for i in range(0, len(groups), per_job):
            jobs.append((cap, bins[cap], groups[i:i + per_job]))

    # ---- 1. corpus + directed families, on the daemon's real buffer size and on small buffers
    n_rand_var = 10 if thorough else 5
    for cap in [dcap] + caps_small:
        groups = []
        for di, (client, stream) in enumerate(directed_streams(cap)):
            r = C.rng("c09-dir", cap, di)
            terms = ("none", "E", "X")
            for term in terms:
                variants = canonical_variants(len(stream))
                # a cut at every single position (two chunks), both as a second read call and as a second event
                pos = list(range(1, len(stream)))
                if len(pos) > 48 and not thorough:
                    pos = sorted(set(pos[:12] + pos[-12:] + r.sample(pos, 24)))
                for p_ in pos:
                    for kind, fl in ((1, 0), (2, 2)):
                        marks = [0] * len(stream)
                        marks[p_] = kind
                        variants.append(((tuple(marks), fl), (p_ * 37) % 256))
                for _ in range(n_rand_var):
                    variants.append(((random_marks(r, len(stream)), r.randrange(8)), r.randrange(256)))
                groups.append((client, stream, term, variants))
            # end of stream / error at every position: each prefix is its own stream
            cut_positions = list(range(0, len(stream)))
            if len(cut_positions) > 40:
                cut_positions = sorted(set(cut_positions[:10] + cut_positions[-10:] + r.sample(cut_positions, 20)))
            for cp in cut_positions:
                pre = stream[:cp]
                for term in ("E", "X"):
                    variants = canonical_variants(len(pre))[:3] + [((random_marks(r, len(pre)), r.randrange(8)), r.randrange(256))]
                    groups.append((client, pre, term, variants))
        if len(samples) < 3:
            g = groups[0]
            samples.append(script_of(cap, g[0], g[3][1][1], variant_events(g[1], g[2], g[3][1][0])))
        add_groups(cap, groups, 12 if cap == dcap else 40)

    # ---- 2. differential: seeded streams, k random chunkings each
    n_streams = {True: 260, False: 60}[thorough]
    k_chunk = 12 if thorough else 6
    for cap in [dcap, 16, 21, 8]:
        groups = []
        for client in CLIENTS:
            for i in range(n_streams if cap != dcap else max(20, n_streams // 3)):
                r = C.rng("c09-diff", cap, client, i)
                stream = GEN[client](r, cap, r.choice((cap // 2, cap * 2, cap * 3 + 5)) if cap != dcap else r.choice((200, 1200, 2400)))
                term = r.choice(("none", "E", "X"))
                variants = canonical_variants(len(stream))
                for _ in range(k_chunk):
                    variants.append(((random_marks(r, len(stream)), r.randrange(8)), r.randrange(256)))
                groups.append((client, stream, term, variants))
        if len(samples) < 6:
            g = groups[len(groups) // 2]
            samples.append(script_of(cap, g[0], g[3][5][1], variant_events(g[1], g[2], g[3][5][0]))[:6])
        add_groups(cap, groups, 6 if cap == dcap else 30)

    # ---- 3. exhaustive: tiny buffer, tiny alphabet, ALL streams up to a length x ALL chunkings x all terminals
    exh = []
    H = lambda n: be32(n)
    B = lambda *xs: [bytes([x]) for x in xs]
    exh_plan = [
        # (cap, client, alphabet of tokens, max tokens, max stream bytes, chunk boundary kinds)
        (6, "mix", B(0x01, 0x02, 0x0D, 0x0A, 0x83, 0xFF), 5 if thorough else 4, 8, (0, 1, 2)),
        (6, "mix", B(0x00, 0x07, 0x0D, 0x0A, 0x80), 5 if thorough else 4, 8, (0, 1, 2)),
        (6, "line", B(0x0D, 0x0A, 0x41), 8 if thorough else 6, 9, (0, 2)),
        (6, "line", B(0x0D, 0x0A, 0x41), 6 if thorough else 4, 9, (0, 1, 2)),
        (6, "raw", B(0x00, 0x01), 9 if thorough else 8, 10, (0, 2)),
        (6, "raw", B(0x00, 0x06, 0xFF), 6 if thorough else 5, 8, (0, 1, 2)),
        (6, "raw", [H(0), H(1), H(2), H(6), H(7)] + B(0x41, 0xFF), 5 if thorough else 4, 10 if thorough else 9, (0, 2)),
        (6, "ws", B(0x81, 0x80, 0x02, 0x00), 6 if thorough else 5, 8, (0, 2)),
        (6, "ws", [bytes([0x81, 0x80]), bytes([0x82, 0x82]), bytes([0x82, 0x86]), bytes([0x81, 0x87]), bytes([0x81, 0x01]), bytes([0x2A])],
         5 if thorough else 4, 9 if thorough else 7, (0, 2)),
    ]
    for cap, client, alpha, maxtok, maxbytes, kinds in exh_plan:
        count = 0
        seen_streams = set()
        cur, cur_n = [], 0
        for n in range(0, maxtok + 1):
            for tup in itertools.product(alpha, repeat=n):
                stream = b"".join(tup)
                if len(stream) > maxbytes or stream in seen_streams:
                    continue
                seen_streams.add(stream)
                nv = len(kinds) ** max(0, len(stream) - 1)
                for term in ("none", "E", "X"):
                    count += nv
                    cur.append((client, stream, term, ("all", kinds)))
                    cur_n += nv
                    if cur_n >= 8000:
                        jobs.append((cap, bins[cap], cur))
                        cur, cur_n = [], 0
        if cur:
            jobs.append((cap, bins[cap], cur))
        exh.append({"cap": cap, "client": client, "alphabet": [a.hex() for a in alpha], "max_tokens": maxtok,
                    "max_stream_bytes": maxbytes, "streams": len(seen_streams),
                    "chunk_boundary_kinds": list(kinds), "terminals": ["none", "E", "X"], "scenarios": count})
    if os.environ.get("C09_PLAN_ONLY"):
        for e in exh:
            C.log("exh", e["client"], e["alphabet"], e["streams"], e["scenarios"])
        C.log("jobs", len(jobs))
        return

    # ---- run everything
    total = {"scenarios": 0, "groups": 0, "outcomes": {}, "clients": {}, "reads": {}, "compactions": 0,
             "deliveries": 0, "nontrivial": 0, "evals": 0, "events": 0}
    problems = []
    jobs.sort(key=lambda j: -sum((len(g[3][1]) ** max(0, len(g[1]) - 1) if g[3] and g[3][0] == "all" else len(g[3])) * (len(g[1]) + 4) for g in j[2]))
    with concurrent.futures.ProcessPoolExecutor(max_workers=min(C.NPROC, 16)) as ex:
        for stats, probs in ex.map(batch_worker, jobs, chunksize=1):
            for k, v in stats.items():
                if isinstance(v, dict):
                    for kk, vv in v.items():
                        total[k][kk] = total[k].get(kk, 0) + vv
                else:
                    total[k] += v
            problems += probs

    # ---- 4. extra model-vs-code cases outside the stream/chunking scheme (unused answers, W in the middle,
    #         empty chunk, events on a dead connection)
    misc = [
        # corpus: minimised witnesses of past (seeded) defects, kept as regression scripts
        (6, ["new 6 line ee C0d", "event C0a"]),                                   # delimiter split across two reads
        (6, ["new 6 line 0d -", "event C0d0a0d0a0d0d", "event E"]),                 # compaction must move all unread bytes
        (6, ["new 6 raw ee C00000006", "event C414243444546", "event C00000007"]),   # length == cap is legal, cap+1 is not
        (8, ["new 8 raw 00 C00,W,C01", "event C-", "event C00"]),
        (8, ["new 8 raw 5a -", "event W,W", "event B,C00000001,C41", "event C00000002,B,C4142", "event C4142,E,C00", "event E"]),
        (8, ["new 8 line 00 C0d,C-,C0a", "event C0a"]),
        (8, ["new 8 mix 00 C00", "event C01"]),
        (8, ["new 8 ws 00 C8180,X,C00", "event X"]),
        (8, ["new 8 raw 00 C000000094142,E"]),
        (6, ["new 6 raw 11 C0000000641424344,C4546,C00000001,C47", "event E"]),
    ]
    misc_fail = []
    for cap, lines in misc:
        res_h, res_m, crash = run_pair(cap, bins[cap], [lines])
        total["scenarios"] += 1
        if crash is not None or res_h[0] != res_m[0]:
            misc_fail.append({"kind": "model" if crash is None else "crash", "cap": cap, "client": lines[0].split()[2],
                              "script": lines, "impl": res_h[0], "model": res_m[0], "detail": crash})
    problems += misc_fail

    # ---- classification
    _viol = out.violation
    _seen_replays = set()

    def violation_once(what, obj, no_input=False):
        key = repr(sorted((k, repr(v)) for k, v in obj.items()))
        if key not in _seen_replays:
            _seen_replays.add(key)
            _viol(what, obj, no_input=no_input)
    out.violation = violation_once
    impl_kinds = ("chunking", "fault", "crash", "rawframing")
    reported = 0
    seen_kinds = set()
    for p in sorted(problems, key=lambda p: (p["kind"] not in impl_kinds, len(p.get("stream", "")))):
        if reported >= 4:
            break
        if p["kind"] in seen_kinds and reported >= 2:
            continue
        seen_kinds.add(p["kind"])
        cap, client = p["cap"], p.get("client")
        if p["kind"] == "chunking":
            stream = bytes.fromhex(p["stream"])
            s, va, vb = shrink_pair(cap, client, stream, p["term"], p["variant_a"], p["variant_b"])
            oa, _ = observable_of(cap, client, s, p["term"], va[0], va[1])
            ob, _ = observable_of(cap, client, s, p["term"], vb[0], vb[1])
            q = dict(p, stream=s.hex(), variant_a=va, variant_b=vb, observable_a=oa, observable_b=ob)
            out.violation("same byte stream, two chunkings, different behaviour of the real reader (client %s, cap %d)" % (client, cap),
                          replay_of(q, {"failing_clause": "chunking_irrelevant / deliveries_eq_spec",
                                        "reference_for_stream": spec(client, cap, s, p["term"])}))
            reported += 1
        elif p["kind"] == "rawframing":
            stream = bytes.fromhex(p["stream"])

            def bad(s, t, v, fill=p["variant"][1]):
                o, _ = observable_of(cap, "raw", s, t, v[0], fill)
                rf = raw_frames(cap, s, t)
                return (list(o[0]), o[1]) != (rf[0], rf[1])
            s, t, v = shrink_single(cap, "raw", stream, p["term"], p["variant"], bad)
            o, _ = observable_of(cap, "raw", s, t, v[0], v[1])
            q = dict(p, stream=s.hex(), term=t, variant=v, observable=o, reference=raw_frames(cap, s, t),
                     script=script_of(cap, "raw", v[1], variant_events(s, t, v[0])))
            out.violation("raw framing on the real code differs from: 4-byte BE length, zero skipped, > cap closes, message = next len bytes",
                          replay_of(q, {"failing_clause": "raw_framing_spec"}))
            reported += 1
        elif p["kind"] in ("fault", "crash"):
            out.violation("memory discipline of the real reader broken (%s)" % p["kind"],
                          replay_of(p, {"failing_clause": "ptrs_in_bounds"}))
            reported += 1
        else:
            # model/reference and code differ: does the property fail on the code near this input?
            hit = None
            if "stream" in p:
                hit = neighbourhood(cap, client, bytes.fromhex(p["stream"]), p["term"], p["stream"][:32])
            if hit is not None and hit["kind"] == "chunking":
                stream = bytes.fromhex(hit["stream"])
                s, va, vb = shrink_pair(cap, client, stream, hit["term"], hit["variant_a"], hit["variant_b"])
                oa, _ = observable_of(cap, client, s, hit["term"], va[0], va[1])
                ob, _ = observable_of(cap, client, s, hit["term"], vb[0], vb[1])
                q = dict(hit, stream=s.hex(), variant_a=va, variant_b=vb, observable_a=oa, observable_b=ob)
                out.violation("same byte stream, two chunkings, different behaviour of the real reader (client %s, cap %d)" % (client, cap),
                              replay_of(q, {"failing_clause": "chunking_irrelevant"}))
            elif hit is not None:
                out.violation("property fails on the real reader (%s)" % hit["kind"], replay_of(hit))
            else:
                if "stream" in p and p["kind"] == "model":
                    stream = bytes.fromhex(p["stream"])

                    def bad2(s, t, v):
                        h, m, crash = run_one(cap, client, v[1], variant_events(s, t, v[0]))
                        return crash is not None or h != m
                    s, t, v = shrink_single(cap, client, stream, p["term"], p["variant"], bad2)
                    h, m, crash = run_one(cap, client, v[1], variant_events(s, t, v[0]))
                    p = dict(p, stream=s.hex(), term=t, variant=v, script=script_of(cap, client, v[1], variant_events(s, t, v[0])),
                             impl=[ln for g in (h or []) for ln in g], model=[ln for g in m for ln in g])
                first = None
                if "impl" in p and "model" in p and p["impl"] is not None:
                    fi = [ln for g in p["impl"] for ln in (g if isinstance(g, list) else [g])]
                    fm = [ln for g in p["model"] for ln in (g if isinstance(g, list) else [g])]
                    for k in range(max(len(fi), len(fm))):
                        a = fi[k] if k < len(fi) else None
                        b = fm[k] if k < len(fm) else None
                        if a != b:
                            first = {"line": k, "impl": a, "model": b}
                            break
                out.violation("reader model and real buffered_socket.c differ (%s); behaviour of the code is still chunking-independent on the neighbourhood searched" % p["kind"],
                              replay_of(p, {"no_longer_checks": "correspondence Cjet.Bufread.goReading <-> buffered_socket.c go_reading (theorems deliveries_eq_spec, ptrs_in_bounds speak about the model)",
                                            "first_difference": first}), no_input=True)
            reported += 1

    out.violation = _viol
    # ---- if the proofs are broken, the search above has already run on the implementation
    out.coverage.update({
        "traces_validated_against_impl": total["scenarios"],
        "evaluations": total["evals"],
        "distinct_nontrivial": total["nontrivial"],
        "rule": "distinct (client, cap, byte stream, terminal event) groups whose behaviour has at least one delivery or ends the connection; every group is run under all its chunkings/fills and must give one observable, equal to the stream-only reference",
        "groups": total["groups"],
        "readiness_events": total["events"],
        "deliveries_seen": total["deliveries"],
        "outcome_histogram": total["outcomes"],
        "client_histogram": total["clients"],
        "kernel_answer_histogram": total["reads"],
        "compactions_observed": total["compactions"],
        "exhaustive": all(True for _ in exh) and not problems,
        "exhaustive_enumerations": exh,
        "buffer_sizes": [dcap] + caps_small,
        "problems_found": len(problems),
        "samples": samples[:6],
        "tie_wall_s": round(time.time() - t0, 1),
    })
    out.assumptions += [
        "glibc memmem returns the first occurrence (jet_memmem is a direct call)",
        "http_parser / ws_handle_frame / parse_message outcomes are parameters (`ok`) of the client models; the ws header machine is re-implemented thinly in the harness (websocket.c itself is tied by C12)",
        "kernel: read() returns between 1 and `count` bytes, 0 at end of stream, -1 with EAGAIN/EWOULDBLOCK or another errno",
    ]


def run(ctx, out):
    _run_component(ctx, out)
    # whole-daemon family (framework owner): see vlib/xdiff.py
    from vlib import xdiff
    xdiff.segmentation(ctx, out)
    from vlib import dcheck, directed
    comp = dict(out.coverage)
    dcheck.run_property(ctx, out, "C09", None, n_quick=0, n_thorough=0, gen_kw={}, directed=directed.split_upgrade_interleaved())
    for k in list(out.coverage):
        if k not in comp or out.coverage[k] != comp[k]:
            out.coverage["daemon_directed_" + k] = out.coverage[k]
            if k in comp:
                out.coverage[k] = comp[k]
            else:
                del out.coverage[k]
