"""C11 — a slow, failing or hostile peer harms only itself.  Proof: Cjet.Props.C11; tie: simk with write budgets /
would-block / errors on chosen subscribers, garbage, failing accept; monitor: each scenario is run twice (faulty / healed)
and every healthy peer must receive identical messages; requests still answered exactly once (C02/C03 monitors)."""
from vlib import dcheck, directed

LEVEL = "proof"


def run(ctx, out):
    dcheck.run_property(ctx, out, "C11", "mon_c11_all", n_quick=250, n_thorough=4000,
                        gen_kw=dict(ws_share=0.35, batches=0.05, malformed=0.06, victims=2, accept_faults=True, timers=True, faults=True),
                        directed=directed.regressions() + directed.accept_queue() + directed.faulty_caller() + directed.faulty_caller_batched() + directed.full_buffer_request() + directed.ws_control_under_faults(own=False) + [s for s in directed.write_error_after_progress() if "-subscriber-" in s.name])
    # component level: the real dispatcher and the real accept loop against their Lean models
    from vlib import accept_tie, evloop_tie
    evloop_tie.run_evloop_tie(ctx, out)
    accept_tie.run_accept_tie(ctx, out)
    out.assumptions += ["faulty peers in the differential family are subscribers/bystanders (their own requests would legitimately change the history); "
                        "a faulty OWNER is covered by the directed F30 scenarios and the C03 monitor"]
