"""C05 — a connection's end.  Proof: Cjet.Props.C05; tie: simk (ASan, simulated fd table) vs model with snapshots around
every close; monitors: state refers to live peers only, others untouched, subscribers see remove (C01 replica), callers get
their error (C03)."""
from vlib import dcheck, directed

LEVEL = "proof"


def run(ctx, out):
    dcheck.run_property(ctx, out, "C05", "mon_c05_all", n_quick=300, n_thorough=5000,
                        gen_kw=dict(ws_share=0.45, batches=0.05, malformed=0.08, quiesce_close=True, close_rate=0.12),
                        directed=directed.regressions() + directed.batch_orders() + directed.close_positions(ctx.thorough) + directed.reauth_after_fetch() + directed.orphan_routes() + directed.ws_control_under_faults() + directed.write_error_after_progress() + directed.faulty_caller_batched() + directed.fetcher_table_churn())
    out.assumptions += ["the model's notion of 'released' is per peer; byte-level dangling accesses are what ASan in the harness reports"]
