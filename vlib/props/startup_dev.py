"""Stand-alone check of the Startup slice (linux_io.c start-up / shut-down paths): `./check startup_dev --tier quick|thorough`.
The audit covers lean/Cjet/Props/STARTUP_DEV.lean (every theorem of Cjet.Props.Startup restated); the tie is
vlib/startup_tie.py, which the C07 and C15 checks call as well."""
from vlib import startup_tie

LEVEL = "proof"
DRIVERS = ["startup"]


def run(ctx, out):
    r = startup_tie.run_startup_tie(ctx, out)
    cov = out.coverage
    cov["traces_validated_against_impl"] = cov.get("startup_traces_validated_against_impl", 0)
    cov["evaluations"] = cov.get("startup_evaluations", 0)
    cov["distinct_nontrivial"] = cov.get("startup_distinct_nontrivial", 0)
    cov["rule"] = cov.get("startup_distinct_nontrivial_rule")
    cov["exhaustive"] = bool(cov.get("startup_exhaustive"))
    cov["samples"] = cov.get("startup_samples")
    return r


def replay(d):
    return startup_tie.replay(d)
