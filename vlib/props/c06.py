"""C06 — no input can crash the daemon or corrupt memory.

Proof side: index-safety theorems over the component models (Cjet.Props.C06 restates the anchors' theorems; the log-buffer
arithmetic is proved there).  Memory safety of C as such cannot be proved in Lean: the rest is SEARCH on the assembled
daemon (every source file except main.c) under ASan+UBSan on the simulated kernel:
  (a) structured sessions through the model tie with random segmentation of every message (a sanitizer abort, a hygiene fault
      or any disagreement with the total model is a failure);
  (b) byte-level chaos on all three endpoints: valid / mutated / truncated / oversized raw frames, HTTP requests and
      WebSocket frames of every opcode-flag-length combination, random bytes; random read sizes, interleaving across
      connections and batch composition; a bystander connection with state must survive and still be served."""
import collections
import json
import struct
import time
from concurrent.futures import ProcessPoolExecutor

from vlib import common as C
from vlib import daemon as D
from vlib import dcheck, directed, simk
from vlib import simlog as L
from vlib.daemon import obj, jtext

LEVEL = "proof"


def mutate(r, b):
    b = bytearray(b)
    k = r.randrange(8)
    if not b:
        return bytes(b)
    if k == 0:
        i = r.randrange(len(b))
        b[i] ^= 1 << r.randrange(8)
    elif k == 1:
        del b[r.randrange(len(b)):]
    elif k == 2:
        i = r.randrange(len(b))
        b[i:i] = bytes(r.randrange(256) for _ in range(r.randrange(1, 5)))
    elif k == 3 and len(b) >= 4:
        b[0:4] = struct.pack(">I", r.choice([0, 1, 511, 512, 513, 4096, 0x7fffffff, 0xffffffff, len(b) - 3, len(b) + 5]))
    elif k == 4:
        i = r.randrange(len(b))
        b[i] = r.choice([0, 0x22, 0x5c, 0x7b, 0x7d, 0xff, 0x80, 0x0d, 0x0a])
    elif k == 5:
        i = r.randrange(len(b))
        del b[i:i + r.randrange(1, 4)]
    elif k == 6:
        b = b * r.randrange(2, 4)
    return bytes(b)


REQS = [
    obj(method="info", id=1), obj(method="add", params=obj(path="x", value=[1, obj(a="b")]), id=2),
    obj(method="fetch", params=obj(id="f", path=obj(startsWith="a", caseInsensitive=True, containsAllOf=["a", "b"])), id=3),
    obj(method="fetch", params=obj(id="g", path=obj(caseInsensitive=True, caseInsensitive2=True)), id=3),
    obj(method="get", params=obj(path=obj(equals="x", equalsNot="y", contains="z", endsWith="q")), id=4),
    obj(method="set", params=obj(path="x", value=1, timeout=0.5), id="s"), obj(method="call", params=obj(path="x")),
    obj(method="config", params=obj(name="N" * 300), id=5), obj(method="remove", params=obj(path="x"), id=6),
    obj(method="change", params=obj(path="x", value=None), id=7), [obj(method="info", id=1), obj(method="info"), 5],
    obj(method="authenticate", params=obj(user="u" * 200, password="p" * 200), id=8),
    obj(method="passwd", params=obj(user="a", password="b"), id=9), obj(result=1, id="zz"), obj(error=1, id=5),
    obj(method="unfetch", params=obj(id="f"), id=10),
]


def raw_stream(r):
    out = b""
    for _ in range(r.randrange(1, 6)):
        k = r.randrange(10)
        text = jtext(r.choice(REQS))
        if k < 4:
            fr = L.raw_frame(text)
        elif k < 7:
            fr = mutate(r, L.raw_frame(text))
        elif k == 7:
            fr = L.raw_frame(mutate(r, text))
        elif k == 8:
            fr = bytes(r.randrange(256) for _ in range(r.randrange(1, 40)))
        else:
            fr = struct.pack(">I", r.choice([0, 0, 513, 100000])) + text[:r.randrange(len(text))]
        out += fr
    return out


def ws_frames(r):
    out = b""
    for _ in range(r.randrange(1, 7)):
        op = r.choice([0, 1, 1, 1, 2, 8, 9, 10, 3, 7, 11, 15])
        n = r.choice([0, 1, 2, 5, 20, 125, 126, 127, 200, 511, 512, 513, 600])
        if op == 1 and r.random() < 0.6:
            payload = jtext(r.choice(REQS))
        elif op == 8 and r.random() < 0.7:
            payload = struct.pack(">H", r.choice([1000, 1001, 999, 1005, 1011, 3000, 5000, 0])) + r.choice([b"", b"bye", b"\xff\xfe", b"\xc0\x80"])
        else:
            payload = bytes(r.randrange(256) for _ in range(n))
        fr = L.ws_frame(payload, opcode=op, fin=r.choice([1, 1, 1, 0]), rsv=r.choice([0, 0, 0, 1, 4, 7]),
                        mask=bytes(r.randrange(256) for _ in range(4)), masked=r.random() < 0.9)
        if r.random() < 0.25:
            fr = mutate(r, fr)
        out += fr
    return out


def http_stream(r):
    k = r.randrange(10)
    if k < 4:
        head = L.ws_upgrade()
    elif k == 4:
        head = L.ws_upgrade(key=r.choice([None, "short", "x" * 24, "x" * 100]), version=r.choice(["13", "8", None, ""]),
                            protocol=r.choice(["jet", "chat, jet", "chat", None, "jet ,x", ","]))
    elif k == 5:
        head = mutate(r, L.ws_upgrade())
    elif k == 6:
        head = r.choice([b"GET /api/jet/ FOO\r\n", b"POST /api/jet/ HTTP/1.1\r\n\r\n", b"GET /nope HTTP/1.1\r\n\r\n", b"GET " + b"/a" * 400 + b" HTTP/1.1\r\n\r\n",
                         b"\r\n\r\n", b"GET /api/jet/ HTTP/1.0\r\nUpgrade: websocket\r\n\r\n", b"CONNECT x:1 HTTP/1.1\r\n\r\n"])
    elif k == 7:
        head = L.ws_upgrade(extra="Sec-WebSocket-Extensions: permessage-deflate; client_max_window_bits=%s; server_no_context_takeover\r\n" % r.choice(["8", "15", "99", "x"]) +
                            "X-Long: " + "h" * r.choice([10, 400, 600]) + "\r\n")
    elif k == 8:
        head = bytes(r.randrange(256) for _ in range(r.randrange(1, 80)))
    else:
        head = L.ws_upgrade()[:r.randrange(1, len(L.ws_upgrade()))]
    return head + (ws_frames(r) if r.random() < 0.8 else b"")


def chunks(r, n):
    if n < 2 or r.random() < 0.3:
        return ""
    parts, left = [], n
    while left > 0:
        k = min(left, r.choice([1, 1, 2, 3, 5, 8, 13, 64, 300, 0]))
        parts.append(k)
        left -= k
    return " " + ",".join(str(p) for p in parts)


def chaos_script(r):
    lines = ["CONNECT jet local6",
             "IN c0 " + L.hexs(L.raw_frame(jtext(obj(method="add", params=obj(path="bystander", value=1), id=1)))),
             "IN c0 " + L.hexs(L.raw_frame(jtext(obj(method="fetch", params=obj(id="all"), id=2))))]
    if r.random() < 0.3:
        lines.insert(0, "JUNK %d" % r.randrange(256))
    n = r.randrange(1, 6)
    streams = []
    for i in range(1, n + 1):
        ep = r.choice(["jet", "http", "uds", "http"])
        lines.append("CONNECT %s %s" % (ep, "unix" if ep == "uds" else r.choice(["local6", "remote6", "mapped6"])))
        s = http_stream(r) if ep == "http" else raw_stream(r)
        cut = sorted(r.sample(range(len(s) + 1), min(len(s) + 1, r.randrange(1, 5)))) if s else [0]
        pieces = [s[a:b] for a, b in zip([0] + cut, cut + [len(s)]) if b > a]
        streams.append([i, pieces, r.choice(["EOF", "RST", "ERR", None, "EOF"])])
    # sometimes the last piece stays queued so that it is harvested together with the close / hang-up
    held = {}
    for st in streams:
        if st[2] and len(st[1]) >= 1 and r.random() < 0.3:
            held[st[0]] = st[1].pop()
    # interleave the pieces; sometimes several connections in one batch
    while any(st[1] for st in streams):
        ready = [st for st in streams if st[1]]
        if len(ready) > 1 and r.random() < 0.3:
            group = r.sample(ready, min(len(ready), r.randrange(2, 4)))
            for st in group:
                p = st[1].pop(0)
                lines.append("+IN c%d %s%s" % (st[0], L.hexs(p), chunks(r, len(p))))
            lines.append("EPOLL " + " ".join("c%d:%s" % (st[0], r.choice(["IN", "IN", "INOUT"])) for st in group))
        else:
            st = r.choice(ready)
            p = st[1].pop(0)
            lines.append("IN c%d %s%s" % (st[0], L.hexs(p), chunks(r, len(p))))
        if r.random() < 0.05:
            lines.append("ADVANCE %d" % r.choice([10 ** 6, 10 ** 9, 6 * 10 ** 9]))
    for st in streams:
        if st[0] in held:
            lines.append("+IN c%d %s" % (st[0], L.hexs(held[st[0]])))
        if st[2]:
            if r.random() < 0.35 or st[0] in held:
                # the peer's close arrives together with (or instead of) readable data: hang-up flags in the event
                lines.append("+%s c%d" % ("EOF" if st[2] == "ERR" else st[2], st[0]))
                lines.append("EPOLL c%d:%s" % (st[0], r.choice(["INHUP", "HUP", "INHUP", "ERR"])))
            else:
                lines.append("%s c%d" % (st[2], st[0]))
    lines.append("IN c0 " + L.hexs(L.raw_frame(jtext(obj(method="info", id="alive")))))
    lines.append("QUIESCE")
    return lines


def chaos_one(job):
    seed, variant = job
    r = C.rng("C06", "chaos", seed)
    lines = chaos_script(r)
    res = simk.run(dcheck.binary(variant), lines)
    log = L.Log(res["lines"])
    fails = []
    if res["sanitizer"]:
        fails.append("sanitizer: " + res["sanitizer"])
    for f in log.faults:
        fails.append("hygiene: " + f[:140])
    if log.runio_ret != 0:
        fails.append("event loop ended (run_io returned %s)" % log.runio_ret)
    c0 = log.conns.get(0)
    if c0 is None or c0.closed and c0.close_step is not None and c0.close_step < len(lines):
        fails.append("the bystander connection was closed by the daemon")
    elif b'"alive"' not in c0.out:
        fails.append("the bystander's request was not answered after the hostile traffic")
    nbytes = sum(len(x) for x in lines)
    return {"seed": seed, "fails": fails, "lines": lines if fails else None, "stderr": res["stderr"][-3000:] if fails else "",
            "sends": sum(len(c.sends) for c in log.conns.values()), "closed": sum(1 for c in log.conns.values() if c.closed), "bytes": nbytes,
            "sample": lines[:8] if seed % 97 == 0 else None}


def shrink_chaos(lines, variant):
    def bad(ls):
        res = simk.run(dcheck.binary(variant), ls)
        log = L.Log(res["lines"])
        return bool(res["sanitizer"] or log.faults or log.runio_ret != 0)
    i = len(lines) - 1
    n = 0
    while i >= 0 and n < 150:
        cand = lines[:i] + lines[i + 1:]
        n += 1
        if bad(cand):
            lines = cand
        i -= 1
    return lines


def run(ctx, out):
    # (0) the dispatcher: real eventloop_epoll.c (removed io_events are really freed, ASan) against Cjet.Evloop
    from vlib import evloop_tie
    evloop_tie.run_evloop_tie(ctx, out)
    # (0b) the JSON text layer: real cJSON.c on exactly sized buffers (ASan) against Cjet.Cjson
    from vlib import cjson_tie
    cjson_tie.run_cjson_tie(ctx, out)
    # (a) structured sessions through the model tie, all messages randomly segmented
    dcheck.run_property(ctx, out, "C06", None, n_quick=250, n_thorough=4000,
                        gen_kw=dict(ws_share=0.4, batches=0.15, malformed=0.1, faults=True),
                        directed=directed.regressions() + directed.batch_orders() + directed.full_buffer_request() + directed.ws_control_under_faults())
    # (b) byte-level chaos
    t0 = time.time()
    n = 8000 if ctx.thorough else 700
    dcheck.binary("default")
    jobs = [(ctx.seed * 1000003 + i, "default") for i in range(n)]
    tot = collections.Counter()
    bad = []
    samples = []
    nontrivial = set()
    with ProcessPoolExecutor(C.NPROC) as ex:
        for r in ex.map(chaos_one, jobs, chunksize=8):
            tot["sends"] += r["sends"]
            tot["closed_connections"] += r["closed"]
            tot["script_bytes"] += r["bytes"]
            if r["closed"] >= 1 and r["sends"] >= 2:
                nontrivial.add((r["closed"], r["sends"] // 4, r["bytes"] // 200))
            if r["sample"]:
                samples.append(r["sample"])
            if r["fails"]:
                bad.append(r)
    for r in bad[:3]:
        small = shrink_chaos(r["lines"], "default")
        res = simk.run(dcheck.binary("default"), small)
        out.violation("hostile input harms the daemon: " + "; ".join(r["fails"][:2]),
                      {"property": "C06", "simk_script": small, "failures": r["fails"], "seed": r["seed"],
                       "sanitizer_stderr": res["stderr"][-3000:], "log_tail": res["lines"][-40:]})
    out.coverage["chaos_scenarios"] = n
    out.coverage["chaos_totals"] = dict(tot)
    out.coverage["chaos_failures"] = len(bad)
    out.coverage["evaluations"] = out.coverage.get("evaluations", 0) + n
    out.coverage["distinct_nontrivial"] = out.coverage.get("distinct_nontrivial", 0) + len(nontrivial)
    out.coverage["rule"] = out.coverage.get("rule", "") + ("; chaos: non-trivial = the daemon dropped at least one connection and sent at least two frames; "
                                                            "distinct = different (connections dropped, frames sent / 4, script size / 200) signature")
    out.coverage["samples"] = (out.coverage.get("samples", []) + [{"chaos_script_head": s} for s in samples[:3]])[:8]
    out.coverage["chaos_wall_s"] = round(time.time() - t0, 1)
    out.assumptions += ["memory safety is searched (ASan/UBSan on the assembled daemon), not proved: cJSON, http-parser, zlib and sha1 internals are not modelled",
                        "uninitialised reads are only detected where ASan/UBSan see them (no MSan build of the dependencies)"]
