"""C03 — routed set/call.  Proof: Cjet.Props.C03; tie: simk vs model incl. routing tables and timers; monitor on the trace."""
from vlib import dcheck, directed

LEVEL = "proof"


def run(ctx, out):
    dcheck.run_property(ctx, out, "C03", "mon_c03_all", n_quick=300, n_thorough=5000,
                        gen_kw=dict(ws_share=0.35, batches=0.08, malformed=0.03),
                        directed=directed.regressions() + directed.batch_orders() + directed.long_ids() + directed.reply_forms() + directed.faulty_caller() + directed.faulty_caller_batched() + directed.orphan_routes() + directed.escaped_ids() + directed.abandoned_requests())
    dcheck.run_more(ctx, out, "C03", "mon_c03_all", n_quick=120, n_thorough=1500,
                    gen_kw=dict(variant="small", ws_share=0.2, single=True), tag="small")
    # the tree layer every routed value passes through (cJSON_Duplicate, member lookup): real cJSON.c against Cjet.Cjson.TreeOps
    from vlib import cjsontree_tie
    cjsontree_tie.run_cjsontree_tie(ctx, out)
