"""C17 — the hopscotch hash tables behave as exact finite maps.

Tie between the Lean model `Cjet.Hoptable` (driver `drv_hoptable`) and the real `src/hashtable.h`
(harness `harness/comp/hoptable.c`, all three key types, orders 2..13, ASan/UBSan):

 1. directed corpus `scenarios/C17-*.txt` (incl. the regression replay of the fixed finding F25);
 2. hash functions: `hash <key>` lines for many keys, three-way (C, Lean model, this file's Python);
 3. EXHAUSTIVE exploration for orders 2..4: every operation sequence up to length L (quick 5,
    thorough 7) over a small colliding key universe, explored breadth-first modulo equality of the
    complete slot image (the implementation's entire state), model vs code compared at every step;
 4. seeded random long sequences for orders 2..13 and all key types, keys chosen (by hash) to
    collide and to wrap around the table end, dense enough at orders >= 7 to force displacement.

Independently of the model, a MONITOR evaluates the property on the implementation's own output
with a Python dict as reference: lookups return the latest stored value / nothing, the live content
of the slot image equals the dict after every operation (so no other key is disturbed), a present key
is never refused, and a refusal of an absent key is justified (window fully live, or displacement
stuck).  When model and code differ, the monitor decides whether the *property* fails (VIOLATION with
replay) or only the correspondence (no-failing-input-found)."""
import concurrent.futures as cf
import glob
import os
import subprocess
import time

from vlib import common as C

LEVEL = "proof"
TYPES = ("string", "uint32", "uint64")
M32 = 0xFFFFFFFF
M64 = 0xFFFFFFFFFFFFFFFF
W = 32  # checked against the `new` line of the implementation (hop=)


# --------------------------------------------------------------------------- hash functions (third, independent copy)

def hs32(key, order):
    key &= M32
    key = (key ^ 61) ^ (key >> 16)
    key = (key + (key << 3)) & M32
    key = key ^ (key >> 4)
    key = (key * 0x27d4eb2d) & M32
    key = key ^ (key >> 15)
    return key >> (32 - order)


def hs64(key, order):
    key &= M64
    key = ((~key & M64) + (key << 18)) & M64
    key = key ^ (key >> 31)
    key = (key * 21) & M64
    key = key ^ (key >> 11)
    key = (key + (key << 6)) & M64
    key = key ^ (key >> 22)
    return (key & M32) >> (32 - order)


def hstr(bs, order):
    h = 0
    for b in bs:
        if b == 0:
            break
        c = b if b < 0x80 else (b | 0xFFFFFF00)  # uint32_t c = *key with signed char
        h = ((c + ((h << 6) & M32)) + ((h << 16) & M32) - h) & M32
    return hs32(h, order)


def pyhash(ty, order, tok):
    if ty == "string":
        return hstr(C.unhex(tok), order)
    if ty == "uint32":
        return hs32(int(tok) & M32, order)
    return hs64(int(tok) & M64, order)


def is_invalid_key(ty, tok):
    return (ty == "uint32" and int(tok) & M32 == M32) or (ty == "uint64" and int(tok) & M64 == M64)


def norm_key(ty, tok):
    if ty == "uint32":
        return str(int(tok) & M32)
    if ty == "uint64":
        return str(int(tok) & M64)
    return tok


# --------------------------------------------------------------------------- key universes

class ImplHash:
    """bucket of a key AS THE IMPLEMENTATION COMPUTES IT (its `hash` operation); the monitor and the key
    generators use this, so that a different-but-valid hash function in the C code is not an alarm."""

    def __init__(self, binp):
        self.binp = binp
        self.cache = {}

    def ensure(self, triples):
        miss = {}
        for ty, order, tok in triples:
            if (ty, order, tok) not in self.cache:
                miss.setdefault((ty, order), set()).add(tok)
        if not miss:
            return
        lines, order_of = [], []
        for (ty, order), toks in miss.items():
            lines.append("new %s %d" % (ty, order))
            order_of.append(None)
            for t in sorted(toks):
                lines.append("hash " + t)
                order_of.append((ty, order, t))
        rc, out, err = run_impl(self.binp, "\n".join(lines) + "\n")
        for key, ln in zip(order_of, out):
            if key is not None and ln.startswith("hash "):
                self.cache[key] = int(ln.split()[1])

    def bucket(self, ty, order, tok):
        tok = norm_key(ty, tok)
        if (ty, order, tok) not in self.cache:
            self.ensure([(ty, order, tok)])
        return self.cache.get((ty, order, tok), -1)


def candidate_key(ty, rng, n, start, highbytes):
    if ty == "string":
        ln = rng.randint(1, 6)
        if highbytes and rng.random() < 0.3:
            bs = bytes(rng.randint(1, 255) for _ in range(ln))
        else:
            bs = bytes(rng.choice(b"abcdefghijklmnopqrstuvwxyz/#0123456789") for _ in range(ln))
        return bs.hex()
    bits, top = (32, M32) if ty == "uint32" else (64, M64)
    v = ((start + n) & top) if rng.random() < 0.7 else rng.getrandbits(bits)
    return None if v == top else str(v)


def keys_for_buckets(ty, order, buckets, per_bucket, rng, highbytes=True, hasher=None):
    """dict bucket -> list of up to `per_bucket` distinct key tokens hashing to that bucket.
    Candidates are proposed with this file's copy of the hash functions and confirmed with the
    implementation's; if the two disagree (the C hash function was changed) the search falls back to
    bulk-hashing candidates with the implementation (bounded), so the result is always correct w.r.t. the code."""
    want = {b: [] for b in buckets}
    need = len(want) * per_bucket
    seen, cands = set(), []
    n = 0
    start = rng.randrange(1, 1 << 20)
    while need > 0 and n < 4000000:
        n += 1
        tok = candidate_key(ty, rng, n, start, highbytes)
        if tok is None or tok in seen:
            continue
        b = pyhash(ty, order, tok)
        if b in want and len(want[b]) < per_bucket:
            want[b].append(tok)
            seen.add(tok)
            need -= 1
    if hasher is None:
        return want
    hasher.ensure([(ty, order, t) for v in want.values() for t in v])
    real = {b: [] for b in buckets}
    for v in want.values():
        for t in v:
            rb = hasher.bucket(ty, order, t)
            if rb in real and len(real[rb]) < per_bucket:
                real[rb].append(t)
    rounds = 0
    while any(len(v) < per_bucket for v in real.values()) and rounds < 12:
        rounds += 1
        batch = []
        while len(batch) < 20000:
            n += 1
            tok = candidate_key(ty, rng, n, start, highbytes)
            if tok is not None and tok not in seen:
                seen.add(tok)
                batch.append(tok)
        hasher.ensure([(ty, order, t) for t in batch])
        for t in batch:
            rb = hasher.cache.pop((ty, order, t), -1)
            if rb in real and len(real[rb]) < per_bucket:
                real[rb].append(t)
                hasher.cache[(ty, order, t)] = rb
    return real


# --------------------------------------------------------------------------- running both sides

def harness_bin():
    return C.cc_build("hoptable", [C.ROOT + "/harness/comp/hoptable.c", C.SRC + "/alloc.c"])


def run_impl(binp, script, timeout=600):
    p = subprocess.run([binp], input=script.encode(), stdout=subprocess.PIPE, stderr=subprocess.PIPE, timeout=timeout,
                       env=dict(os.environ, ASAN_OPTIONS="detect_leaks=1:abort_on_error=0", UBSAN_OPTIONS="print_stacktrace=1"))
    return p.returncode, p.stdout.decode("utf-8", "replace").splitlines(), p.stderr.decode("utf-8", "replace")


def run_model(script, legacy=False):
    if legacy:
        script = "\n".join((ln + " legacy") if ln.startswith("new ") else ln for ln in script.split("\n"))
    return C.run_drv("hoptable", script)


# --------------------------------------------------------------------------- parsing observations

def parse_state(txt):
    """' 3=00000001:6162:5 ...' -> {3: (1, '6162', 5)}; key None for the empty pattern."""
    st = {}
    for item in txt.split():
        idx, rest = item.split("=", 1)
        hop, key, val = rest.split(":")
        st[int(idx)] = (int(hop, 16), None if key == "~" else key, int(val))
    return st


def parse_line(line):
    head, _, state = line.partition("|")
    w = head.split()
    return w, parse_state(state)


class Failure(Exception):
    def __init__(self, clause, detail):
        Exception.__init__(self, clause + ": " + detail)
        self.clause = clause
        self.detail = detail


class Monitor:
    """The property, evaluated on the implementation's observations of ONE table (from its `new` line on)
    against a Python dict.  `step` raises Failure(clause, detail) when the property is violated."""

    def __init__(self, new_op, new_obs, hasher, outputs_only=False):
        self.hasher = hasher
        self.outputs_only = outputs_only
        self.ghosts = []
        w = new_op.split()
        self.ty, self.order = w[1], int(w[2])
        ow, st = parse_line(new_obs)
        if ow[0] != "new":
            raise Failure("protocol", "no `new` observation: %r" % new_obs)
        kv = dict(x.split("=") for x in ow[3:])
        self.N, self.A, self.W = int(kv["N"]), int(kv["add"]), int(kv["hop"])
        if self.N != 1 << self.order or self.A != 1 << (self.order - 1) or self.W != W:
            raise Failure("constants", "N/add/hop of the implementation are %s" % kv)
        if st:
            raise Failure("create", "fresh table is not pristine: %r" % st)
        self.ref = {}
        self.state = {}
        self.stats = {"put_new": 0, "put_overwrite": 0, "put_full_window": 0, "put_full_stuck": 0, "put_keyinval": 0,
                      "get_hit": 0, "get_miss": 0, "remove_hit": 0, "remove_miss": 0, "sweep": 0, "displaced": 0,
                      "wrapped": 0, "ghost_slots": 0}

    # ---- helpers on a slot image
    def live_map(self, st):
        """position -> (bucket, distance) for every set hop bit; checks the image is a consistent encoding."""
        live = {}
        for h, (hop, _, _) in st.items():
            d = 0
            while hop:
                if hop & 1:
                    if d >= self.N:
                        raise Failure("image", "bucket %d has bit %d set, beyond the table size" % (h, d))
                    p = (h + d) % self.N
                    if p in live:
                        raise Failure("image", "slot %d referenced twice (%r and %r)" % (p, live[p], (h, d)))
                    live[p] = (h, d)
                hop >>= 1
                d += 1
        return live

    def content(self, st, live):
        out = {}
        for p, (h, d) in live.items():
            hop, key, val = st.get(p, (0, None, 0))
            if key is None:
                raise Failure("image", "bit %d of bucket %d points to empty slot %d" % (d, h, p))
            if self.hasher.bucket(self.ty, self.order, key) != h:
                raise Failure("image", "slot %d holds key %s of bucket %d but is referenced from bucket %d" % (
                    p, key, self.hasher.bucket(self.ty, self.order, key), h))
            if key in out:
                raise Failure("unique", "key %s is live twice" % key)
            out[key] = val
            if h + d >= self.N:
                self._wrapped = True
        return out

    def cannot_move(self, st, fp):
        for cd in range(1, self.W):
            hop = st.get((fp - cd) % self.N, (0, None, 0))[0]
            if hop & ((1 << cd) - 1):
                return False
        return True

    def refusal_justified(self, pre_live, post, post_live, h):
        if all(((h + d) % self.N) in pre_live for d in range(self.A)):
            return "window"
        for fd in range(self.A):
            p = (h + fd) % self.N
            if p not in post_live:
                # first slot of the window that holds no live entry after the (possibly rearranging) put
                if fd >= self.W and self.cannot_move(post, p):
                    return "stuck"
                return None
        return None

    def step(self, op, obs):
        w = op.split()
        ow, st = parse_line(obs)
        if not ow or ow[0] != w[0]:
            raise Failure("protocol", "observation %r for operation %r" % (obs[:80], op))
        fields = dict(x.split("=") for x in ow[1:] if "=" in x)
        pre = self.state
        oo = self.outputs_only
        pre_live = {} if oo else self.live_map(self.state)
        live = {} if oo else self.live_map(st)
        kind = w[0]
        if kind == "put":
            key, val = norm_key(self.ty, w[1]), int(w[2]) & M64
            rc, prev = int(fields["rc"]), int(fields["prev"])
            if is_invalid_key(self.ty, key):
                if rc != -2 or (st != pre and not oo):
                    raise Failure("keyinval", "INVALIDENTRY key: rc=%d, table %s" % (rc, "changed" if st != pre else "same"))
                self.stats["put_keyinval"] += 1
            elif rc == 0:
                if prev != self.ref.get(key, 0):
                    raise Failure("put_prev", "previous value %d, reference %r" % (prev, self.ref.get(key)))
                self.stats["put_overwrite" if key in self.ref else "put_new"] += 1
                if key not in self.ref and sum(1 for p in live if pre.get(p, (0, None, 0))[1] != st.get(p, (0, None, 0))[1]) > 1:
                    self.stats["displaced"] += 1
                self.ref[key] = val
            elif rc == -1:
                if key in self.ref:
                    raise Failure("refused_present", "put of present key %s refused" % key)
                hb = self.hasher.bucket(self.ty, self.order, key)
                why = "window" if oo else self.refusal_justified(pre_live, st, live, hb)
                if why is None:
                    raise Failure("refused_unjustified",
                                  "put of %s (bucket %d) refused although a slot within reach holds no entry and is not stuck" % (
                                      key, hb))
                self.stats["put_full_" + why] += 1
            else:
                raise Failure("put_rc", "unexpected return code %d" % rc)
        elif kind == "get":
            key = norm_key(self.ty, w[1])
            rc, val = int(fields["rc"]), int(fields["val"])
            if key in self.ref:
                if rc != 0 or val != self.ref[key]:
                    raise Failure("get_latest", "get %s -> rc=%d val=%d, most recently stored %d" % (key, rc, val, self.ref[key]))
                self.stats["get_hit"] += 1
            else:
                if rc != -1:
                    raise Failure("get_absent", "get of absent key %s -> rc=%d val=%d" % (key, rc, val))
                self.stats["get_miss"] += 1
            if st != pre and not oo:
                raise Failure("get_pure", "get changed the table")
        elif kind == "remove":
            key = norm_key(self.ty, w[1])
            rc, val = int(fields["rc"]), int(fields["val"])
            if key in self.ref:
                if rc != 0 or val != self.ref[key]:
                    raise Failure("remove_value", "remove %s -> rc=%d val=%d, stored %d" % (key, rc, val, self.ref[key]))
                del self.ref[key]
                self.stats["remove_hit"] += 1
            else:
                if rc != -1:
                    raise Failure("remove_absent", "remove of absent key %s -> rc=%d" % (key, rc))
                self.stats["remove_miss"] += 1
        elif kind == "sweep":
            got = sorted(int(x) for x in ow[1:])
            if got != sorted(self.ref.values()):
                raise Failure("sweep_values", "sweep handed out %r, table held %r" % (got, sorted(self.ref.values())))
            self.ref = {}
            self.stats["sweep"] += 1
        elif kind == "hash":
            if not 0 <= int(ow[1]) < self.N:
                raise Failure("hash", "hash %s = %s is outside the table" % (w[1], ow[1]))
            if int(ow[1]) != pyhash(self.ty, self.order, norm_key(self.ty, w[1])):
                self.stats["hash_differs_from_python_copy"] = self.stats.get("hash_differs_from_python_copy", 0) + 1
            if st != pre and not oo:
                raise Failure("get_pure", "hash changed the table")
        elif kind == "dump":
            if st != pre and not oo:
                raise Failure("get_pure", "dump changed the table")
        else:
            raise Failure("protocol", "unknown op " + kind)
        if oo:
            self.state = st
            return
        # the live content of the image IS the reference map: nothing else was disturbed
        self._wrapped = False
        cont = self.content(st, live)
        if self._wrapped:
            self.stats["wrapped"] += 1
        if cont != self.ref:
            diff = {k: (cont.get(k), self.ref.get(k)) for k in set(cont) | set(self.ref) if cont.get(k) != self.ref.get(k)}
            raise Failure("content", "after %r the table's content differs from the reference map at %r (table, reference)" % (op, diff))
        self.state = st
        self.ghosts = [p for p, (hop, key, val) in st.items() if key is not None and p not in live]
        self.stats["ghost_slots"] = max(self.stats["ghost_slots"], len(self.ghosts))


def split_blocks(ops):
    """split a script (list of op lines) into blocks that start with `new`"""
    blocks, cur = [], None
    for ln in ops:
        ln = ln.strip()
        if not ln or ln.startswith("#"):
            continue
        if ln.startswith("new "):
            cur = [ln]
            blocks.append(cur)
        elif cur is not None:
            cur.append(ln)
    return blocks


def script_keys(ops):
    """(type, order, key) of every key mentioned in a script"""
    out, ty, order = set(), None, 0
    for ln in ops:
        w = ln.split()
        if not w:
            continue
        if w[0] == "new" and len(w) >= 3:
            ty, order = w[1], int(w[2])
        elif ty in TYPES and w[0] in ("put", "get", "remove", "hash") and len(w) > 1:
            try:
                out.add((ty, order, norm_key(ty, w[1])))
            except ValueError:
                pass
    return out


def monitor_script(ops, impl_lines, hasher, outputs_only=False):
    """Evaluate the property on the implementation's output of a whole script.
    Returns (failure or None, stats, number of evaluations)."""
    stats, evals = {}, 0
    i = 0
    ops = [ln.strip() for ln in ops if ln.strip() and not ln.strip().startswith("#")]
    mon = None
    for n, op in enumerate(ops):
        if n >= len(impl_lines):
            return {"clause": "crash", "detail": "implementation produced %d lines for %d operations" % (len(impl_lines), len(ops)),
                    "step": n, "op": op}, stats, evals
        try:
            if op.startswith("new "):
                if mon:
                    for k, v in mon.stats.items():
                        stats[k] = stats.get(k, 0) + v
                mon = Monitor(op, impl_lines[n], hasher, outputs_only)
            elif mon is None:
                continue
            else:
                mon.step(op, impl_lines[n])
            evals += 1
        except Failure as f:
            return {"clause": f.clause, "detail": f.detail, "step": n, "op": op}, stats, evals
        except (ValueError, KeyError, IndexError) as ex:
            return {"clause": "protocol", "detail": "unparsable observation %r (%r)" % (impl_lines[n][:120], ex), "step": n,
                    "op": op}, stats, evals
    if mon:
        for k, v in mon.stats.items():
            stats[k] = stats.get(k, 0) + v
        stats["_ghosts_at_end"] = list(mon.ghosts)
    return None, stats, evals


def first_diff(a, b):
    for i in range(max(len(a), len(b))):
        if i >= len(a) or i >= len(b) or a[i] != b[i]:
            return i
    return None


# --------------------------------------------------------------------------- one job = one script on both sides

def check_script(args):
    """Runs a script on implementation and model, compares, monitors.  Returns a result dict (picklable)."""
    binp, ops, tag = args[:3]
    if isinstance(ops, tuple) and ops[0] == "rand":
        # generate in the worker: ("rand", type, order, index, thorough)
        ops = random_script(ops[1], ops[2], ops[3], ops[4], ImplHash(binp))
    script = "\n".join(ops) + "\n"
    rc, impl, err = run_impl(binp, script)
    model = run_model(script)
    hasher = ImplHash(binp)
    if rc == 0:
        hasher.ensure(script_keys(ops))
    fail, stats, evals = monitor_script(ops, impl, hasher)
    res = {"tag": tag, "lines": len(impl), "stats": stats, "evals": evals, "diff": None, "monitor": fail, "crash": None}
    if len(args) > 3 and args[3]:
        res["impl"] = impl
    if rc != 0 or "ERROR: AddressSanitizer" in err or "runtime error" in err:
        res["crash"] = {"rc": rc, "stderr": err[-3000:]}
    d = first_diff(impl, model)
    if d is not None:
        res["diff"] = {"step": d, "impl": impl[d] if d < len(impl) else None, "model": model[d] if d < len(model) else None}
    if res["diff"] or res["monitor"] or res["crash"] or (len(args) > 4 and args[4]):
        res["ops"] = ops
    return res


def merge_stats(total, st):
    for k, v in st.items():
        if k.startswith("_"):
            continue
        total[k] = max(total.get(k, 0), v) if k == "ghost_slots" else total.get(k, 0) + v


# --------------------------------------------------------------------------- shrinking and deciding

def _still_bad(binp, ops, need="any"):
    """the reduced script still shows (need='any') a disagreement / monitor failure / crash, or (need='property')
    a monitor failure / crash on the implementation; returns the result or None"""
    if not ops or not ops[0].startswith("new "):
        return None
    r = check_script((binp, ops, "shrink"))
    if need == "property":
        return r if (r["monitor"] or r["crash"]) else None
    return r if (r["diff"] or r["monitor"] or r["crash"]) else None


def shrink(binp, ops, budget_s=20, need="any"):
    def still_bad(b, o):
        return _still_bad(b, o, need)
    t0 = time.time()
    blocks = split_blocks(ops)
    # keep only the block that fails
    best = None
    for b in blocks:
        r = still_bad(binp, b)
        if r:
            best = (b, r)
            break
    if best is None:
        r = still_bad(binp, ops)
        return ops, r
    cur, res = best
    # cut after the failing step
    step = (res["monitor"] or res["diff"] or {"step": len(cur) - 1})["step"]
    cand = cur[:step + 1]
    r = still_bad(binp, cand)
    if r:
        cur, res = cand, r
    chunk = max(1, (len(cur) - 1) // 2)
    while chunk >= 1 and time.time() - t0 < budget_s:
        i = 1
        changed = False
        while i < len(cur) and time.time() - t0 < budget_s:
            cand = cur[:i] + cur[i + chunk:]
            r = still_bad(binp, cand) if len(cand) > 1 else None
            if r:
                cur, res, changed = cand, r, True
            else:
                i += chunk
        if chunk == 1 and not changed:
            break
        chunk = max(1, chunk // 2) if chunk > 1 else (1 if changed else 0)
    return cur, res


def ghost_extension(binp, ops, impl_lines):
    """Given a script after which the implementation's table has a ghost slot (a key that no bitmap refers to),
    build a continuation in which the ghost makes the table refuse an insertion although the slot holds no entry:
    occupy every other free slot of the ghost's window with keys homed exactly there, then insert a key homed
    at the ghost slot.  Returns the extended script (or None)."""
    blocks = split_blocks(ops)
    if not blocks:
        return None
    last = blocks[-1]
    offset = len([1 for b in blocks[:-1] for _ in b])
    hasher = ImplHash(binp)
    hasher.ensure(script_keys(last))
    try:
        mon = Monitor(last[0], impl_lines[offset], hasher)
        for j, op in enumerate(last[1:], 1):
            mon.step(op, impl_lines[offset + j])
    except (Failure, IndexError, ValueError, KeyError):
        return None
    if not mon.ghosts:
        return None
    g = mon.ghosts[0]
    rng = C.rng("c17-ghost", g, mon.ty, mon.order)
    used = set(mon.ref) | {v[1] for v in mon.state.values() if v[1]}
    ext = []
    free = [(g + d) % mon.N for d in range(1, mon.A) if mon.state.get((g + d) % mon.N, (0, None, 0))[1] is None]
    want = keys_for_buckets(mon.ty, mon.order, sorted(set(free + [g])), 3, rng, highbytes=False, hasher=hasher)
    for p in free:
        k = next((x for x in want[p] if x not in used), None)
        if k is None:
            return None
        used.add(k)
        ext.append("put %s 7" % k)
    k = next((x for x in want[g] if x not in used), None)
    if k is None:
        return None
    ext.append("put %s 9" % k)
    ext.append("get %s" % k)
    return [op for b in blocks[:-1] for op in b] + last + ext


def decide(binp, ctx, out, res, family, totals):
    """A script on which model and implementation differ, the monitor failed, or a sanitizer fired:
    shrink, then decide whether the PROPERTY fails on the implementation."""
    ops = res["ops"]
    small, sres = shrink(binp, ops, need="property" if (res.get("monitor") or res.get("crash")) else "any")
    sres = sres or res
    script = "\n".join(small) + "\n"
    rc, impl, err = run_impl(binp, script)
    model = run_model(script)
    legacy = run_model(script, legacy=True)
    replay = {"property": "C17", "family": family, "seed": ctx.seed, "variant": "default", "script": small,
              "impl_trace": impl, "model_trace": model, "original_length": len(ops)}
    if first_diff(impl, legacy) is None and first_diff(impl, model) is not None:
        replay["note"] = "the implementation behaves exactly like the model of the code BEFORE fix F25 (find_closer_entry " \
                         "leaves the vacated slot's key): recurrence of finding F25"
    if sres.get("crash"):
        replay["failing_clause"] = "crash"
        replay["sanitizer"] = sres["crash"]
        out.violation("sanitizer report / abnormal exit of the real hashtable code", replay)
        return
    if sres.get("monitor"):
        replay["failing_clause"] = sres["monitor"]
        if sres["monitor"]["clause"] in ("image", "unique", "content"):
            # the slot image is not a consistent encoding of the reference map: look for the failure at the level of
            # the operations' results too (probe every key of the script), and report that history if there is one
            probe = output_level_probe(binp, small)
            if probe:
                replay["image_failure"] = sres["monitor"]
                replay["script"], replay["impl_trace"], replay["failing_clause"] = probe
                replay["model_trace"] = run_model("\n".join(probe[0]) + "\n")
                replay["found_by"] = "results of probing operations appended to the history whose slot image is inconsistent"
        out.violation("property C17 fails on the implementation: %s — %s" % (
            replay["failing_clause"]["clause"] if isinstance(replay["failing_clause"], dict) else "crash",
            replay["failing_clause"]["detail"] if isinstance(replay["failing_clause"], dict) else "sanitizer report"), replay)
        return
    # model and code differ, the monitor is satisfied on this script: search the neighbourhood
    tried = 0
    ext = ghost_extension(binp, small, impl)
    cands = [ext] if ext else []
    blocks = split_blocks(small)
    if blocks:
        mon_ty, mon_order = blocks[-1][0].split()[1], int(blocks[-1][0].split()[2])
        for i in range(40 if ctx.thorough else 12):
            rng = C.rng("c17-neigh", i, family)
            keys = sorted({w.split()[1] for w in blocks[-1][1:] if len(w.split()) > 1})
            nh = ImplHash(binp)
            home = {nh.bucket(mon_ty, mon_order, k) for k in keys if not k.startswith("-") or k == "-"} or {0}
            home.discard(-1)
            more = keys_for_buckets(mon_ty, mon_order, sorted(home) or [0], 4, rng, highbytes=False, hasher=nh)
            pool = keys + [k for v in more.values() for k in v]
            cands.append(small + random_ops(rng, pool, 60, put_bias=0.6))
    for cand in cands:
        tried += 1
        r = check_script((binp, cand, "neigh"))
        merge_stats(totals, r["stats"])
        if r["monitor"] or r["crash"]:
            cs, cr = shrink(binp, cand, budget_s=25, need="property")
            cr = cr or r
            rc2, impl2, err2 = run_impl(binp, "\n".join(cs) + "\n")
            replay2 = dict(replay, script=cs, impl_trace=impl2, model_trace=run_model("\n".join(cs) + "\n"),
                           failing_clause=cr.get("monitor") or cr.get("crash"), found_by="continuation of the first disagreement",
                           first_disagreement=small)
            out.violation("property C17 fails on the implementation: %s" % (
                (cr.get("monitor") or {}).get("detail") or "sanitizer report"), replay2)
            return
    replay["broken"] = "correspondence model<->code (Cjet.Hoptable vs src/hashtable.h): first differing step %r" % (sres.get("diff"),)
    replay["theorems_about_the_model"] = "Props/C17.lean (all) no longer describe this code"
    replay["neighbourhood_scripts_tried"] = tried
    out.violation("model and implementation differ; no input violating the property found", replay, no_input=True)


def output_level_probe(binp, ops):
    """append get / put / get / remove / get of every key of the last block and evaluate only the clauses that
    speak about operation results (no use of the slot image); returns (script, impl trace, failing clause) or None"""
    blocks = split_blocks(ops)
    if not blocks:
        return None
    last = blocks[-1]
    keys = sorted({w.split()[1] for w in last[1:] if len(w.split()) > 1 and w.split()[0] in ("put", "get", "remove")})
    ext = list(last)
    for k in keys:
        ext += ["get " + k]
    for k in keys:
        ext += ["put %s 4242" % k, "get " + k, "remove " + k, "get " + k]
    rc, impl, err = run_impl(binp, "\n".join(ext) + "\n")
    hasher = ImplHash(binp)
    fail, _, _ = monitor_script(ext, impl, hasher, outputs_only=True)
    if rc != 0 or "ERROR: AddressSanitizer" in err or "runtime error" in err:
        fail = fail or {"clause": "crash", "detail": err[-1500:], "step": len(impl), "op": ext[len(impl)] if len(impl) < len(ext) else ""}
    if not fail:
        return None
    cut = ext[:fail["step"] + 1]
    return cut, impl[:fail["step"] + 1], fail


# --------------------------------------------------------------------------- generators

def random_ops(rng, pool, n, put_bias=0.55, sweep_p=0.004):
    ops = []
    for _ in range(n):
        x = rng.random()
        k = rng.choice(pool)
        if x < put_bias:
            ops.append("put %s %d" % (k, rng.randint(1, 999)))
        elif x < put_bias + 0.15:
            ops.append("get " + k)
        elif x < 1 - sweep_p - 0.01:
            ops.append("remove " + k)
        elif x < 1 - sweep_p:
            ops.append("dump")
        else:
            ops.append("sweep")
    return ops


def random_script(ty, order, idx, thorough, hasher=None):
    """one seeded random history for (type, order): a cluster of colliding keys placed so that probing wraps
    around the table end; fill / drain phases; at orders >= 7 dense enough for displacement and stuck refusals."""
    rng = C.rng("c17-rand", ty, order, idx)
    N, A = 1 << order, 1 << (order - 1)
    base = (N - rng.randint(1, min(N - 1, 24))) % N        # cluster starts shortly before the table end
    span = min(N, rng.choice([2, 3, A, A + 2, 40, 70, 100]))
    buckets = sorted({(base + i) % N for i in range(span)})
    if order <= 6:
        per = rng.choice([2, 3, A + 1])
    else:
        per = rng.choice([1, 2, 3])
    want = keys_for_buckets(ty, order, buckets, per, rng, hasher=hasher)
    pool = [k for v in want.values() for k in v]
    if order >= 6:
        # one overfull bucket: more keys than hop bits
        hot = keys_for_buckets(ty, order, [base], 36, rng, highbytes=False, hasher=hasher)[base]
        pool += hot
    if ty != "string" and rng.random() < 0.3:
        pool.append(str(M32 if ty == "uint32" else M64))
    ops = ["new %s %d" % (ty, order)]
    for k in rng.sample(pool, min(len(pool), 12)):
        ops.append("hash " + k)
    n = rng.choice([200, 400, 800]) if thorough else rng.choice([120, 250, 400])
    phases = rng.randint(2, 5)
    for ph in range(phases):
        fill = ph % 2 == 0
        ops += random_ops(rng, pool, n // phases, put_bias=0.8 if fill else 0.25)
    ops.append("sweep")
    ops += random_ops(rng, pool, 10, put_bias=0.7)
    return ops


def exhaustive_alphabet(ty, order, hasher=None):
    """a small colliding universe: three keys of one bucket at the table end (probing wraps), one or two of
    the next bucket; values 1/2 so that 'most recently stored' is observable."""
    rng = C.rng("c17-exh-keys", ty, order)
    N = 1 << order
    b0 = N - 1
    per0 = 3
    want = keys_for_buckets(ty, order, [b0, 0], per0, rng, highbytes=(ty == "string"), hasher=hasher)
    keys = want[b0][:3] + want[0][:2]
    if order == 2:
        keys = want[b0][:3] + want[0][:1]
    sigma = []
    for k in keys:
        sigma += ["put %s 1" % k, "put %s 2" % k, "get %s" % k, "remove %s" % k]
    sigma.append("sweep")
    return keys, sigma


def exhaustive(binp, ty, order, depth, pool):
    """Breadth-first over all operation sequences of length <= depth over the alphabet, modulo equality of the
    complete slot image.  Every (state, op) transition is executed on implementation and model (as
    representative-sequence + op) and compared; the monitor runs on the implementation's output."""
    keys, sigma = exhaustive_alphabet(ty, order, ImplHash(binp))
    new = "new %s %d" % (ty, order)
    frontier = {"": []}       # state image -> representative op sequence
    seen = {""}
    transitions = 0
    sequences_covered = 0
    total_stats = {}
    evals = 0
    for level in range(1, depth + 1):
        reps = list(frontier.values())
        sequences_covered += len(sigma) ** level
        # pack: one script per chunk of (rep, op) pairs
        jobs = []
        pairs = [(rep, op) for rep in reps for op in sigma]
        chunk = max(1, min(400, (len(pairs) + 63) // 64))
        for i in range(0, len(pairs), chunk):
            ops = []
            for rep, op in pairs[i:i + chunk]:
                ops += [new] + rep + [op]
            jobs.append((binp, ops, "exh-%s-%d-L%d" % (ty, order, level)))
        nxt = {}
        for r, job in zip(pool.map(exh_job, jobs), jobs):
            if r["bad"]:
                return {"bad": r["bad"], "transitions": transitions, "states": len(seen), "levels": level}
            merge_stats(total_stats, r["stats"])
            evals += r["evals"]
            transitions += r["n"]
            for img, seq in r["ends"]:
                if img not in seen:
                    seen.add(img)
                    nxt[img] = seq
        frontier = nxt
        if not frontier:
            # closed under the alphabet: every longer sequence stays inside the explored state set
            return {"bad": None, "transitions": transitions, "states": len(seen), "levels": level, "closed": True,
                    "alphabet": len(sigma), "keys": keys, "stats": total_stats, "evals": evals,
                    "sequences_covered": sequences_covered}
    return {"bad": None, "transitions": transitions, "states": len(seen), "levels": depth, "closed": False,
            "alphabet": len(sigma), "keys": keys, "stats": total_stats, "evals": evals, "sequences_covered": sequences_covered}


def exh_job(args):
    binp, ops, tag = args
    r = check_script((binp, ops, tag, True))
    impl = r.pop("impl")
    if r["diff"] or r["monitor"] or r["crash"]:
        # isolate the failing block so that the report is small
        blocks = split_blocks(ops)
        pos = (r["monitor"] or r["diff"] or {"step": 0})["step"]
        acc = 0
        for b in blocks:
            if acc + len(b) > pos:
                rb = check_script((binp, b, tag))
                if rb["diff"] or rb["monitor"] or rb["crash"]:
                    return {"bad": rb, "n": 0, "ends": [], "stats": {}, "evals": 0}
                break
            acc += len(b)
        return {"bad": r, "n": 0, "ends": [], "stats": {}, "evals": 0}
    # the end state (complete slot image) of every block
    ends = []
    blocks = split_blocks(ops)
    acc = 0
    for b in blocks:
        last = impl[acc + len(b) - 1]
        ends.append((last.partition("|")[2].strip(), b[1:]))
        acc += len(b)
    return {"bad": None, "n": len(blocks), "ends": ends, "stats": r["stats"], "evals": r["evals"]}


# --------------------------------------------------------------------------- hash correspondence

def hash_scripts(thorough):
    jobs = []
    for ty in TYPES:
        for order in range(2, 14):
            rng = C.rng("c17-hash", ty, order)
            ops = ["new %s %d" % (ty, order)]
            n = 400 if thorough else 60
            for i in range(n):
                if ty == "string":
                    ln = rng.randint(0, 12)
                    bs = bytes(rng.randint(1, 255) for _ in range(ln))
                    ops.append("hash " + C.hexs(bs))
                else:
                    bits = 32 if ty == "uint32" else 64
                    v = rng.choice([rng.getrandbits(bits), rng.randint(0, 300), (1 << bits) - 1 - rng.randint(0, 3),
                                    1 << rng.randint(0, bits - 1)])
                    ops.append("hash %d" % v)
            jobs.append(ops)
    return jobs


# --------------------------------------------------------------------------- entry point

def run(ctx, out):
    t0 = time.time()
    binp = harness_bin()
    totals = {}
    cov = out.coverage
    cov.update({"traces_validated_against_impl": 0, "evaluations": 0, "scripts": {}, "samples": []})
    out.assumptions += [
        "char is signed on the platform of the harness (x86-64): bytes >= 0x80 of string keys are sign-extended by `uint32_t c = *key`",
        "keys equal to the INVALIDENTRY pattern are modelled for put (HASHTABLE_KEYINVAL) only; get/remove of that pattern are "
        "not-found in every well-formed table",
        "the model uses `% N`; `wrap_eq_mod` / `subWrap_eq_uint32` show this is the C uint32 arithmetic for order <= 32",
    ]
    bad = []

    if getattr(ctx, "replay", None):
        # ./check C17 --replay <file>: run exactly that history again and say what it shows now
        import json
        rp = json.load(open(ctx.replay))
        res = check_script((binp, rp["script"], "replay", False, True))
        cov["traces_validated_against_impl"] = 1
        cov["evaluations"] = res["evals"]
        cov["replayed"] = ctx.replay
        if res["diff"] or res["monitor"] or res["crash"]:
            decide(binp, ctx, out, res, "replay", totals)
        else:
            out.notes.append("the replayed history no longer shows a disagreement or a property failure")
        return

    def account(res, family):
        cov["traces_validated_against_impl"] += 1
        cov["evaluations"] += res["evals"]
        cov["scripts"][family] = cov["scripts"].get(family, 0) + 1
        merge_stats(totals, res["stats"])
        if res["diff"] or res["monitor"] or res["crash"]:
            bad.append((family, res))

    with cf.ProcessPoolExecutor(max_workers=min(16, C.NPROC)) as pool:
        # 1. corpus (always first); fixed findings replay as ordinary regressions, open ones as KNOWN-FINDING
        corpus = sorted(glob.glob(os.path.join(C.ROOT, "scenarios", "C17-*.txt")))
        open_replays = {os.path.join(C.ROOT, e["replay"]): e for e in C.open_findings("C17") if e.get("replay")}
        jobs = []
        for p in corpus:
            ops = [ln.strip() for ln in open(p) if ln.strip() and not ln.startswith("#")]
            jobs.append((binp, ops, os.path.basename(p)))
        for (b, ops, tag), res in zip(jobs, pool.map(check_script, jobs)):
            p = os.path.join(C.ROOT, "scenarios", tag)
            if p in open_replays and (res["monitor"] or res["diff"]):
                out.known_finding("%s %s" % (open_replays[p]["id"], open_replays[p].get("what", "")[:100]))
                cov["traces_validated_against_impl"] += 1
                continue
            account(res, "corpus")
        if len(cov["samples"]) < 3 and jobs:
            cov["samples"].append({"family": "corpus", "script": jobs[0][1][:12]})

        # 2. hash functions, three-way
        hj = [(binp, ops, "hash") for ops in hash_scripts(ctx.thorough)]
        for res in pool.map(check_script, hj):
            account(res, "hash")
        cov["hash_keys_compared_three_way"] = sum(len(j[1]) - 1 for j in hj)

        # 3. exhaustive, orders 2..4
        depth = 7 if ctx.thorough else 5
        exh = {}
        if not bad:
            combos = [(ty, order) for order in (2, 3, 4) for ty in TYPES]
            with cf.ThreadPoolExecutor(max_workers=len(combos)) as tp:
                futs = {c: tp.submit(exhaustive, binp, c[0], c[1], depth, pool) for c in combos}
                for (ty, order), f in futs.items():
                    r = f.result()
                    if r["bad"]:
                        bad.append(("exhaustive", r["bad"]))
                        continue
                    exh["%s/%d" % (ty, order)] = {k: r[k] for k in ("transitions", "states", "levels", "closed", "alphabet", "keys",
                                                                    "sequences_covered")}
                    cov["traces_validated_against_impl"] += r["transitions"]
                    cov["evaluations"] += r["evals"]
                    merge_stats(totals, r["stats"])
        cov["exhaustive_detail"] = exh
        cov["exhaustive"] = bool(exh) and not bad
        cov["exhaustive_rule"] = "orders 2-4: every operation sequence of length <= %d over the listed alphabet (put k 1, put k 2, get k, " \
                                 "remove k per key, sweep), explored breadth-first modulo equality of the complete slot image; every " \
                                 "(reachable state, operation) transition executed on code and model and compared in full; " \
                                 "'closed' = the state set stopped growing, i.e. sequences of ANY length are covered" % depth

        # 4. seeded random long histories, orders 2..13 x three key types
        per = 16 if ctx.thorough else 2
        if getattr(ctx, "proof_broken", None) or bad:
            per *= 3
        rj = []
        for order in range(2, 14):
            for ty in TYPES:
                for i in range(per):
                    rj.append((binp, ("rand", ty, order, i, ctx.thorough), "rand-%s-%d-%d" % (ty, order, i), False,
                               len(rj) == 7))
        for job, res in zip(rj, pool.map(check_script, rj)):
            account(res, "random")
            if job[4] and not (res["diff"] or res["monitor"] or res["crash"]):
                cov["samples"].append({"family": "random", "tag": job[2], "script": res.get("ops", [])[:25]})

    # decisions (smallest failing scripts first: their replays are the most readable)
    reported = set()
    bad.sort(key=lambda fr: len(fr[1].get("ops", ())))
    for family, res in bad[:6]:
        key = (family, (res.get("monitor") or {}).get("clause"), bool(res.get("diff")))
        if key in reported or len(out.violations) >= 2:
            continue
        reported.add(key)
        decide(binp, ctx, out, res, family, totals)

    cov["op_histogram"] = {k: v for k, v in sorted(totals.items())}
    cov["distinct_nontrivial"] = sum(e["states"] for e in exh.values()) + cov["scripts"].get("random", 0) + cov["scripts"].get("corpus", 0)
    cov["rule"] = "distinct slot images reached in the exhaustive part + number of random and corpus histories"
    cov["orders"] = "2..13"
    cov["key_types"] = list(TYPES)
    cov["tie_wall_s"] = round(time.time() - t0, 1)
    if totals.get("ghost_slots"):
        out.notes.append("ghost slots observed in the implementation's image (max %d at once)" % totals["ghost_slots"])
