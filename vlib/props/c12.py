"""C12 — WebSocket endpoint follows RFC 6455 (frames, dispatch, close handshake, unmask, server frames,
handshake decision, base64, SHA-1).

Tie: harness/comp/ws.c (the real websocket.c, websocket_peer.c, http_connection.c, http_parser, base64.c,
sha1.c, utf8_checker.c, compression.c+zlib, buffered_socket.c) against the Lean driver drv_ws on the same
scripts, observation line by observation line; and a Python RFC 6455 reference (`Ref`) that evaluates the
PROPERTY on the implementation's own output (expected close code per rule, pong echo, server frames
unmasked / FIN / minimal, 101 + accept digest by hashlib)."""
import base64
import concurrent.futures
import glob
import hashlib
import os
import re
import time

from vlib import common as C

LEVEL = "proof"

GUID = b"258EAFA5-E914-47DA-95CA-C5AB0DC85B11"
REPO_FILES = ["websocket_peer.c", "http_connection.c", "http_server.c", "base64.c", "sha1/sha1.c",
              "utf8_checker.c", "compression.c", "http-parser/http_parser.c", "buffered_socket.c", "alloc.c",
              "jet_string.c", "linux/jet_string.c", "posix/jet_string.c", "linux/jet_endian.c"]
ENV = {"ASAN_OPTIONS": "detect_leaks=0:abort_on_error=0", "UBSAN_OPTIONS": "print_stacktrace=1"}


# --------------------------------------------------------------------------------------------- build

def build(bufsize=None):
    """The harness against /repo's tree.  bufsize: build variant with CONFIG_MAX_MESSAGE_SIZE replaced
    (the real reader's buffer), None = the repository default."""
    inc = C.gen_config("default")
    flags = ["-I" + os.path.join(C.SRC, "zlib")]
    if bufsize is not None:
        # own copy of the generated headers with the buffer size replaced; -iquote precedes every -I
        d = os.path.join(C.WORK, "gen", "c12inc-%d" % bufsize)
        g = os.path.join(d, "generated")
        os.makedirs(g, exist_ok=True)
        hs = glob.glob(os.path.join(inc, "generated", "*.h"))
        if not hs:
            raise C.BuildError("no generated config headers under " + inc)
        for h in hs:
            txt = open(h).read()
            if os.path.basename(h) == "cjet_config.h":
                txt, n = re.subn(r"CONFIG_MAX_MESSAGE_SIZE\s*=\s*\d+", "CONFIG_MAX_MESSAGE_SIZE = %d" % bufsize, txt)
                if n != 1:
                    raise C.BuildError("cjet_config.h no longer defines CONFIG_MAX_MESSAGE_SIZE as an enum constant")
            p = os.path.join(g, os.path.basename(h))
            if not os.path.exists(p) or open(p).read() != txt:
                with open(p, "w") as f:
                    f.write(txt)
        flags = ["-iquote", d] + flags
    src = [C.ROOT + "/harness/comp/ws.c"] + [os.path.join(C.SRC, f) for f in REPO_FILES] + \
        sorted(glob.glob(os.path.join(C.SRC, "zlib", "*.c")))
    return C.cc_build("ws" if bufsize is None else "ws_%d" % bufsize, src, extra_flags=flags)


# --------------------------------------------------------------------------------------------- RFC 6455 reference

def mask_bytes(key, data):
    return bytes(b ^ key[i % 4] for i, b in enumerate(data))


def enc_frame(op, payload=b"", fin=1, rsv=0, key=b"\x11\x22\x33\x44", form=None, declared=None, body=True):
    """RFC 6455 §5.2 encoder (reference, independent of the model).  form: None=minimal, 7, 16, 64.
    declared: length written in the header (default: len(payload)); body=False: header (+key) only."""
    n = len(payload) if declared is None else declared
    if form is None:
        form = 7 if n <= 125 else (16 if n <= 65535 else 64)
    mb = 0x80 if key is not None else 0
    h = bytes([(fin << 7) | (rsv << 4) | op])
    if form == 7:
        h += bytes([mb | n])
    elif form == 16:
        h += bytes([mb | 126]) + n.to_bytes(2, "big")
    else:
        h += bytes([mb | 127]) + n.to_bytes(8, "big")
    if key is not None:
        h += key
    if not body:
        return h
    return h + (mask_bytes(key, payload) if key is not None else payload)


def utf8_ok(b):
    try:
        b.decode("utf-8")
        return True
    except UnicodeDecodeError:
        return False


def status_valid(code):
    return 1000 <= code <= 1003 or 1007 <= code <= 1011 or 3000 <= code <= 4999


ANY_CLOSE = "any"


class Ref:
    """What RFC 6455 and the property text require of a server endpoint with the daemon's callback
    set (text handler only) or the full set.  feed(bytes) -> list of expected projected events:
    ("TM"|"BM"|"PO"|"PI", payload), ("TF"|"BF", payload, last), ("W", opcode, payload) a server frame,
    ("WC", set-of-codes | ANY_CLOSE) a close frame, ("CL",) the connection is released."""

    def __init__(self, cbset, bufsize):
        self.cbset = cbset
        self.bufsize = bufsize
        self.buf = b""
        self.open = True
        self.in_frag = False
        self.frag_op = 0
        self.rules = []

    def refuse(self, out, codes, rule):
        out += [("WC", codes), ("CL",)]
        self.open = False
        self.rules.append(rule)

    def feed(self, data, cb="ok"):
        out = []
        self.buf += data
        while self.open and self._frame(out, cb):
            pass
        return out

    def eof(self):
        out = []
        if self.open:
            self.refuse(out, ANY_CLOSE, "eof")
        return out

    def _frame(self, out, cb):
        b = self.buf
        if len(b) < 2:
            return False
        fin, rsv, op = b[0] >> 7, (b[0] >> 4) & 7, b[0] & 15
        masked, l7 = b[1] >> 7, b[1] & 127
        pos = 2
        if l7 == 126:
            if len(b) < 4:
                return False
            n = int.from_bytes(b[2:4], "big")
            pos = 4
        elif l7 == 127:
            if len(b) < 10:
                return False
            n = int.from_bytes(b[2:10], "big")
            pos = 10
        else:
            n = l7
        # everything the header decides: fail the connection with 1002 (RFC 6455 5.1, 5.2, 5.4, 5.5)
        viol = []
        if not masked:
            viol.append("unmasked")
        if rsv:
            viol.append("rsv")
        if op in (3, 4, 5, 6, 7, 11, 12, 13, 14, 15):
            viol.append("reserved-opcode")
        if op >= 8 and not fin:
            viol.append("fragmented-control")
        if op >= 8 and n > 125:
            viol.append("control-too-long")
        if viol:
            self.refuse(out, {1002}, "+".join(viol))
            return False
        if len(b) < pos + 4:
            return False
        key = b[pos:pos + 4]
        pos += 4
        if n > self.bufsize:
            # a data frame the endpoint cannot hold: the connection must end with a close frame
            self.refuse(out, ANY_CLOSE, "data-too-large")
            return False
        if len(b) < pos + n:
            return False
        payload = mask_bytes(key, b[pos:pos + n])
        self.buf = b[pos + n:]
        if op == 9:
            out.append(("W", 10, payload))
            if self.cbset == "full":
                out.append(("PI", payload))
            self.rules.append("ping")
        elif op == 10:
            out.append(("PO", payload))
            self.rules.append("pong")
        elif op == 8:
            codes = set()
            if n == 1:
                codes.add(1002)
            if n >= 2 and not status_valid(int.from_bytes(payload[:2], "big")):
                codes.add(1002)
            if n > 2 and not utf8_ok(payload[2:]):
                codes.add(1007)
            if codes:
                self.refuse(out, codes, "close-bad-%s" % "-".join(str(c) for c in sorted(codes)))
            else:
                self.refuse(out, ANY_CLOSE, "close-ok")
            return False
        elif fin and op in (1, 2):
            if self.in_frag:
                self.refuse(out, {1002}, "data-inside-fragmented")
                return False
            if op == 1:
                out.append(("TM", payload))
                if cb == "err":
                    self.refuse(out, {1011}, "text-rejected")
                    return False
                if cb == "closed":
                    self.refuse(out, {1007}, "text-callback-closed")
                    return False
                self.rules.append("text")
            elif self.cbset == "full":
                out.append(("BM", payload))
                self.rules.append("binary")
            else:
                self.refuse(out, {1003}, "binary-unsupported")
                return False
        else:
            # a fragment: FIN=0 data frame or a continuation
            if op != 0 and self.in_frag:
                self.refuse(out, {1002}, "data-inside-fragmented")
                return False
            if op == 0 and not self.in_frag:
                self.refuse(out, {1002}, "continuation-without-start")
                return False
            if self.cbset != "full":
                self.refuse(out, {1002, 1003}, "fragment-refused")
                return False
            if op != 0:
                self.in_frag = True
                self.frag_op = op
            out.append(("TF" if self.frag_op == 1 else "BF", payload, bool(fin)))
            if fin:
                self.in_frag = False
            self.rules.append("fragment")
        return True


def parse_server_frame(b):
    """Decode bytes written by the server as ONE frame; returns (opcode, payload) or a string naming
    what is wrong with it (the `server frames are unmasked, complete, minimally encoded` clause)."""
    if len(b) < 2:
        return "short frame"
    if not b[0] & 0x80:
        return "FIN clear"
    if b[0] & 0x70:
        return "RSV set"
    if b[1] & 0x80:
        return "MASK set"
    l7 = b[1] & 127
    pos = 2
    if l7 == 126:
        n = int.from_bytes(b[2:4], "big")
        pos = 4
        if n <= 125:
            return "16 bit length for %d" % n
    elif l7 == 127:
        n = int.from_bytes(b[2:10], "big")
        pos = 10
        if n <= 65535:
            return "64 bit length for %d" % n
    else:
        n = l7
    if len(b) != pos + n:
        return "length %d but %d payload bytes" % (n, len(b) - pos)
    return (b[0] & 15, b[pos:])


def project(tokens):
    """Harness/model tokens -> the property's projection (deliveries, frames written, release)."""
    out = []
    bad = []
    for t in tokens:
        if t in ("ER", "FP", "-", "dead") or t.startswith(("CR:", "cb:", "r:")):
            continue
        if t == "CL":
            out.append(("CL",))
        elif t.startswith(("W:", "WF:")):
            f = parse_server_frame(C.unhex(t.split(":", 1)[1]))
            if isinstance(f, str):
                bad.append("server frame malformed: " + f)
                out.append(("W?", t))
            elif f[0] == 8:
                out.append(("WC", int.from_bytes(f[1][:2], "big") if len(f[1]) == 2 else -1))
            else:
                out.append(("W", f[0], f[1]))
        elif t.startswith(("TM:", "BM:", "PO:", "PI:")):
            out.append((t[:2], C.unhex(t[3:])))
        elif t.startswith(("TF:", "BF:")):
            _, h, last = t.split(":")
            out.append((t[:2], C.unhex(h), last == "1"))
        else:
            bad.append("unexpected token " + t[:40])
    return out, bad


def monitor(expected, tokens):
    """Compare the expected projection with what the implementation did; returns failing clauses."""
    got, bad = project(tokens)
    fails = list(bad)
    if len(got) != len(expected):
        fails.append("expected %s, implementation did %s" % (fmt(expected), fmt(got)))
        return fails
    for e, g in zip(expected, got):
        if e[0] == "WC":
            if g[0] != "WC":
                fails.append("expected a close frame, got %s" % (fmt([g]),))
            elif e[1] != ANY_CLOSE and g[1] not in e[1]:
                fails.append("close frame status %s, required %s" % (g[1], sorted(e[1])))
            elif e[1] == ANY_CLOSE and not status_valid(g[1]):
                fails.append("close frame with invalid status %s" % g[1])
        elif e != g:
            fails.append("expected %s, implementation did %s" % (fmt([e]), fmt([g])))
    return fails


def fmt(items):
    def one(i):
        return "(" + ",".join((x.hex()[:24] or "-") if isinstance(x, bytes) else str(x) for x in i) + ")"
    return "[" + " ".join(one(i) for i in items) + "]"


# --------------------------------------------------------------------------------------------- running

def run_harness(binp, script):
    rc, outp, err = C.sh([binp], inp=script.encode(), env=ENV, timeout=600)
    return rc, outp.splitlines(), err


class Case:
    """A group of script lines that starts with its own conn/hconn (independent of other cases)."""
    __slots__ = ("family", "lines", "ref", "note", "model_only")

    def __init__(self, family, lines, ref=None, note=""):
        self.family = family
        self.lines = lines      # script lines (same for harness and model unless hlines given)
        self.ref = ref          # list parallel to lines: expected projection (list) or None = no RFC expectation
        self.note = note


def run_cases(binp, cases, out, stats, tag):
    """Run all cases on harness and model, compare, evaluate the monitor; returns #disagreements."""
    if not cases:
        return
    script = "\n".join("\n".join(c.lines) for c in cases) + "\n"
    nlines = sum(len(c.lines) for c in cases)
    mlines = C.run_drv("ws", script)
    if len(mlines) != nlines:
        raise RuntimeError("driver printed %d lines for %d script lines" % (len(mlines), nlines))
    rc, hlines, err = run_harness(binp, script)
    per_case_h = None
    if rc == 0 and len(hlines) == nlines:
        per_case_h = []
        i = 0
        for c in cases:
            per_case_h.append((0, hlines[i:i + len(c.lines)], ""))
            i += len(c.lines)
    else:
        # a sanitizer abort somewhere: rerun case by case to find out where (abort = a result)
        def one(c):
            return run_harness(binp, "\n".join(c.lines) + "\n")
        with concurrent.futures.ThreadPoolExecutor(max_workers=C.NPROC) as ex:
            per_case_h = list(ex.map(one, cases))
    i = 0
    for c, (crc, hl, cerr) in zip(cases, per_case_h):
        ml = mlines[i:i + len(c.lines)]
        i += len(c.lines)
        stats["cases"] += 1
        stats["lines"] += len(c.lines)
        stats["families"][c.family] = stats["families"].get(c.family, 0) + 1
        judge(c, crc, hl, cerr, ml, out, stats, tag)


def judge(c, rc, hl, err, ml, out, stats, tag):
    fails = []
    crashed = rc != 0 or len(hl) != len(c.lines)
    if crashed:
        fails.append("implementation aborted (rc=%d): %s" % (rc, sanitizer_summary(err)))
    # the property's monitor on the implementation's output
    if c.ref is not None and not crashed:
        for k, (exp, h) in enumerate(zip(c.ref, hl)):
            if exp is None:
                continue
            f = monitor(exp, h.split())
            if f:
                fails += ["line %d `%s`: %s" % (k, c.lines[k][:80], x) for x in f]
            stats["evaluations"] += 1
    elif not crashed:
        # no RFC expectation: still every frame written after the upgrade must be well-formed
        for k, h in enumerate(hl):
            if c.lines[k].startswith(("frame", "eof", "send", "close")) and "conn client" not in c.lines[0]:
                _, bad = project(h.split())
                fails += ["line %d: %s" % (k, b) for b in bad]
    differ = [k for k in range(min(len(hl), len(ml))) if hl[k].split() != ml[k].split()]
    for k, h in enumerate(hl):
        for t in h.split():
            stats["tokens"][t.split(":")[0]] = stats["tokens"].get(t.split(":")[0], 0) + 1
            if t.startswith("W:8802") and len(t) == 10:
                code = str(int(t[6:], 16))
                stats["close_codes"][code] = stats["close_codes"].get(code, 0) + 1
    if not fails and not differ:
        stats["agree"] += 1
        if len(stats["samples"]) < 6 and (stats["cases"] % 97 == 1):
            stats["samples"].append({"family": c.family, "script": [x[:200] for x in c.lines], "observed": [x[:200] for x in hl]})
        return
    replay = {"property": "C12", "family": c.family, "note": c.note, "seed": C.base_seed(), "harness": tag,
              "script": c.lines, "implementation": hl, "model": ml, "failing_clauses": fails,
              "first_difference": (differ[0] if differ else None),
              "replay_cmd": "printf '%s\\n' <script lines> | <work/cache/*/ws>  and  | lean/.lake/build/bin/drv_ws"}
    if fails:
        out.violation("C12 %s: %s" % (c.family, fails[0][:300]), replay)
    else:
        replay["broken"] = "correspondence Cjet.Ws (model) vs websocket.c at script line %d; the RFC monitor passes on the implementation" % differ[0]
        out.violation("C12 %s: model and implementation differ at line %d: impl `%s` model `%s`" % (
            c.family, differ[0], hl[differ[0]][:120], ml[differ[0]][:120]), replay, no_input=True)
    stats["disagree"] += 1


def sanitizer_summary(err):
    for ln in err.splitlines():
        if "runtime error" in ln or "ERROR: AddressSanitizer" in ln or "SUMMARY" in ln:
            return ln.strip()[:300]
    return err.strip()[-300:]


# --------------------------------------------------------------------------------------------- generators

def conn(role="server", cbset="daemon", reader="stub", bufsize=0):
    return "conn %s %s %s %d" % (role, cbset, reader, bufsize)


def frame_line(data, align=0, cb="ok", wfail=False, utf8=None, chunks=None, key=None):
    s = "frame " + C.hexs(data)
    if align:
        s += " align=%d" % align
    if cb != "ok":
        s += " cb=" + cb
    if wfail:
        s += " wfail"
    if utf8 is not None:
        s += " utf8=%d" % (1 if utf8 else 0)
    if chunks:
        s += " chunks=" + ",".join(str(x) for x in chunks)
    if key is not None:
        s += " key=" + key.hex()
    return s


def frames_case(family, frames, cbset="daemon", bufsize=512, reader="stub", real_utf8=None, note=""):
    """frames: list of (bytes, opts) fed one per `frame` line to a fresh server connection; the Ref
    gives the expectation per line.  real_utf8: function reason->verdict of the real validator, passed
    to the model as its utf8Valid parameter."""
    ref = Ref(cbset, bufsize)
    lines = [conn("server", cbset, reader, bufsize)]
    exp = [None]
    for data, o in frames:
        o = dict(o)
        cb = o.get("cb", "ok")
        if not ref.open:
            break
        e = ref.feed(data, cb)
        lines.append(frame_line(data, **o))
        exp.append(e)
    return Case(family, lines, exp, note)


RESERVED = (3, 4, 5, 6, 7, 11, 12, 13, 14, 15)


def pay(r, n):
    return bytes(r.getrandbits(8) for _ in range(n))


def gen_header_matrix(r, thorough):
    """all opcodes x FIN x RSV1-3 x MASK x length classes x length forms, around 125/126, the read
    buffer and 65535/65536 (the large ones header-only where the payload can never be accepted)."""
    cases = []
    small = [0, 1, 2, 125, 126, 127]
    for op in range(16):
        for fin in (0, 1):
            for rsv in range(8):
                for masked in (1, 0):
                    key = pay(r, 4) if masked else None
                    for n in small + [511, 512, 513]:
                        if not thorough and rsv not in (0, 1, 4) and n not in (0, 126):
                            continue
                        forms = [None]
                        if rsv == 0 and fin == 1 and n in (0, 125, 126):
                            forms = [None, 16, 64] if n <= 125 else [None, 64]
                        for form in forms:
                            p = pay(r, n)
                            data = enc_frame(op, p, fin=fin, rsv=rsv, key=key, form=form)
                            cases.append(frames_case("header-matrix", [(data, {"align": r.randrange(8)})],
                                                     note="op=%d fin=%d rsv=%d masked=%d len=%d form=%s" % (op, fin, rsv, masked, n, form)))
                    # declared lengths that no payload follows: 65535, 65536, 2^32, 2^63
                    for n in (600, 65535, 65536, 1 << 32, (1 << 63) + 5):
                        if rsv not in (0, 2) and n != 65536:
                            continue
                        data = enc_frame(op, b"", fin=fin, rsv=rsv, key=key, declared=n, body=False)
                        cases.append(frames_case("header-matrix-declared", [(data, {})],
                                                 note="op=%d fin=%d rsv=%d masked=%d declared=%d" % (op, fin, rsv, masked, n)))
    return cases


def gen_big_buffer(r, thorough):
    """payload lengths around 65535/65536 actually delivered (stub reader with a 70000 byte buffer)."""
    cases = []
    for op, fin in ((1, 1), (2, 1), (1, 0), (9, 1), (0, 1)):
        for n in (65534, 65535, 65536, 65537, 69999, 70000, 70001):
            if not thorough and n not in (65535, 65536, 70001):
                continue
            key = pay(r, 4)
            body = n <= 70000
            data = enc_frame(op, pay(r, n if body else 0), fin=fin, key=key, declared=n, body=body)
            for cbset in ("daemon", "full"):
                cases.append(frames_case("big-buffer", [(data, {"align": r.randrange(8)})], cbset=cbset, bufsize=70000,
                                         note="op=%d len=%d" % (op, n)))
    return cases


def gen_fragments(r, n_random):
    cases = []
    K = b"\xa1\xb2\xc3\xd4"
    seqs = [
        [(1, 0, b"frag1"), (0, 0, b"frag2"), (0, 1, b"frag3")],
        [(2, 0, b"frag1"), (0, 0, b"frag2"), (0, 1, b"frag3")],
        [(1, 0, b"a"), (9, 1, b"ping"), (0, 0, b"b"), (10, 1, b"x"), (0, 1, b"c"), (1, 1, b"whole")],
        [(0, 0, b"nostart")],
        [(0, 1, b"nostart-fin")],
        [(1, 0, b"a"), (1, 0, b"second start")],
        [(1, 0, b"a"), (2, 1, b"binary inside")],
        [(1, 0, b"a"), (1, 1, b"text inside")],
        [(1, 0, b"a"), (8, 1, b"\x03\xe8")],
        [(1, 0, b""), (0, 1, b"")],
        [(2, 0, b"a"), (0, 1, b"b"), (0, 1, b"continuation after end")],
        [(1, 0, b"a"), (9, 0, b"fragmented ping")],
        [(3, 0, b"reserved start")],
    ]
    for cbset in ("daemon", "full"):
        for s in seqs:
            fr = [(enc_frame(op, p, fin=fin, key=K), {"align": r.randrange(8)}) for op, fin, p in s]
            cases.append(frames_case("fragments-directed", fr, cbset=cbset, note=str(s)))
    for i in range(n_random):
        cbset = "full" if r.random() < 0.7 else "daemon"
        fr = []
        for _ in range(r.randrange(1, 9)):
            x = r.random()
            if x < 0.45:
                op = 0
            elif x < 0.7:
                op = r.choice((1, 2))
            elif x < 0.9:
                op = r.choice((9, 10))
            else:
                op = r.choice((8, 3, 11))
            fin = 1 if op >= 8 and r.random() < 0.9 else r.randrange(2)
            p = pay(r, r.choice((0, 1, 3, 8, 9, 17, 125, 126, 200)) if op < 8 else r.choice((0, 2, 5, 125)))
            if op == 8 and len(p) >= 2:
                p = (1000).to_bytes(2, "big") + b"ok"
            fr.append((enc_frame(op, p, fin=fin, key=pay(r, 4)), {"align": r.randrange(8)}))
        cases.append(frames_case("fragments-random", fr, cbset=cbset))
    return cases


def gen_close(r, real_utf8, thorough):
    cases = []
    codes = [0, 1, 999, 1000, 1001, 1002, 1003, 1004, 1005, 1006, 1007, 1008, 1009, 1010, 1011, 1012, 1013, 1014,
             1015, 1016, 1100, 2000, 2999, 3000, 3999, 4000, 4999, 5000, 65535]
    reasons = [b"", b"bye", "grüß".encode(), "€\U0001f600".encode(), b"\xc0\x80", b"\xed\xa0\x80",
               b"\xf4\x90\x80\x80", b"\xe2\x82", b"abc\xff", b"\xc0\x80\xc2\x80\xc2\x80\xc2\x80", b"x" * 123,
               b"x" * 122 + b"\xc3", "é".encode() * 61]
    K = b"\x01\x02\x03\x04"
    for code in codes:
        for reason in reasons:
            if not thorough and code not in (1000, 1005, 999, 3000, 5000) and reason not in (b"", b"bye", b"\xc0\x80"):
                continue
            p = code.to_bytes(2, "big") + reason
            data = enc_frame(8, p, key=K)
            opts = {"align": r.randrange(8)}
            if len(reason):
                opts["utf8"] = real_utf8(reason)
            cases.append(frames_case("close", [(data, opts)], note="code=%d reason=%s" % (code, reason.hex()[:20])))
    for p in (b"", b"\x03", b"\x03\xe8", b"\x03\xe8" + b"y" * 123, b"\x03\xe8" + b"y" * 124, b"\x03\xe8" + b"y" * 400):
        opts = {}
        if len(p) > 2:
            opts["utf8"] = real_utf8(p[2:])
        for cbset in ("daemon", "full"):
            cases.append(frames_case("close-lengths", [(enc_frame(8, p, key=K), opts)], cbset=cbset, note="len=%d" % len(p)))
    # valid close, then more bytes: nothing further may happen
    c = frames_case("close-then-data", [(enc_frame(8, b"\x03\xe8", key=K) + enc_frame(9, b"late", key=K), {})])
    cases.append(c)
    return cases


def gen_pingpong_text(r, n_random):
    cases = []
    for n in (0, 1, 2, 7, 8, 9, 15, 16, 17, 124, 125):
        for align in range(8):
            p = pay(r, n)
            cases.append(frames_case("ping", [(enc_frame(9, p, key=pay(r, 4)), {"align": align})], note="len=%d align=%d" % (n, align)))
    for i in range(n_random):
        fr = []
        for _ in range(r.randrange(1, 6)):
            op = r.choice((1, 1, 9, 10, 2))
            n = r.choice((0, 1, 5, 31, 32, 33, 125, 126, 300, 511, 512)) if op in (1, 2) else r.choice((0, 3, 64, 125))
            o = {"align": r.randrange(8)}
            if op == 1 and r.random() < 0.25:
                o["cb"] = "err"
            fr.append((enc_frame(op, pay(r, n), key=pay(r, 4), form=r.choice((None, None, 16, 64)) if n > 0 or op < 8 else None), o))
        cases.append(frames_case("data-random", fr, cbset=r.choice(("daemon", "daemon", "full"))))
    # several frames in one delivery, and a frame split over deliveries at every byte
    K = b"\x0a\x0b\x0c\x0d"
    multi = enc_frame(9, b"one", key=K) + enc_frame(1, b"{}", key=K) + enc_frame(9, b"two", key=K)
    cases.append(frames_case("coalesced", [(multi, {})]))
    f = enc_frame(9, b"split-me", key=K, form=16)
    for cut in range(1, len(f)):
        cases.append(frames_case("split", [(f[:cut], {}), (f[cut:], {"align": cut % 8})], note="cut=%d" % cut))
    # callback verdicts of the full set; writev failure
    for op, p in ((1, b"t"), (2, b"b"), (9, b"p"), (10, b"q"), (8, b"\x03\xe8")):
        for cb in ("err", "closed"):
            c = Case("callback-verdicts", [conn("server", "full"), frame_line(enc_frame(op, p, key=K), cb=cb)])
            cases.append(c)
    for op, p in ((9, b"p"), (8, b"\x03\xe8"), (2, b"b"), (1, b"t")):
        for cbset in ("daemon", "full"):
            cases.append(Case("writev-fails", [conn("server", cbset), frame_line(enc_frame(op, p, key=K), wfail=True)]))
    return cases


def gen_eof(r):
    cases = []
    K = b"\x01\x01\x01\x01"
    f = enc_frame(1, b"hello", key=K, form=16)
    for cut in range(0, len(f)):
        ref = Ref("daemon", 512)
        lines = [conn()]
        exp = [None]
        if cut:
            lines.append(frame_line(f[:cut]))
            exp.append(ref.feed(f[:cut]))
        lines.append("eof")
        exp.append(ref.eof())
        cases.append(Case("eof", lines, exp, "cut=%d" % cut))
    return cases


def gen_client_and_send(r, thorough):
    """the client role (unmasked frames accepted, frames sent masked) and send_frame directly"""
    cases = []
    lens = [0, 1, 2, 3, 4, 7, 8, 9, 15, 16, 17, 124, 125, 126, 127, 128, 255, 256, 1000, 65535, 65536, 65537]
    if not thorough:
        lens = [0, 1, 7, 8, 9, 125, 126, 127, 65535, 65536]
    for n in lens:
        p = pay(r, n)
        for op in (1, 2, 8, 9, 10):
            if n > 1000 and op != 2:
                continue
            cases.append(Case("send-server", [conn("server", "daemon"), "send %d %s" % (op, C.hexs(p))]))
            k = pay(r, 4)
            cases.append(Case("send-client", [conn("client", "full"), "send %d %s key=%s" % (op, C.hexs(p), k.hex())]))
    cases.append(Case("send-fails", [conn("server", "daemon"), "send 1 6869 wfail"]))
    for code in (1000, 1001, 1002, 1011, 4999, 70000):
        cases.append(Case("close-call", [conn("server", "daemon"), "close %d" % code, "frame 8900"]))
        cases.append(Case("close-call", [conn("client", "full"), "close %d key=0a0b0c0d" % code]))
    for op, p in ((1, b"text"), (2, b"bin"), (9, b"ping"), (10, b"pong"), (8, b"\x03\xe8"), (1, b"x" * 200)):
        for masked in (0, 1):
            data = enc_frame(op, p, key=(b"\x05\x06\x07\x08" if masked else None))
            cases.append(Case("client-role", [conn("client", "full"), frame_line(data, align=r.randrange(8), key=b"\x31\x32\x33\x34")]))
    return cases


def gen_unmask(r, n_random):
    lines = []
    for align in range(16):
        for n in list(range(0, 42)) + [63, 64, 65, 127, 128, 129]:
            lines.append("unmask %d %s %s" % (align, pay(r, 4).hex(), C.hexs(pay(r, n))))
    for _ in range(n_random):
        lines.append("unmask %d %s %s" % (r.randrange(16), pay(r, 4).hex(), C.hexs(pay(r, r.randrange(0, 700)))))
    return lines


def py_unmask(line):
    _, a, k, p = line.split()
    return "U:" + C.hexs(mask_bytes(bytes.fromhex(k), C.unhex(p)))


# ---- handshake

BASE_HDRS = [("Host", "localhost:8080"), ("Upgrade", "websocket"), ("Connection", "Upgrade"),
             ("Sec-WebSocket-Key", "dGhlIHNhbXBsZSBub25jZQ=="), ("Sec-WebSocket-Version", "13"),
             ("Sec-WebSocket-Protocol", "jet")]


def request(method="GET", target="/api/jet/", version="HTTP/1.1", hdrs=None):
    hdrs = BASE_HDRS if hdrs is None else hdrs
    return ("%s %s %s\r\n" % (method, target, version) + "".join("%s: %s\r\n" % (k, v) for k, v in hdrs) + "\r\n").encode("latin-1")


def vary_case(r, s):
    return "".join(ch.upper() if r.random() < 0.5 else ch.lower() for ch in s)


def gen_handshakes(r, n_random):
    """(raw request bytes, bufsize, valid?, key or None, note)"""
    H = dict(BASE_HDRS)
    out = []

    def add(note, valid, **kw):
        hd = kw.pop("hdrs", None)
        out.append((request(hdrs=hd, **kw), 0, valid, None, note))

    def repl(name, val):
        return [(k, (val if k == name else v)) for k, v in BASE_HDRS]

    def drop(*names):
        return [(k, v) for k, v in BASE_HDRS if k not in names]
    add("rfc sample", True)
    add("no protocol header", True, hdrs=drop("Sec-WebSocket-Protocol"))
    for v in ("chat, jet", "jet, chat", "chat,jet", "chat,  jet", "jet,chat,superchat", "\tjet", "jet,", ",jet", ",,jet,,", "a,b,c,d,e,jet"):
        add("protocol list `%s`" % v, True, hdrs=repl("Sec-WebSocket-Protocol", v))
    for v in ("jet ,chat", "chat , jet , x", "jet\t,chat"):
        add("protocol list with space before comma `%s`" % v, True, hdrs=repl("Sec-WebSocket-Protocol", v))
    for v in ("chat", "jetx", "xjet", "je t", "JET", "chat, superchat", "j,e,t"):
        add("protocol list without jet `%s`" % v, False, hdrs=repl("Sec-WebSocket-Protocol", v))
    add("two protocol headers, second has jet", True, hdrs=drop("Sec-WebSocket-Protocol") + [("Sec-WebSocket-Protocol", "chat"), ("Sec-WebSocket-Protocol", "jet")])
    add("two protocol headers, first has jet", True, hdrs=drop("Sec-WebSocket-Protocol") + [("Sec-WebSocket-Protocol", "jet"), ("Sec-WebSocket-Protocol", "chat")])
    add("three protocol headers, middle has jet", True, hdrs=drop("Sec-WebSocket-Protocol") + [("Sec-WebSocket-Protocol", "chat"), ("Sec-WebSocket-Protocol", "soap, jet"), ("Sec-WebSocket-Protocol", "mqtt, wamp")])
    add("two protocol headers, first has jet in a list", True, hdrs=drop("Sec-WebSocket-Protocol") + [("Sec-WebSocket-Protocol", "x, jet"), ("Sec-WebSocket-Protocol", "")])
    add("two protocol headers, none has jet", False, hdrs=drop("Sec-WebSocket-Protocol") + [("Sec-WebSocket-Protocol", "chat"), ("Sec-WebSocket-Protocol", "soap")])
    add("missing key", None, hdrs=drop("Sec-WebSocket-Key"))
    add("missing version", None, hdrs=drop("Sec-WebSocket-Version"))
    add("missing key and version", None, hdrs=drop("Sec-WebSocket-Key", "Sec-WebSocket-Version"))
    for k in ("", "short", "dGhlIHNhbXBsZSBub25jZQ=", "dGhlIHNhbXBsZSBub25jZQ===", "x" * 23, "x" * 25, "x" * 100):
        add("key of length %d" % len(k), False, hdrs=repl("Sec-WebSocket-Key", k))
    add("duplicate key, last wins", True, hdrs=drop("Sec-WebSocket-Key") + [("Sec-WebSocket-Key", "AAAAAAAAAAAAAAAAAAAAAA=="), ("Sec-WebSocket-Key", H["Sec-WebSocket-Key"])])
    add("duplicate key, second wrong length", False, hdrs=BASE_HDRS + [("Sec-WebSocket-Key", "short")])
    for v in ("12", "14", "8", "130", "1", "", "13, 8", " 13"):
        add("version `%s`" % v, (True if v == " 13" else False), hdrs=repl("Sec-WebSocket-Version", v))
    for m in ("POST", "PUT", "HEAD", "OPTIONS", "DELETE"):
        add("method " + m, False, method=m)
    for v in ("HTTP/1.0", "HTTP/0.9", "HTTP/1.2", "HTTP/2.0"):
        add("version " + v, (v in ("HTTP/1.2", "HTTP/2.0")), version=v)
    add("bad http version token", False, version="HTTP/1.x")
    add("no upgrade header", False, hdrs=drop("Upgrade"))
    add("no connection header", False, hdrs=drop("Connection"))
    add("connection keep-alive, Upgrade", True, hdrs=repl("Connection", "keep-alive, Upgrade"))
    for t, ok in (("/api/jet/", True), ("/api/jet/extra", True), ("/api/jet", False), ("/other", False), ("/", False),
                  ("/api/jet/?x=1", True), ("http://host/api/jet/", True), ("*", False), ("/api/Jet/", False)):
        add("target " + t, ok, target=t)
    add("extensions offered (ignored at level 0)", True, hdrs=BASE_HDRS + [("Sec-WebSocket-Extensions", "permessage-deflate; client_max_window_bits")])
    out.append((b"GET /api/jet/ HTTP/1.1\r\nHost: x\r\nno colon here\r\n" + request()[len(b"GET /api/jet/ HTTP/1.1\r\n"):], 0, False, None, "line without colon"))
    out.append((b"\r\n" + request(), 0, True, None, "leading empty line"))
    out.append((request() + enc_frame(9, b"after-upgrade"), 0, True, None, "ping right behind the request"))
    out.append((b"GET /api/jet/ HTTP/1.1\r\nHost: " + b"x" * 600 + b"\r\n\r\n", 0, False, None, "header line longer than the read buffer"))
    out.append((b"GET /api/jet/" + b"x" * 600 + b" HTTP/1.1\r\n\r\n", 0, False, None, "request line longer than the read buffer"))
    out.append((b"GET /api/jet/ HTTP/1.1\r\nSec-WebSocket-Key: dGhlIHNhbXBsZSBub25jZQ==\r\n continued\r\n" + request()[len(b"GET /api/jet/ HTTP/1.1\r\n"):], 0, None, None, "folded key header"))
    # random permutations / case variations of a valid request, fresh random keys
    for i in range(n_random):
        key = base64.b64encode(pay(r, 16)).decode()
        hd = [(k, (key if k == "Sec-WebSocket-Key" else v)) for k, v in BASE_HDRS]
        extra = [("Origin", "http://example.com"), ("User-Agent", "x" * r.randrange(1, 60)), ("Cache-Control", "no-cache"),
                 ("Pragma", "no-cache"), ("Cookie", "a=b; c=d")]
        hd += r.sample(extra, r.randrange(0, len(extra) + 1))
        r.shuffle(hd)
        valid = True
        x = r.random()
        note = "permutation"
        if x < 0.15:
            hd = [(k, v) for k, v in hd if k != "Sec-WebSocket-Protocol"]
            note += " without protocol"
        elif x < 0.3:
            lst = r.sample(["chat", "soap", "mqtt", "jet", "wamp"], r.randrange(1, 5))
            valid = "jet" in lst
            sep = r.choice([",", ", ", ",  ", ",\t"])
            if len(lst) >= 2 and r.random() < 0.5:
                # RFC 7230 3.2.2: the list may be spread over several header lines of the same name
                cut = r.randrange(1, len(lst))
                i0 = [i for i, (k, _) in enumerate(hd) if k == "Sec-WebSocket-Protocol"][0]
                hd[i0] = ("Sec-WebSocket-Protocol", sep.join(lst[:cut]))
                hd.insert(r.randrange(i0 + 1, len(hd) + 1), ("Sec-WebSocket-Protocol", sep.join(lst[cut:])))
                note += " protocol list on two lines %s | %s" % (lst[:cut], lst[cut:])
            else:
                hd = [(k, (sep.join(lst) if k == "Sec-WebSocket-Protocol" else v)) for k, v in hd]
                note += " protocol list %s" % lst
        elif x < 0.4:
            klen = r.choice((0, 1, 22, 23, 25, 26, 48))
            key = "k" * klen
            hd = [(k, (key if k == "Sec-WebSocket-Key" else v)) for k, v in hd]
            valid = False
            note += " key length %d" % klen
        hd = [(vary_case(r, k), v) for k, v in hd]
        out.append((request(hdrs=hd), 0, valid, (key if valid else None), note))
    return out


EVT = re.compile(r"^(ln|perr|toolong|url:.*|hf:.*|hv:.*|hc:.*)$")


def handshake_events(tokens):
    """harness tokens of the `http` ops -> the model's event list (`perr` moved behind the callbacks
    of its line: the shadow parser runs before the real one) and the remaining action tokens"""
    ev, act = [], []
    pend = False
    for t in tokens:
        if EVT.match(t):
            if t == "perr":
                pend = True
                continue
            if t == "ln" and pend:
                ev.append("perr")
                pend = False
            ev.append(t)
        else:
            act.append(t)
    if pend:
        ev.append("perr")
    return ev, act


def parse_101(b):
    """-> (status, headers dict lower-case, rest)"""
    head, _, rest = b.partition(b"\r\n\r\n")
    lines = head.split(b"\r\n")
    m = re.match(rb"HTTP/(\d\.\d) (\d+)", lines[0])
    hd = {}
    for ln in lines[1:]:
        k, _, v = ln.partition(b":")
        hd[k.strip().lower().decode("latin-1")] = v.strip().decode("latin-1")
    return (int(m.group(2)) if m else None), hd, rest


def run_handshakes(binp, hs, out, stats, reader="stub"):
    script = []
    for raw, bufsize, valid, key, note in hs:
        script.append("hconn %s %d" % (reader, bufsize))
        script.append("http " + C.hexs(raw))
    rc, hl, err = run_harness(binp, "\n".join(script) + "\n")
    if rc != 0 or len(hl) != len(script):
        # find the crashing request
        for k, (raw, bufsize, valid, key, note) in enumerate(hs):
            rc1, hl1, err1 = run_harness(binp, "\n".join(script[2 * k:2 * k + 2]) + "\n")
            if rc1 != 0 or len(hl1) != 2:
                out.violation("C12 handshake: implementation aborted on `%s`: %s" % (note, sanitizer_summary(err1)),
                              {"property": "C12", "family": "handshake", "script": script[2 * k:2 * k + 2], "note": note,
                               "stderr": err1[-3000:], "failing_clauses": ["sanitizer abort"]})
                stats["disagree"] += 1
                return
        raise RuntimeError("handshake harness run failed without a reproducible case: " + err[-500:])
    mscript = []
    parts = []
    for k, (raw, bufsize, valid, key, note) in enumerate(hs):
        toks = hl[2 * k + 1].split()
        ev, act = handshake_events(toks)
        parts.append((ev, act))
        mscript.append("handshake " + " ".join(ev))
    ml = C.run_drv("ws", "\n".join(mscript) + "\n")
    for k, (raw, bufsize, valid, key, note) in enumerate(hs):
        ev, act = parts[k]
        stats["cases"] += 1
        stats["families"]["handshake"] = stats["families"].get("handshake", 0) + 1
        mtoks = ml[k].split()
        mstate = mtoks[-1] if mtoks and mtoks[-1] in ("upgraded", "open") else "closed"
        mact = [t for t in mtoks if t not in ("upgraded", "open", "-")]
        # contract of the oracle: at most one url, before any header callback; hf/hv alternate; hc last
        names = [e.split(":")[0] for e in ev if e not in ("ln", "perr", "toolong")]
        contract = names.count("url") <= 1 and (not names or names[0] == "url") and \
            ("hc" not in names or names[-1] == "hc") and names.count("hc") <= 1
        fails = []
        if not contract:
            fails.append("http-parser callback contract broken: %s" % names)
        # frames behind the upgrade are the frame machine's business: compare only up to the 101
        w = [t for t in act if t.startswith("W:")]
        status, hd, rest = (None, {}, b"")
        if w:
            status, hd, rest = parse_101(C.unhex(w[0][2:]))
        is101 = status == 101
        stats["handshake_outcomes"][str(status)] = stats["handshake_outcomes"].get(str(status), 0) + 1
        cut = act
        if is101:
            cut = act[:act.index(w[0]) + 1]
        differ = cut != mact or (is101 and mstate != "upgraded") or (not is101 and mstate == "upgraded")
        if valid is True:
            stats["evaluations"] += 1
            if not is101:
                fails.append("valid upgrade request (%s) was not answered with 101 but %s" % (note, status))
            else:
                k64 = key
                if k64 is None:
                    m = re.findall(rb"(?im)^sec-websocket-key:[ \t]*([^\r\n]*?)[ \t]*\r$", raw)
                    k64 = m[-1].decode("latin-1") if m else None
                if k64 is not None:
                    want = base64.b64encode(hashlib.sha1(k64.encode("latin-1") + GUID).digest()).decode()
                    if hd.get("sec-websocket-accept") != want:
                        fails.append("accept digest %r, hashlib says %r" % (hd.get("sec-websocket-accept"), want))
                if hd.get("upgrade", "").lower() != "websocket" or "upgrade" not in hd.get("connection", "").lower():
                    fails.append("101 without Upgrade/Connection headers")
        elif valid is False and is101:
            stats["rfc_deviations"]["invalid request answered 101: " + note.split("`")[0].strip()] = 1
        elif valid is None and is101:
            stats["rfc_deviations"]["101 although: " + note] = 1
        if not fails and not differ:
            stats["agree"] += 1
            continue
        replay = {"property": "C12", "family": "handshake", "note": note, "seed": C.base_seed(),
                  "script": script[2 * k:2 * k + 2], "implementation": hl[2 * k + 1], "model_script": mscript[k],
                  "model": ml[k], "failing_clauses": fails}
        if fails:
            out.violation("C12 handshake `%s`: %s" % (note, fails[0][:300]), replay)
        else:
            replay["broken"] = "correspondence Cjet.Ws.Hs.run vs websocket.c/http_connection.c"
            out.violation("C12 handshake `%s`: model and implementation differ: impl `%s` model `%s`" % (
                note, " ".join(cut)[:160], ml[k][:160]), replay, no_input=True)
        stats["disagree"] += 1
    return hl


# --------------------------------------------------------------------------------------------- the check

def scenario_cases():
    """directed replays kept in scenarios/c12_*.ws (past findings); plain scripts, `## ` starts a case"""
    cases = []
    for p in sorted(glob.glob(os.path.join(C.ROOT, "scenarios", "c12_*.ws"))):
        cur = None
        for ln in open(p).read().splitlines():
            if ln.startswith("## "):
                cur = Case("scenario:" + os.path.basename(p), [], None, ln[3:])
                cases.append(cur)
            elif ln.strip() and not ln.startswith("#") and cur is not None:
                cur.lines.append(ln)
    # the RFC reference reads the frames back from the script itself
    for c in cases:
        if not c.lines or not c.lines[0].startswith("conn server"):
            continue
        w = c.lines[0].split()
        ref = Ref(w[2], int(w[4]) if len(w) > 4 and int(w[4]) else 512)
        exp = [None]
        ok = True
        for ln in c.lines[1:]:
            t = ln.split()
            if t[0] == "frame" and ok and ref.open:
                cb = "err" if "cb=err" in t else ("closed" if "cb=closed" in t else "ok")
                exp.append(ref.feed(C.unhex(t[1]), cb))
            elif t[0] == "eof" and ok and ref.open:
                exp.append(ref.eof())
            else:
                ok = False
                exp.append(None)
        c.ref = exp
    return cases


def _run_component(ctx, out):
    t0 = time.time()
    thorough = ctx.thorough
    binp = build()
    stats = {"cases": 0, "lines": 0, "agree": 0, "disagree": 0, "evaluations": 0, "families": {}, "tokens": {},
             "close_codes": {}, "samples": [], "handshake_outcomes": {}, "rfc_deviations": {}}

    # 0. platform facts the model assumes
    rc, info, err = run_harness(binp, "info\nstatusall\n")
    minfo = C.run_drv("ws", "info\nstatusall\n")
    if rc != 0 or info != minfo:
        out.violation("C12: platform/constant facts differ (word size, buffer size, key/GUID lengths, status ranges)",
                      {"property": "C12", "implementation": info, "model": minfo, "stderr": err[-2000:],
                       "broken": "constants of Cjet.Generated.Ws / word size 8"}, no_input=True)
    elif info[1].split() != ["I:0-999", "I:1004-1006", "I:1012-2999", "I:5000-65535"]:
        out.violation("C12: is_status_code_invalid is not the RFC 6455 7.4 table", {"property": "C12", "implementation": info[1],
                                                                                      "failing_clauses": ["invalid close codes"]})
    stats["exhaustive_status_table"] = True

    # the real validator's verdict on close reasons is the model's utf8Valid parameter (C18 owns the validator)
    utf8_cache = {}

    def real_utf8(reason):
        if reason not in utf8_cache:
            _, o, _ = run_harness(binp, "utf8 %s\n" % C.hexs(reason))
            utf8_cache[reason] = o[0].strip() == "V:1" if o else None
        return utf8_cache[reason]

    # 1. corpus of past findings first
    run_cases(binp, scenario_cases(), out, stats, "default")

    # 2. frames
    r = C.rng("c12", "frames")
    cases = []
    cases += gen_header_matrix(r, thorough)
    cases += gen_fragments(r, 1500 if thorough else 250)
    cases += gen_close(r, real_utf8, thorough)
    cases += gen_pingpong_text(r, 1500 if thorough else 250)
    cases += gen_eof(r)
    cases += gen_client_and_send(r, thorough)
    cases += gen_big_buffer(r, thorough)
    B = 400
    batches = [cases[i:i + B] for i in range(0, len(cases), B)]
    for b in batches:
        run_cases(binp, b, out, stats, "default")
        if len(out.violations) > 12:
            break

    # 3. the same streams through the REAL buffered_socket.c under random segmentations
    r = C.rng("c12", "segment")
    seg = []
    pool = [c for c in cases if c.family in ("fragments-directed", "fragments-random", "data-random", "close", "ping",
                                              "header-matrix", "header-matrix-declared")]
    for c in r.sample(pool, min(len(pool), 1200 if thorough else 200)):
        w = c.lines[0].split()
        if int(w[4]) not in (0, 512):
            continue
        lines = [" ".join(w[:3] + ["real", "0"])]
        for ln in c.lines[1:]:
            t = ln.split()
            n = (len(t[1]) // 2) if t[1] != "-" else 0
            ch = []
            left = n
            while left > 0 and len(ch) < 40:
                k = r.choice((1, 1, 2, 3, 5, 8, 13, 64, 600))
                ch.append(k)
                left -= k
            lines.append(ln + (" chunks=" + ",".join(str(x) for x in ch) if ch else ""))
        seg.append(Case("real-reader-segmented", lines, c.ref, c.note))
    for i in range(0, len(seg), B):
        run_cases(binp, seg[i:i + B], out, stats, "default")

    # 4. unmask: real code, model, python — every alignment, lengths across the word boundaries
    r = C.rng("c12", "unmask")
    ul = gen_unmask(r, 3000 if thorough else 300)
    rc, hu, err = run_harness(binp, "\n".join(ul) + "\n")
    mu = C.run_drv("ws", "\n".join(ul) + "\n")
    stats["unmask_cases"] = len(ul)
    for k, ln in enumerate(ul):
        want = py_unmask(ln)
        h = hu[k] if k < len(hu) else "<aborted: %s>" % sanitizer_summary(err)
        if h != want or mu[k] != want:
            out.violation("C12 unmask: %s" % ln[:100], {"property": "C12", "family": "unmask", "script": [ln], "implementation": h,
                                                       "model": mu[k], "reference": want,
                                                       "failing_clauses": (["unmask_payload is not the byte-wise XOR"] if h != want else [])},
                          no_input=(h == want))
            stats["disagree"] += 1
            break
    stats["evaluations"] += len(ul)

    # 5. base64 / sha1 / accept three ways; protocol list parser
    r = C.rng("c12", "digest")
    dl = []
    ref = []
    for n in list(range(0, 70)) + [119, 120, 121, 127, 128, 129, 1000]:
        b = pay(r, n)
        dl.append("b64 " + C.hexs(b))
        ref.append("B:" + C.hexs(base64.b64encode(b)))
        dl.append("sha1 " + C.hexs(b))
        ref.append("H:" + hashlib.sha1(b).hexdigest())
    for i in range(400 if thorough else 60):
        key = base64.b64encode(pay(r, 16))
        dl.append("accept " + key.hex())
        ref.append("K:0:" + base64.b64encode(hashlib.sha1(key + GUID).digest()).hex())
    for klen in (0, 1, 23, 25, 60):
        key = b"k" * klen
        dl.append("accept " + C.hexs(key))
        ref.append("K:-1:" + base64.b64encode(hashlib.sha1(b"\0" * 60).digest()).hex())
    protos = ["jet", "jet,chat", "chat,jet", "chat, jet", " jet", "jet ", "jet ,chat", "chat ,jet", "", ",", " , ", "jett", "je", "jet,jet",
              "a,b,c,d,e,f,g,jet", "\tjet\t", "chat,\tjet", "JET", "j et", "chat;jet", "jet\r\n"]
    for _ in range(300 if thorough else 50):
        protos.append("".join(r.choice(["jet", "chat", ",", " ", "\t", "x", "je", ", "]) for _ in range(r.randrange(1, 7))))
    for p in protos:
        dl.append("proto " + C.hexs(p.encode()))
        toks = [t.strip(" \t\r\n\v\f") for t in p.split(",")]
        ref.append("P:%d" % (1 if "jet" in toks else 0))
    rc, hd, err = run_harness(binp, "\n".join(dl) + "\n")
    md = C.run_drv("ws", "\n".join(dl) + "\n")
    stats["digest_cases"] = len(dl)
    for k, ln in enumerate(dl):
        h = hd[k] if k < len(hd) else "<aborted: %s>" % sanitizer_summary(err)
        if h != md[k]:
            out.violation("C12 %s: model and implementation differ" % ln[:60], {"property": "C12", "script": [ln], "implementation": h,
                                                                                "model": md[k], "reference": ref[k],
                                                                                "broken": "correspondence base64/sha1/protocol list"}, no_input=True)
            stats["disagree"] += 1
            break
        if h != ref[k]:
            what = "protocol list `%s`: code finds jet=%s, RFC 7230 list syntax says %s" % (
                C.unhex(ln.split()[1]).decode("latin-1"), h, ref[k]) if ln.startswith("proto") else "digest differs from hashlib/base64"
            out.violation("C12 %s" % what, {"property": "C12", "family": "digest", "script": [ln], "implementation": h, "model": md[k],
                                            "reference": ref[k], "failing_clauses": [what]})
            stats["disagree"] += 1
            break
    stats["evaluations"] += len(dl)

    # 6. handshakes through the real http_parser
    r = C.rng("c12", "handshake")
    hs = gen_handshakes(r, 600 if thorough else 80)
    run_handshakes(binp, hs, out, stats)
    # the real reader under the same requests, delivered in small pieces, must behave the same
    rr = C.rng("c12", "handshake-seg")
    sub = rr.sample(hs, min(len(hs), 200 if thorough else 40))
    s1, s2 = [], []
    for raw, bufsize, valid, key, note in sub:
        s1 += ["hconn stub 0", "http " + C.hexs(raw)]
        ch = [rr.choice((1, 2, 3, 7, 20, 100)) for _ in range(40)]
        s2 += ["hconn real 0", "http " + C.hexs(raw) + " chunks=" + ",".join(str(x) for x in ch)]
    _, h1, e1 = run_harness(binp, "\n".join(s1) + "\n")
    rc2, h2, e2 = run_harness(binp, "\n".join(s2) + "\n")
    for k in range(len(sub)):
        a = [t for t in (h1[2 * k + 1].split() if 2 * k + 1 < len(h1) else []) if t != "toolong"]
        b = h2[2 * k + 1].split() if 2 * k + 1 < len(h2) else ["<aborted: %s>" % sanitizer_summary(e2)]
        stats["cases"] += 1
        if a != b:
            out.violation("C12 handshake `%s`: the real reader under segmentation behaves differently from the whole request" % sub[k][4],
                          {"property": "C12", "family": "handshake-segmented", "script": s2[2 * k:2 * k + 2], "whole": " ".join(a),
                           "segmented": " ".join(b), "failing_clauses": ["behaviour depends on segmentation"]})
            stats["disagree"] += 1
            break
        stats["agree"] += 1

    # 7. big real buffer (CONFIG_MAX_MESSAGE_SIZE=70000): 16/64 bit lengths through the real reader
    if thorough:
        big = build(70000)
        r = C.rng("c12", "bigreal")
        bc = []
        for op, fin in ((1, 1), (2, 1), (9, 1)):
            for n in (65535, 65536, 70000, 70001):
                body = n <= 70000
                data = enc_frame(op, pay(r, n if body else 0), fin=fin, key=pay(r, 4), declared=n, body=body)
                ref = Ref("daemon", 70000)
                bc.append(Case("big-real-buffer", [conn("server", "daemon", "real", 70000),
                                                   frame_line(data, chunks=[r.choice((1, 1000, 4096, 65536)) for _ in range(30)])],
                               [None, ref.feed(data)], "op=%d len=%d" % (op, n)))
        run_cases(big, bc, out, stats, "bufsize70000")

    # known findings of this property: all fixed in /repo; their replays ran as scenarios above
    for e in C.open_findings("C12"):
        out.known_finding("%s %s" % (e.get("id"), e.get("what", "")))

    nontrivial = sum(v for k, v in stats["families"].items())
    out.coverage.update({
        "traces_validated_against_impl": stats["cases"],
        "script_lines": stats["lines"],
        "agreeing": stats["agree"],
        "disagreeing": stats["disagree"],
        "evaluations": stats["evaluations"],
        "distinct_nontrivial": nontrivial,
        "rule": "one per generated case (own connection, distinct header fields / sequence / request); unmask and digest lines counted under evaluations",
        "families": stats["families"],
        "observation_tokens": stats["tokens"],
        "close_codes_sent": stats["close_codes"],
        "handshake_status_histogram": stats["handshake_outcomes"],
        "rfc_deviations_outside_the_property": sorted(stats["rfc_deviations"]),
        "unmask_cases": stats.get("unmask_cases"),
        "digest_cases": stats.get("digest_cases"),
        "samples": stats["samples"],
        "exhaustive": {"is_status_code_invalid over 0..65535": True,
                       "opcode x FIN x RSV x MASK header matrix": bool(thorough)},
        "tie_wall_s": round(time.time() - t0, 1),
    })
    out.assumptions += [
        "UTF-8 verdict on a close reason is a parameter of the model, instantiated with the real validator's verdict (C18 owns the validator); the monitor uses Python's decoder",
        "http-parser's tokenisation of the request is an observed oracle (callback sequence) under the contract: one on_url first, headers_complete last",
        "permessage-deflate is not negotiated (daemon passes compression level 0); the negotiated case is C19",
        "buffered_socket.c as exact-reader: request > CONFIG_MAX_MESSAGE_SIZE -> error handler; zero-length callback at end of stream (validated here against the real buffered_socket.c, proved in C09)",
        "parse_message (JSON-RPC layer) is a scripted verdict; transparency with the raw transport is checked on the whole daemon by the framework owner",
    ]


def run(ctx, out):
    _run_component(ctx, out)
    # whole-daemon family (framework owner): see vlib/xdiff.py
    from vlib import xdiff
    xdiff.transparency(ctx, out)
    from vlib import dcheck, directed
    comp = dict(out.coverage)
    dcheck.run_property(ctx, out, "C12", None, n_quick=0, n_thorough=0, gen_kw={}, directed=directed.split_upgrade_interleaved())
    for k in list(out.coverage):
        if k not in comp or out.coverage[k] != comp[k]:
            out.coverage["daemon_directed_" + k] = out.coverage[k]
            if k in comp:
                out.coverage[k] = comp[k]
            else:
                del out.coverage[k]
