"""C19 — permessage-deflate: lossless round trip, bounded memory, legal negotiation.

PARTIAL level: the bookkeeping of compression.c and the negotiation of websocket.c are modelled and proved
(lean/Cjet/Props/C19.lean); zlib is an ASSUMPTION, so losslessness rests on zlib and is only sampled here.

The tie (harness/comp/deflate.c = real compression.c + zlib + websocket.c, ASan/UBSan):
  frags    fragment size sequences -> per fragment (offset, length, capacity, free space) of the real
           reassembly buffer, compared token by token with the model (exhaustive over a small size alphabet
           x length <= 4, directed "later fragment larger than the growth step", seeded beyond);
  offer    Sec-WebSocket-Extensions values -> accept/reject, negotiated parameters, response string of the real
           parser, compared with the model; and, independently of the model, the response is parsed and
           checked against RFC 7692 with a reference parse of the offer (every parameter offered or one the
           server may add, window bits in 8..15 and <= offered, no duplicates, fits the 129 byte buffer);
  rt       payload x level x window bits x context takeover x fragmentation x message sequence: the real
           send path compresses and an RFC 7692 peer built on plain zlib inflates; that peer deflates and the
           real receive path (direct calls, text variant, masked frames through ws_get_header) inflates;
           property evaluated directly: output == input;
  il       the same client->server round trip in EVERY presentation on the wire: text / binary messages, whole or in
           fragments, with ping (empty, with payload, 125 bytes) / pong / (last) close frames in front of, between
           (every position) and behind the fragments, context takeover on and off, message sequences on one
           connection; every frame fed on its own through ws_get_header .. ws_handle_frame.  Clause evaluated on the
           implementation: every data message delivered exactly once, unchanged, through the right callback (message
           callback when whole, frame callback when fragmented); every ping answered by a pong with the same payload,
           nothing else sent; behind the message the flags are clear and strm_decomp.avail_in == 0 (nothing left in the
           reassembly buffer: the next message round-trips); a close ends the connection with 1000 and no error.
           Frame by frame (events, flags, avail_in) compared with the model (Cjet.Deflate.handleFrame; zlib = the oracle
           "these fragments inflate to this payload");
  mut/dec  corrupt streams (bit flips, truncation, insertions, junk): any verdict, but no sanitizer report.
  comp     the compressor alone (websocket_compress_bounded with the size send_frame uses, the 2*len wrapper of the
           tests, and destinations of need-4 .. need+2 / 0 / 3 / 4 / 5 bytes, exactly sized on the heap), message
           sequences on one connection: a complete message (and the peer inflates it, also behind refused ones) exactly
           when zlib's output is shorter than the destination, otherwise -1; compared with the model; the assumption
           "deflate output <= deflateBound + 6" (hBound of roundtrip_given_zlib) is checked on every message;
  offerx   every offer of the corpus once more in a heap buffer of exactly `length` bytes: no read behind it (F38) and
           the same answer whatever follows the value in memory.
A sanitizer abort is a result: the op is recorded as aborted and the harness restarted behind it.
F37 (fixed f176546) and F38 (fixed 14a967e) run as ordinary regressions: a recurrence is a VIOLATION.
"""
import concurrent.futures
import itertools
import json
import os
import re
import subprocess

from vlib import common as C

LEVEL = "proof"

SRCS = ("compression.c websocket.c http_connection.c http_server.c base64.c alloc.c utf8_checker.c "
        "posix/jet_string.c linux/jet_string.c linux/jet_endian.c linux/random.c sha1/sha1.c "
        "http-parser/http_parser.c zlib/adler32.c zlib/deflate.c zlib/inffast.c zlib/inflate.c "
        "zlib/inftrees.c zlib/trees.c zlib/zutil.c").split()

ASSUMPTIONS = [
    "zlib (src/zlib, 1.2.11) is NOT modelled. Hypotheses of roundtrip_given_zlib / roundtrip_session_given_zlib, all about "
    "the oracle only: hTail (deflate with a sync/full flush ends with 00 00 ff ff behind at least one byte), hInv (inflate "
    "undoes deflate for the negotiated window bits / context takeover settings), hBound (the output for one flushed message "
    "is at most deflateBound(length) + 6 bytes: zlib.h, deflateBound() and the flush marker). Losslessness therefore rests on "
    "zlib and is only SAMPLED by the rt runs of this check; hBound is checked on every generated message (need <= db + 6).",
    "compress_never_truncates / compress_no_oob_for_any_zlib_output need NO assumption about zlib's output (any length, any "
    "content, errors); they assume only that deflate() stores at most avail_out bytes and that its inflate stores as many "
    "bytes as fit per call (output doubling loop).",
    "zlib's deflate reports Z_BUF_ERROR (stream unchanged) when there is nothing to do: an empty message behind a flush is "
    "answered -1 by the sender (the first message of a connection may be empty); rt/comp expect exactly that.",
    "sizes below 2^32/8: compression.c computes the reassembly sizes in unsigned int; reassemble_cap_le bounds "
    "them by 6*total+16 (no wrap below that).",
    "harness compiled with -fno-sanitize=nonnull-attribute: zlib 1.2.11 calls memcpy(dst, NULL, 0) in "
    "_tr_stored_block on every flush (known, benign); everything else of ASan/UBSan is on, zlib included.",
    "realloc(p, 0) returns NULL (glibc): that is how a zero-length compressed payload is refused.",
    "the peer of the rt runs is an RFC 7692 endpoint built directly on the same zlib (a client bound to an 8 bit "
    "window sends Huffman-only blocks, because zlib cannot deflate raw with 8 bits).",
]

FLUSH_MARKER_MAX = 6      # hBound: need <= deflateBound + this (the model's flushMarkerMax comes from the source)

PMD = "permessage-deflate"
CMW, SMW, CNC, SNC = ("client_max_window_bits", "server_max_window_bits", "client_no_context_takeover",
                      "server_no_context_takeover")


def hx(b):
    if isinstance(b, str):
        b = b.encode("latin-1")
    return b.hex() if b else "-"


# --------------------------------------------------------------------------- running the two sides

def build():
    return C.cc_build("deflate", [C.ROOT + "/harness/comp/deflate.c"] + [C.SRC + "/" + f for f in SRCS],
                      extra_flags=["-I" + C.SRC + "/zlib", "-fno-sanitize=nonnull-attribute"])


ABORT_RE = re.compile(r"ERROR: AddressSanitizer: ([\w-]+)|runtime error: ([^\n]+)|AddressSanitizer:DEADLYSIGNAL")


def classify_abort(err, rc):
    kind = "exit-%d" % rc
    m = ABORT_RE.search(err)
    if m:
        kind = m.group(1) or ("ubsan: " + m.group(2) if m.group(2) else "SEGV")
    m2 = re.search(r"ERROR: AddressSanitizer: ([\w-]+)", err)
    if m2:
        kind = m2.group(1)
    where = ""
    for fm in re.finditer(r"#\d+ 0x[0-9a-f]+ in (\w+) ([^\s:]+):(\d+)", err):
        if "/harness/" in fm.group(2) or "sanitizer" in fm.group(2):
            continue
        where = "%s %s:%s" % (fm.group(1), os.path.basename(fm.group(2)), fm.group(3))
        break
    acc = re.search(r"\b(READ|WRITE) of size (\d+)", err)
    return {"kind": kind, "where": where, "access": acc.group(0) if acc else "", "stderr": err[-1500:]}


def run_impl_chunk(binp, lines):
    """Run the harness over `lines`; returns one dict per line: {"obs": str} or
    {"obs": partial line, "abort": {...}} — after an abort the harness is restarted behind the op."""
    res = []
    i = 0
    env = dict(os.environ)
    env["ASAN_OPTIONS"] = "detect_leaks=0:abort_on_error=0:allocator_may_return_null=1"
    env["UBSAN_OPTIONS"] = "print_stacktrace=1"
    while i < len(lines):
        p = subprocess.run([binp], input=("\n".join(lines[i:]) + "\n").encode(), stdout=subprocess.PIPE,
                           stderr=subprocess.PIPE, env=env, timeout=1800)
        out = p.stdout.decode("latin-1")
        parts = out.split("\n")
        complete, partial = parts[:-1], parts[-1]
        for l in complete:
            res.append({"obs": l})
        i += len(complete)
        if i < len(lines):
            res.append({"obs": partial, "abort": classify_abort(p.stderr.decode("latin-1", "replace"), p.returncode)})
            i += 1
        elif p.returncode != 0:
            # died after the last line was complete (at exit): attribute to the last op
            res[-1]["abort"] = classify_abort(p.stderr.decode("latin-1", "replace"), p.returncode)
    return res


def run_impl(binp, lines, chunk=400):
    if not lines:
        return []
    chunks = [lines[k:k + chunk] for k in range(0, len(lines), chunk)]
    with concurrent.futures.ThreadPoolExecutor(max_workers=C.NPROC) as ex:
        outs = list(ex.map(lambda ch: run_impl_chunk(binp, ch), chunks))
    return [r for o in outs for r in o]


def run_model(lines, chunk=3000):
    if not lines:
        return []
    chunks = [lines[k:k + chunk] for k in range(0, len(lines), chunk)]

    def one(ch):
        out = C.run_drv("deflate", "\n".join(ch) + "\n")
        if len(out) != len(ch):
            raise RuntimeError("drv_deflate answered %d lines for %d ops" % (len(out), len(ch)))
        return out
    with concurrent.futures.ThreadPoolExecutor(max_workers=C.NPROC) as ex:
        outs = list(ex.map(one, chunks))
    return [l for o in outs for l in o]


def canon(line):
    return " ".join(line.split())


# --------------------------------------------------------------------------- RFC 7692 reference for offers

def rfc_parse_offer(value):
    """Header value (bytes) -> list of elements; element = (name, [(pname, pvalue or None)])."""
    try:
        s = value.decode("latin-1")
    except Exception:
        return []
    elems = []
    for part in s.split(","):
        toks = [t.strip(" \t\r\n\v\f") for t in part.split(";")]
        if not toks or not toks[0]:
            continue
        params = []
        for t in toks[1:]:
            if "=" in t:
                k, v = t.split("=", 1)
                k, v = k.strip(), v.strip()
                if len(v) >= 2 and v[0] == '"' and v[-1] == '"':
                    v = v[1:-1]
                params.append((k, v))
            else:
                params.append((t, None))
        elems.append((toks[0], params))
    return elems


def parse_response(resp):
    s = resp.decode("latin-1")
    toks = s.split("; ")
    params = []
    for t in toks[1:]:
        if "=" in t:
            k, v = t.split("=", 1)
            params.append((k, v))
        else:
            params.append((t, None))
    return toks[0], params


def offer_monitor(level, value, obs):
    """The property's negotiation clause evaluated on what the implementation answered.
    Returns None (holds) or the failing clause."""
    f = dict(t.split("=", 1) for t in obs.split()[1:] if "=" in t)
    if f.get("acc") != "1":
        return None                      # declining is always legal
    resp = C.unhex(f["resp"])
    if len(resp) + 1 > 129:
        return "response of %d bytes + NUL exceeds the 129 byte buffer" % len(resp)
    name, params = parse_response(resp)
    if name != PMD:
        return "response names %r" % name
    names = [k for k, _ in params]
    if len(set(names)) != len(names):
        return "duplicate parameter in the response"
    rp = dict(params)
    for k, v in params:
        if k in (CMW, SMW):
            if v is None or not v.isdigit() or not (8 <= int(v) <= 15) or str(int(v)) != v:
                return "%s=%r outside 8..15" % (k, v)
        elif k in (CNC, SNC):
            if v is not None:
                return "%s carries a value" % k
        else:
            return "parameter %r is not defined by RFC 7692" % k
    # some offered permessage-deflate element must justify the answer
    why = "no permessage-deflate element in the offer"
    for ename, eparams in rfc_parse_offer(value):
        if ename != PMD:
            continue
        ep = {}
        for k, v in eparams:
            ep.setdefault(k, v)
        ok = True
        if CMW in rp:
            if CMW not in ep:
                ok, why = False, "client_max_window_bits answered but not offered"
            elif ep[CMW] is not None and ep[CMW].isdigit() and int(rp[CMW]) > int(ep[CMW]):
                ok, why = False, "client_max_window_bits=%s above the offered %s" % (rp[CMW], ep[CMW])
        if ok and ep.get(SMW) is not None:
            if SMW not in rp:
                ok, why = False, "server_max_window_bits offered but missing in the answer"
            elif ep[SMW].isdigit() and int(rp[SMW]) > int(ep[SMW]):
                ok, why = False, "server_max_window_bits=%s above the offered %s" % (rp[SMW], ep[SMW])
        if ok and SNC in ep and SNC not in rp:
            ok, why = False, "server_no_context_takeover offered but missing in the answer"
        if ok:
            # negotiated state must match the answer
            if CMW in rp and f.get("cmw") != rp[CMW]:
                return "client window in the struct (%s) differs from the answer (%s)" % (f.get("cmw"), rp[CMW])
            if SMW in rp and f.get("smw") != rp[SMW]:
                return "server window in the struct (%s) differs from the answer (%s)" % (f.get("smw"), rp[SMW])
            if CMW not in rp and f.get("cmw") != "15":
                return "client window %s assumed without client_max_window_bits in the answer" % f.get("cmw")
            if SMW not in rp and f.get("smw") != "15":
                return "server window %s used without announcing it" % f.get("smw")
            if (CNC in rp) != (f.get("cnc") == "1") or (SNC in rp) != (f.get("snc") == "1"):
                return "context takeover flags differ from the answer"
            return None
    return why


# --------------------------------------------------------------------------- generators

def gen_frags(ctx):
    """Returns (lines, n_exhaustive, alphabet)."""
    alpha = [0, 1, 2, 3, 9, 55, 600] if not ctx.thorough else [0, 1, 2, 3, 4, 5, 7, 10, 54, 55, 56, 300, 513, 5000, 70000]
    lines = []
    for n in range(0, 5):
        for tup in itertools.product(alpha, repeat=n):
            lines.append("frags " + (",".join(map(str, tup)) if tup else "-"))
    nex = len(lines)
    # directed: a later fragment larger than what one doubling reaches (F23), exact boundaries
    for a in (1, 2, 3, 4, 10, 100, 511):
        first_cap = 3 * a + 4 if a > 2 else 2 * (3 * a + 4)
        avail = first_cap - 4 - a
        reach = avail + first_cap
        for b in (reach - 1, reach, reach + 1, reach + 2, 2 * reach, 10 * reach, avail - 4, avail - 5, avail - 3):
            if b > 0:
                lines.append("frags %d,%d" % (a, b))
                lines.append("frags %d,%d,7" % (a, b))
                lines.append("frags %d,0,%d,0,1" % (a, b))
    n = 300 if not ctx.thorough else 12000
    for i in range(n):
        r = C.rng("c19-frags", i)
        k = r.choice((2, 3, 5, 8, 20, 60))
        mode = r.randrange(4)
        sizes = []
        for j in range(k):
            if mode == 0:
                sizes.append(r.randrange(0, 12))
            elif mode == 1:
                sizes.append(int(2 ** r.uniform(0, 17)))
            elif mode == 2:      # small ones, then a big one
                sizes.append(r.randrange(1, 6) if j < k - 1 else int(2 ** r.uniform(6, 18)))
            else:
                sizes.append(r.choice((0, 1, 125, 126, 512, 65535, 65536)))
        lines.append("frags " + ",".join(map(str, sizes)))
    return lines, nex, alpha


def offer_text(parts, sep="; "):
    return sep.join(parts)


def gen_offers(ctx):
    """Returns list of (level, value bytes, after bytes or None, family)."""
    out = []
    levels = (1, 2, 3)
    bits_q = (7, 8, 9, 10, 12, 15, 16)
    bits = tuple(range(7, 17)) if ctx.thorough else bits_q
    cm_variants = [None, CMW] + ["%s=%d" % (CMW, b) for b in bits]
    sm_variants = [None, SMW] + ["%s=%d" % (SMW, b) for b in bits]
    # every subset and order of the four parameters (window values from the list)
    for cm in cm_variants:
        for sm in sm_variants:
            for cn in (None, CNC):
                for sn in (None, SNC):
                    present = [x for x in (cm, sm, cn, sn) if x]
                    perms = list(itertools.permutations(present))
                    if not ctx.thorough and len(perms) > 6:
                        r = C.rng("c19-perm", cm, sm, cn, sn)
                        perms = [perms[0], perms[-1]] + r.sample(perms[1:-1], 3)
                    for perm in perms:
                        for lv in levels:
                            out.append((lv, offer_text([PMD] + list(perm)).encode(), None, "subset-order"))
    # level 0 never negotiates; spellings and separators
    base = [PMD, "%s=10" % CMW, CNC, SNC, "%s=10" % SMW]
    for sep in (";", "; ", " ; ", ";\t", " ;  ", ";;", "; ;"):
        for lv in (0, 1, 2, 3):
            out.append((lv, offer_text(base, sep).encode(), None, "separators"))
            out.append((lv, offer_text([PMD, CMW], sep).encode(), None, "separators"))
    directed = [
        PMD, PMD + ";", PMD + "; ", PMD + " ", " " + PMD, PMD + ",", "," + PMD, ", ," + PMD + " , ",
        "x-webkit-deflate-frame, " + PMD, PMD + ", " + PMD, "foo, bar; x=1, " + PMD + "; " + CMW,
        PMD + "; " + SMW + "=8, " + PMD + "; " + SMW + "=9",
        PMD + "; " + CMW + "=9; junkjunkjunkjunkjunkjunkjunk, " + PMD + "; " + CMW + "=12",
        PMD + "; " + SMW + "=10; junkjunkjunkjunkjunkjunkjunk, " + PMD,
        PMD + "; " + CNC + "; " + CNC, PMD + "; " + CMW + "; " + CMW + "=10", PMD + "; " + SMW + "=10; " + SMW + "=11",
        PMD + "; " + CNC + "XYZ", PMD + "; " + SNC + "=foo", PMD + "; " + CNC + "=1; " + SNC + "_not",
        PMD + "; " + CMW + "=", PMD + "; " + CMW + "=1", PMD + "; " + SMW + "=", PMD + "; " + SMW + "=1",
        PMD + "; " + CMW + "=\"10\"", PMD + "; " + SMW + "=\"10\"", PMD + "; " + CMW + " = 10", PMD + "; " + CMW + "= 10",
        PMD + "; " + CMW + "=010", PMD + "; " + CMW + "=08", PMD + "; " + CMW + "=1a", PMD + "; " + CMW + "=9x",
        PMD + "; " + CMW + "=\xb9", PMD + "; " + SMW + "=1\xb5", PMD + "; " + CMW.upper(), PMD.upper(),
        "permessage-deflat", PMD + "e", "permessage- deflate", "permessage-deflat e; " + CMW,
        PMD + "; a; b; c; d", PMD + "; a; b; c; d; e", PMD + ";;;;", PMD + ";;;;;",
        PMD + "; " + CMW + "; " + SMW + "=15; " + CNC + "; " + SNC + "; " + CMW,
        PMD + "; " + "; ".join([CNC] * 4), PMD + "; x", PMD + "; " + "y" * 21, PMD + "; " + "y" * 22, PMD + "; " + "y" * 26,
        "", " ", ",", ";", ";;;;;;", ", ; , ;",
    ]
    for d in directed:
        for lv in levels:
            out.append((lv, d.encode("latin-1"), None, "directed"))
    # F38: offers that end in blanks, right behind a `=`, behind a name that needs a value, inside a name
    ends = [PMD + ";", PMD + "; ", PMD + ";  \t ", PMD + "; " + CMW + ";", PMD + "; " + CMW + "; ", PMD + "; " + CMW + "=",
            PMD + "; " + CMW + "=1", PMD + "; " + SMW, PMD + "; " + SMW + "=", PMD + "; " + SMW + "=1", PMD + "; " + CMW + "; " + SMW,
            PMD + "; " + SMW + "=10; " + CMW + "=", PMD + "; " + CNC + "; " + SMW + " ", PMD + ";" + SMW, "x" * 30 + ";",
            PMD + "; " + CMW + "=15, " + PMD + "; " + SMW, PMD + "; " + SMW + ", " + PMD + "; " + CMW + "="]
    for full in (PMD + "; " + CMW + "=15", PMD + "; " + SMW + "=15", PMD + "; " + CNC, PMD + "; " + SNC + "; " + CMW):
        ends += [full[:k] for k in range(len(PMD), len(full))]
    for d in ends:
        for lv in levels:
            out.append((lv, d.encode("latin-1"), None, "ends"))
    # what lies behind the header value in memory (before F38 the parser read beyond `length`)
    for v in (PMD + "; " + CMW + "=", PMD + "; " + SMW + "=", PMD + "; " + CMW + "=1", PMD + "; ", PMD + ";", PMD + "; " + CMW + "; "):
        for after in (b"", b"\r\n", b"15", b"15\r\n", b"1", b"9", b" \t\r\n \x0b\x0c" + CMW.encode(), b"0\r\n", b"8;" + CNC.encode()):
            for lv in levels:
                out.append((lv, v.encode(), after, "over-read"))
    # very long offers: the response buffer bound
    longs = [
        PMD + "; " + "; ".join(["%s=15" % CMW, "%s=15" % SMW, CNC, SNC]),
        ", ".join([PMD + "; " + "; ".join(["%s=15" % CMW, "%s=15" % SMW, CNC, SNC, "zzzzzzzzzzzzzzzzzzzzzzzzzzzz"])] * 40)
        + ", " + PMD + "; " + "; ".join([SNC, CNC, "%s=15" % SMW, "%s=15" % CMW]),
        PMD + "; " + "q" * 5000, PMD + "; " + CMW + "=" + "1" * 3000, ("x" * 300 + ", ") * 30 + PMD,
        PMD + "; " + "; ".join([CNC + "a" * 200, SNC + "b" * 200, "%s=15" % CMW, "%s=15" % SMW]),
        PMD + " " * 3000 + "; " + CMW, (PMD + "; " + CNC + "; " + CNC + ", ") * 100 + PMD + "; " + SNC,
    ]
    for l in longs:
        for lv in levels:
            out.append((lv, l.encode(), None, "long"))
    # seeded: grammar based with junk and mutations
    n = 600 if not ctx.thorough else 40000
    alphabet = " ;,=_-\"\t0123456789" + "abcdeilmnoprstvwx"
    pool = [CMW, SMW, CNC, SNC] + ["%s=%d" % (CMW, b) for b in range(7, 17)] + ["%s=%d" % (SMW, b) for b in range(7, 17)] + \
        ["foo", "x=1", CNC + "x", SNC + "=1", CMW + "=\"12\"", "", " "]
    for i in range(n):
        r = C.rng("c19-offer", i)
        elems = []
        for _ in range(r.choice((1, 1, 1, 2, 3))):
            name = r.choice((PMD, PMD, PMD, PMD, "foo", PMD + "x", "permessage-deflat"))
            ps = [r.choice(pool) for _ in range(r.choice((0, 1, 2, 3, 4, 4, 5)))]
            sep = r.choice(("; ", ";", " ; ", ";  "))
            elems.append(sep.join([name] + ps))
        s = r.choice((", ", ",", " , ")).join(elems)
        m = r.randrange(5)
        if m == 0 and s:       # mutate characters
            s = list(s)
            for _ in range(r.choice((1, 1, 2, 4))):
                p = r.randrange(len(s))
                op = r.randrange(3)
                if op == 0:
                    s[p] = r.choice(alphabet)
                elif op == 1:
                    s.insert(p, r.choice(alphabet))
                else:
                    del s[p]
                if not s:
                    break
            s = "".join(s)
        elif m == 1 and s:     # truncate
            s = s[:r.randrange(len(s) + 1)]
        after = None
        if r.randrange(6) == 0:
            after = bytes(r.choice(b" \t\r\n0123456789;=,abc") for _ in range(r.randrange(0, 6)))
        b = s.encode("latin-1")
        if r.randrange(25) == 0:
            b = bytes(r.randrange(256) for _ in range(r.randrange(1, 80)))
        out.append((r.choice(levels), b, after, "seeded"))
    return out


def payload_of(kind, n, r):
    if kind == "zero":
        return bytes(n)
    if kind == "rand":
        return bytes(r.getrandbits(8) for _ in range(n))
    if kind == "high":
        return bytes(0x90 + (r.getrandbits(8) % 0x70) for _ in range(n))
    if kind == "text":
        base = b'{"jsonrpc":"2.0","method":"change","params":{"path":"a/b/c","value":%d},"id":%d}'
        out = b""
        k = 0
        while len(out) < n:
            out += base % (r.randrange(1000), k)
            k += 1
        return out[:n]
    if kind == "rep":
        unit = bytes(r.getrandbits(8) for _ in range(r.choice((1, 2, 3, 7, 300))))
        return (unit * (n // len(unit) + 1))[:n]
    raise ValueError(kind)


def gen_rt(ctx, maxmsg):
    """Returns list of (line, meta) — meta = {"lens": [...]}"""
    out = []
    setups = ["L%d:%d:%d:%d:%d" % (lv, cm, cn, sm, sn)
              for lv in (1, 2, 3) for cm in ((8, 9, 12, 15) if not ctx.thorough else range(8, 16))
              for sm in ((8, 9, 12, 15) if not ctx.thorough else range(8, 16))
              for cn in (0, 1) for sn in (0, 1)]
    offers = [PMD, PMD + "; " + CMW, PMD + "; %s=10; %s; %s; %s=10" % (CMW, CNC, SNC, SMW), PMD + "; %s=9" % SMW,
              PMD + "; %s=8; %s=15" % (CMW, SMW), PMD + "; " + SNC, PMD + "; " + CNC]
    setups_o = ["O%d:%s" % (lv, hx(o)) for lv in (1, 2, 3) for o in offers]
    sizes_q = [0, 1, 2, 5, 6, 7, 16, 100, maxmsg - 1, maxmsg, maxmsg + 1, 4096, 70000]
    sizes_t = sizes_q + [3, 4, 8, 9, 125, 126, 127, 1000, 4 * maxmsg, 65535, 65536, 65537, 300000, 1 << 20]
    sizes = sizes_t if ctx.thorough else sizes_q
    kinds = ("zero", "rand", "high", "text", "rep")
    cutsets = ["-", "1", "1,1,1", "0", "0,0,5", "3,0,0", "10,1000", "2,60", "1,2,4,8,16,32,64,128,256,512,1024",
               "100000", ",".join(["1"] * 200), "5,5,5,5,5,5,5,5,5,5"]
    modes = ("comp", "text", "ws")

    def add(setup, mode, cuts, payloads):
        out.append(("rt %s %s %s %s" % (setup, mode, cuts, " ".join(hx(p) for p in payloads)),
                    {"lens": [len(p) for p in payloads], "setup": setup, "mode": mode, "cuts": cuts}))

    # directed grid: every size x kind on a few setups x all cut sets (single message)
    r0 = C.rng("c19-rt-grid")
    grid_setups = ["L1:8:1:9:1", "L2:12:0:12:0", "L3:15:0:15:0"] + (setups_o[:6] if ctx.thorough else setups_o[:2])
    for n in sizes:
        big = n > 4096
        for kind in (("zero", "rand", "text") if big else kinds):
            p = payload_of(kind, n, r0)
            for s in (grid_setups[:3] if big else grid_setups):
                if n < 6:
                    cs = ["-", "0,0,5"]
                elif big:
                    cs = ["-", "10,1000", "0,0,5", "1,2,4,8,16,32,64,128,256,512,1024"]
                else:
                    cs = cutsets
                for cuts in cs:
                    for mode in (("comp", "ws") if big else modes):
                        if not ctx.thorough and r0.randrange(3) and cuts not in ("-", "10,1000", "0,0,5"):
                            continue
                        add(s, mode, cuts, [p])
    # every parameter combination: message sequences on one connection (context takeover)
    for k, s in enumerate(setups + setups_o):
        r = C.rng("c19-rt-seq", k)
        msgs = []
        for _ in range(r.choice((2, 3, 4))):
            msgs.append(payload_of(r.choice(kinds), r.choice((7, 8, 20, 100, 600, 3000)), r))
        msgs.append(msgs[0])
        msgs.append(payload_of("text", 700, r))
        add(s, r.choice(modes), r.choice(cutsets), msgs)
    # seeded
    n = 150 if not ctx.thorough else 8000
    for i in range(n):
        r = C.rng("c19-rt", i)
        s = r.choice(setups + setups_o)
        msgs = []
        for _ in range(r.choice((1, 1, 2, 5))):
            ln = r.choice((r.randrange(0, 12), r.randrange(6, 600), int(2 ** r.uniform(3, 17 if ctx.thorough else 15))))
            msgs.append(payload_of(r.choice(kinds), ln, r))
        if r.randrange(2):
            cuts = "-" if r.randrange(3) == 0 else ",".join(str(int(2 ** r.uniform(0, 12)) - 1) for _ in range(r.randrange(1, 9)))
        else:
            cuts = r.choice(cutsets)
        add(s, r.choice(modes), cuts, msgs)
    return out


def gen_corrupt(ctx):
    out = []
    setups = ["L1:8:1:9:1", "L2:12:0:12:0", "L3:15:0:15:0", "L2:9:1:10:0"]
    n = 500 if not ctx.thorough else 40000
    for i in range(n):
        r = C.rng("c19-mut", i)
        kind = r.choice(("zero", "rand", "text", "rep", "high"))
        ln = r.choice((1, 6, 20, 100, 600, 5000))
        p = payload_of(kind, ln, r)
        m = r.randrange(4)
        if m == 0:
            mut = "flip:%d" % r.randrange(8 * 8000)
        elif m == 1:
            mut = "trunc:%d" % r.randrange(8000)
        elif m == 2:
            mut = "set:%d:%d" % (r.randrange(8000), r.randrange(256))
        else:
            mut = "ins:%d:%d" % (r.randrange(8000), r.randrange(256))
        cuts = r.choice(("-", "1", "3,0,2", "10,1000", "1,1,1,1,1,1,1,1"))
        out.append("mut %s %s %s %s %s" % (r.choice(setups), r.choice(("comp", "text", "ws")), cuts, mut, hx(p)))
    # exhaustive single-bit flips and every truncation of one short stream
    p = payload_of("text", 90, C.rng("c19-mut-ex"))
    for bit in range(0, 8 * 90):
        out.append("mut L2:12:0:12:0 comp - flip:%d %s" % (bit, hx(p)))
    for t in range(0, 90):
        out.append("mut L3:15:0:15:0 ws 4 trunc:%d %s" % (t, hx(p)))
    # junk as a compressed message
    junk = [b"", b"\x00", b"\xff", b"\xff" * 40, b"\x00" * 40, b"\x01\x00\x00\xff\xff", b"\x00\x05\x00\xfa\xff12345",
            b"\x00\x05\x00\xfb\xff12345", b"\x00\xff\xff\x00\x00", b"\x04", b"\x05\xe0", b"\x06", b"\xed\xfd", b"\x03\x00",
            b"\x02\x00", b"\x4a\x04\x00", b"\x4b\x04\x00" * 5, b"\xec\xc1\x01\x0d\x00\x00\x00\xc2\xa0" + b"\xff" * 30]
    for i in range(100 if not ctx.thorough else 2000):
        r = C.rng("c19-junk", i)
        junk.append(bytes(r.getrandbits(8) for _ in range(r.choice((1, 2, 3, 8, 40, 400)))))
    for j in junk:
        for s in setups[:3]:
            for mode, cuts in (("comp", "-"), ("ws", "1,1"), ("text", "0,0"), ("comp", "0")):
                out.append("dec %s %s %s %s" % (s, mode, cuts, hx(j)))
    return out


COMP_DESTS = ("b", "w", "+1", "+0", "-1", "+2", "-4", "=0", "=3", "=4", "=5", "+100")


def gen_comp(ctx):
    """The compressor alone: (line, [payload bytes])."""
    out = []
    setups = ["L1:8:1:9:1", "L2:12:0:12:0", "L3:15:0:15:0", "L2:12:0:9:1", "L0:15:0:15:0"]
    kinds = ("zero", "rand", "high", "text", "rep")

    def add(setup, dest, payloads):
        out.append(("comp %s %s %s" % (setup, dest, " ".join(hx(p) for p in payloads)), list(payloads)))
    r = C.rng("c19-comp")
    sizes = list(range(0, 24)) + [31, 32, 33, 64, 100, 126, 127, 128, 255, 256, 257, 511, 512, 513, 1000, 4096]
    if ctx.thorough:
        sizes += [20000, 70000]
    for n in sizes:
        for kind in kinds:
            p = payload_of(kind, n, r)
            for s in setups:
                for dest in (("b", "w", "+1", "+0", "-1") if n < 40 or ctx.thorough else ("b", "w", "+0")):
                    add(s, dest, [p])
    # sequences on one connection: refused messages (too small a destination, empty ones) between good ones
    for s in setups:
        for dest in COMP_DESTS:
            rr = C.rng("c19-comp-seq", s, dest)
            msgs = [payload_of(rr.choice(kinds), rr.choice((0, 1, 2, 5, 6, 7, 30, 200, 700)), rr) for _ in range(8)]
            add(s, dest, msgs + [msgs[2], b"", b"", b"A"])
    # alternating: the wrapper refuses the tiny ones, the next message must still be decodable
    for s in setups[:4]:
        add(s, "w", [b"A", b"hello hello hello hello", b"", b"BC", payload_of("text", 300, r), b"D", payload_of("rand", 64, r)])
    for i in range(200 if not ctx.thorough else 6000):
        r = C.rng("c19-comp", i)
        msgs = [payload_of(r.choice(kinds), r.choice((r.randrange(0, 10), r.randrange(0, 40), r.randrange(0, 3000))), r)
                for _ in range(r.choice((1, 1, 2, 4)))]
        add(r.choice(setups), r.choice(COMP_DESTS), msgs)
    return out


# --------------------------------------------------------------------------- interleaved control frames (op il)
# a script: (setup, [message]); message = {"k": t|b|T|B, "cuts": None | [sizes], "ctl": [(pos, kind, bytes)], "p": payload}
# pos = number of fragments of this message in front of the control frame; kind P ping, Q pong, X close

IL_SETUPS_TAKEOVER = ["L2:12:0:12:0", "L3:15:0:15:0"]
IL_SETUPS_NO_TAKEOVER = ["L1:8:1:9:1", "L2:12:1:12:1"]


def il_nfr(m):
    return 1 if m["cuts"] is None else len(m["cuts"]) + 1


def il_line(setup, msgs):
    out = []
    for m in msgs:
        cuts = "-" if m["cuts"] is None else ".".join(str(c) for c in m["cuts"])
        ctl = ".".join("%d%s%s" % (pos, kind, pl.hex()) for pos, kind, pl in m["ctl"]) or "-"
        out.append("%s/%s/%s/%s" % (m["k"], cuts, ctl, hx(m["p"])))
    return "il %s %s" % (setup, " ".join(out))


def il_parse(line):
    w = line.split()
    msgs = []
    for t in w[2:]:
        k, cuts, ctl, p = t.split("/")
        items = []
        if ctl != "-":
            for it in ctl.split("."):
                mm = re.match(r"(\d+)([PQX])([0-9a-fA-F]*)$", it)
                items.append((int(mm.group(1)), mm.group(2), bytes.fromhex(mm.group(3))))
        msgs.append({"k": k, "cuts": None if cuts == "-" else [int(c) for c in cuts.split(".")], "ctl": items,
                     "p": C.unhex(p)})
    return w[1], msgs


def il_wire(m):
    """The frames of one message in wire order: ("D", fragment index) | (kind, payload)."""
    n = il_nfr(m)
    out = []
    for i in range(n + 1):
        out += [(kind, pl) for pos, kind, pl in m["ctl"] if pos == i]
        if i < n:
            out.append(("D", i))
    return out


def il_describe(m):
    kind = {"t": "text, compressed", "b": "binary, compressed", "T": "text, not compressed", "B": "binary, not compressed"}[m["k"]]
    n = il_nfr(m)
    names = {"P": "ping", "Q": "pong", "X": "close"}
    ctl = ", ".join("%s%s %s" % (names[k], "(%d bytes)" % len(pl) if pl else "",
                                 "in front of the message" if pos == 0 else "behind the message" if pos >= n else
                                 "between fragments %d and %d" % (pos, pos + 1)) for pos, k, pl in m["ctl"])
    return "%s, %d bytes, %s%s" % (kind, len(m["p"]), "one frame" if n == 1 else "%d fragments" % n, "; " + ctl if ctl else "")


def gen_il(ctx, maxmsg):
    """Returns list of (setup, msgs, family)."""
    out = []
    r0 = C.rng("c19-il-directed")
    text = payload_of("text", 300, r0)
    rep = payload_of("rep", 700, r0)
    rnd = payload_of("rand", 200, r0)
    small = b'{"id":1}'
    ctl_variants = [("P", b""), ("P", b"\x01\x02ping"), ("Q", b""), ("Q", b"unsolicited")]
    setups = [(s, True) for s in IL_SETUPS_TAKEOVER] + [(s, False) for s in IL_SETUPS_NO_TAKEOVER]

    def msg(k, cuts, ctl, p):
        return {"k": k, "cuts": cuts, "ctl": list(ctl), "p": p}

    # 2 and 3 fragments x every position (in front, between each pair, behind) x ping / ping with payload / pong x
    # context takeover on / off x text / binary; behind it the same payload again in fragments (refers back to the first
    # message under context takeover) and a whole message: nothing may be left over from the interleaved one
    for (setup, takeover) in setups:
        for k in ("t", "b"):
            for cuts in ([7], [5, 9]):
                n = len(cuts) + 1
                for pos in range(0, n + 1):
                    for (ck, cp) in ctl_variants:
                        p = text if k == "t" else rep
                        out.append((setup, [msg(k, cuts, [(pos, ck, cp)], p), msg(k, [3, 3], [], p), msg(k, None, [], small)],
                                    "directed"))
    # a control frame in every gap at once, several in one gap, the 125 byte limit, empty fragments around them
    big = bytes(range(125))
    for (setup, takeover) in setups:
        for k in ("t", "b"):
            p = text if k == "t" else rnd
            out.append((setup, [msg(k, [4, 4, 4], [(0, "P", b"a"), (1, "P", b"b"), (1, "Q", b""), (2, "Q", b"c"), (3, "P", b""), (4, "P", b"e")], p),
                                msg(k, [10], [(1, "P", big)], p), msg(k, None, [(0, "Q", big), (1, "P", big)], p)], "all-gaps"))
            out.append((setup, [msg(k, [0, 0, 5], [(1, "P", b"x"), (2, "P", b"y"), (3, "Q", b"z")], p),
                                msg(k, [100000], [(1, "P", b"")], p), msg(k, [1] * 12, [(i, "P", bytes([i])) for i in range(1, 13)], p)],
                        "empty-fragments"))
            # compressed and uncompressed messages mixed on one connection, each with control frames between its fragments
            out.append((setup, [msg(k.upper(), [6, 6], [(1, "P", b"u"), (2, "Q", b"")], p), msg(k, [6, 6], [(1, "P", b"c"), (2, "P", b"")], p),
                                msg(k.upper(), [9], [(1, "P", b"")], p), msg(k, [9], [(1, "Q", b"")], p), msg(k, None, [], p)], "mixed"))
    # (last) close: at every position of 2 and 3 fragments, with and without a status / reason
    for (setup, takeover) in (setups[0], setups[2]):
        for k in ("t", "b"):
            for cuts in ([7], [5, 9]):
                n = len(cuts) + 1
                for pos in range(0, n + 1):
                    for cp in (b"", b"\x03\xe8", b"\x03\xe8bye"):
                        p = text if k == "t" else rep
                        out.append((setup, [msg(k, [4], [(1, "P", b"")], p), msg(k, cuts, [(pos, "X", cp)], p), msg(k, None, [], small)],
                                    "close"))
    # negotiated set-ups (through the header callback)
    for lv in (1, 2, 3):
        for o in (PMD, PMD + "; " + CNC, PMD + "; %s=10; %s" % (CMW, SNC)):
            for k in ("t", "b"):
                out.append(("O%d:%s" % (lv, hx(o)), [msg(k, [8, 8], [(1, "P", b"n"), (2, "Q", b"")], text), msg(k, [2], [(1, "P", b"")], text),
                                                    msg(k, None, [], text)], "negotiated"))
    # sizes around the frame length borders and the message limit, a control frame between the halves
    for n in (1, 2, 6, 125, 126, 127, maxmsg - 1, maxmsg, maxmsg + 1, 4096, 65535, 65536, 70000) if ctx.thorough else (1, 6, 126, maxmsg, maxmsg + 1, 4096, 70000):
        for kind in ("rand", "text", "zero"):
            p = payload_of(kind, n, r0)
            k = "t" if kind == "text" else "b"
            out.append(("L3:15:0:15:0", [msg(k, [max(1, n // 2)], [(1, "P", b"half")], p), msg(k, [1], [(1, "Q", b"")], p)], "sizes"))
    # seeded: random fragmentations with random control frames
    setups_all = [s for s, _ in setups] + ["L%d:%d:%d:%d:%d" % (lv, cm, cn, sm, sn) for lv in (1, 2, 3) for cm in (8, 9, 11, 15)
                                            for cn in (0, 1) for sm in (9, 15) for sn in (0, 1)]
    kinds = ("zero", "rand", "high", "text", "rep")
    for i in range(250 if not ctx.thorough else 5000):
        r = C.rng("c19-il", i)
        msgs = []
        nm = r.choice((1, 2, 3, 5))
        for j in range(nm):
            ln = r.choice((r.randrange(0, 12), r.randrange(6, 600), int(2 ** r.uniform(3, 16 if ctx.thorough and r.randrange(8) == 0 else 12))))
            pk = r.choice(kinds)
            k = r.choice("ttbbbTB")
            if k in "tT" and pk in ("rand", "high"):
                pk = "text"
            p = payload_of(pk, ln, r)
            if r.randrange(5) == 0:
                cuts = None
            else:
                cuts = [r.choice((0, 1, 2, 3, r.randrange(0, 40), int(2 ** r.uniform(0, 11)))) for _ in range(r.choice((1, 1, 2, 2, 3, 6)))]
            n = 1 if cuts is None else len(cuts) + 1
            ctl = []
            for _ in range(r.choice((0, 1, 1, 2, 3, 6))):
                ck = r.choice("PPPQQ")
                cl = r.choice((0, 0, 1, 2, 4, 125, r.randrange(0, 126)))
                ctl.append((r.randrange(0, n + 1), ck, bytes(r.getrandbits(8) for _ in range(cl))))
            if j == nm - 1 and r.randrange(6) == 0:
                ctl.append((r.randrange(0, n + 1), "X", r.choice((b"", b"\x03\xe8", b"\x03\xe9going"))))
            msgs.append(msg(k, cuts, ctl, p))
        out.append((r.choice(setups_all), msgs, "seeded"))
    return out


def il_close_ok(pl):
    """A close frame the server has to accept (what the generators send)."""
    return len(pl) == 0 or (len(pl) >= 2 and 1000 <= int.from_bytes(pl[:2], "big") <= 1003 and all(b < 0x80 for b in pl[2:]))


def eval_il(setup, msgs, res):
    """The round-trip clause for every presentation, on one il observation of the implementation.
    Returns (violations, per message [(c hex, sizes, tokens)] for the model, stats)."""
    viol, forms, st = [], [], {}
    obs = res["obs"]
    if "noaccept" in obs:
        return viol, None, {"noaccept": 1}
    body = obs[2:] if obs.startswith("il") else obs
    parts = re.findall(r"\[(?:[^\]]*)\]?", body)
    closed = False
    for i, m in enumerate(msgs):
        what = "message %d (%s)" % (i, il_describe(m))
        if i >= len(parts) or not parts[i].endswith("]"):
            ab = res.get("abort")
            viol.append("%s: %s" % (what, "no result" if ab is None else "sanitizer abort %s %s at %s" % (ab["kind"], ab["access"], ab["where"])))
            forms = None
            break
        part = parts[i]
        if part == "[skipped]":
            if not closed:
                viol.append("%s: not processed although the connection was not closed by the script" % what)
            if forms is not None:
                forms.append(None)
            continue
        mm = re.match(r"\[c=(\S+) frags=(\S+) :(.*) ; v=(\S+) end=(\w+)\]$", part)
        if not mm:
            viol.append("%s: unparsable observation %r" % (what, part[:200]))
            forms = None
            break
        chex, sizes, toks, v, end = mm.group(1), [int(x) for x in mm.group(2).split(",")], mm.group(3).split(), mm.group(4), mm.group(5)
        if forms is not None:
            forms.append((chex, sizes, toks))
        wire = il_wire(m)
        n = il_nfr(m)
        nclose = None
        for j, fr in enumerate(wire):
            if fr[0] == "X":
                nclose = j
                break
        expect_tokens = len(wire) if nclose is None else nclose + 1
        if end == "error":
            viol.append("%s: the connection was closed with an error (%s)" % (what, toks[-1] if toks else "-"))
            closed = True
            continue
        if len(toks) != expect_tokens:
            viol.append("%s: %d frames processed, %d sent" % (what, len(toks), expect_tokens))
            continue
        frags_before_close = n if nclose is None else sum(1 for fr in wire[:nclose] if fr[0] == "D")
        complete = frags_before_close == n
        # delivery: exactly once, unchanged, through the right callback
        if complete:
            if v != "ok":
                viol.append("%s: delivered %s" % (what, v))
        elif v not in ("none",) and not (v.startswith("partial") and m["k"] in "TB"):
            viol.append("%s: closed by the peer behind %d of %d fragments, but the application got %s" % (what, frags_before_close, n, v))
        # every ping answered with its payload, nothing else sent; data only where it belongs
        for j, (fr, tok) in enumerate(zip(wire, toks)):
            evs, _, state = tok.partition("|")
            sent = [e for e in evs.split(",") if e.startswith(("pong", "close", "sent"))]
            if fr[0] == "P":
                if sent != ["pong:" + hx(fr[1])]:
                    viol.append("%s: ping %s answered with %s" % (what, hx(fr[1]), ",".join(sent) or "nothing"))
            elif fr[0] == "X":
                want = "close:1000:0" if il_close_ok(fr[1]) else None
                if want and (sent != [want] or state != "x"):
                    viol.append("%s: close frame %s answered with %s, state %s" % (what, hx(fr[1]), ",".join(sent) or "nothing", state))
                closed = True
            elif sent:
                viol.append("%s: frame %d (%s) made the server send %s" % (what, j, fr[0], ",".join(sent)))
            if fr[0] in "PQX" and any(e[0] in "fm" for e in evs.split(",") if e != "-"):
                viol.append("%s: control frame %d reached a data callback (%s)" % (what, j, evs))
        # nothing is left behind: flags clear, no reassembly buffer
        if nclose is None:
            last_state = toks[-1].partition("|")[2] if toks else ""
            if end != "open":
                viol.append("%s: connection %s" % (what, end))
            elif not re.match(r"0[01]:\d+:0$", last_state):
                # (is_frag_compressed and frag_opcode are compared with the model; a stale value shows in the messages that follow)
                viol.append("%s: behind the message the connection is not ready for the next one (is_fragmented, is_frag_compressed : "
                            "frag_opcode : avail_in = %s): a message is still open or fragments are left in the reassembly buffer"
                            % (what, last_state))
            st["ctl_between"] = st.get("ctl_between", 0) + sum(1 for pos, kk, _ in m["ctl"] if 0 < pos < n)
            if m["k"] in "tb" and n > 1 and any(0 < pos < n for pos, kk, _ in m["ctl"]):
                st["compressed_fragmented_with_ctl_between"] = st.get("compressed_fragmented_with_ctl_between", 0) + 1
        elif end != "closed":
            viol.append("%s: connection %s behind a close frame" % (what, end))
    return viol, forms, st


def il_model_line(msgs, forms):
    """The same frames for the model: the fragments as the implementation's peer produced them."""
    out = []
    for m, f in zip(msgs, forms):
        if f is None:
            break
        chex, sizes, _ = f
        c = C.unhex(chex)
        frs, pos = [], 0
        for sz in sizes:
            frs.append(hx(c[pos:pos + sz]))
            pos += sz
        ctl = ".".join("%d%s%s" % (p_, k_, pl.hex()) for p_, k_, pl in m["ctl"]) or "-"
        out.append("%s/%s/%s/%s" % (m["k"], ".".join(frs), ctl, hx(m["p"])))
    return "il " + " ".join(out)


def il_impl_tokens(forms):
    out = []
    for f in forms:                 # messages behind the closing one are not sent to the model either
        if f is None:
            break
        out.append("[" + " ".join(f[2]) + "]")
    return " ".join(out)


def il_shrink(binp, setup, msgs):
    """Greedy: fewer messages, fewer control frames, fewer fragments, shorter payloads — while the clause still fails."""
    def fails(ms):
        if not ms:
            return False
        rr = run_impl_chunk(binp, [il_line(setup, ms)])[0]
        v, _, _ = eval_il(setup, ms, rr)
        return bool(v)
    cur = [dict(m) for m in msgs]
    changed = True
    rounds = 0
    while changed and rounds < 40:
        changed = False
        rounds += 1
        for i in range(len(cur)):
            t = cur[:i] + cur[i + 1:]
            if fails(t):
                cur, changed = t, True
                break
        if changed:
            continue
        for i, m in enumerate(cur):
            cands = []
            for j in range(len(m["ctl"])):
                cands.append(dict(m, ctl=m["ctl"][:j] + m["ctl"][j + 1:]))
            for j, (pos, k, pl) in enumerate(m["ctl"]):
                if pl:
                    cands.append(dict(m, ctl=m["ctl"][:j] + [(pos, k, b"")] + m["ctl"][j + 1:]))
            if m["cuts"]:
                n = len(m["cuts"])
                if n > 1:
                    for j in range(n):
                        # dropping a cut moves the control frames behind it one position forward
                        cands.append(dict(m, cuts=m["cuts"][:j] + m["cuts"][j + 1:],
                                          ctl=[(pos - 1 if pos > j + 1 else pos, k, pl) for pos, k, pl in m["ctl"]]))
                for j in range(n):
                    if m["cuts"][j] > 1:
                        cands.append(dict(m, cuts=m["cuts"][:j] + [1] + m["cuts"][j + 1:]))
            if len(m["p"]) > 1:
                cands.append(dict(m, p=m["p"][:len(m["p"]) // 2]))
                cands.append(dict(m, p=m["p"][:len(m["p"]) - 1]))
            for cnd in cands:
                t = cur[:i] + [cnd] + cur[i + 1:]
                if fails(t):
                    cur, changed = t, True
                    break
            if changed:
                break
    return cur


# --------------------------------------------------------------------------- evaluation

RT_MSG = re.compile(r"\[need=(-?\d+) db=(-?\d+) bound=(\S+) s2c=(\S+) c2s=(\S+) n=(\d+) frags=(\S+)\]")
COMP_MSG = re.compile(r"\[full=(\S+) db=(-?\d+) bound=(\S+) size=(\d+) ret=(-?\d+) out=(\S+) tail=(\d) peer=(\S+)\]")
TAIL = bytes([0, 0, 255, 255])


def bound_clause(ln, need, db):
    """hBound of roundtrip_given_zlib evaluated on the real zlib; None when it holds."""
    if need > 0 and db >= 0 and need > db + FLUSH_MARKER_MAX:
        return ("ASSUMPTION hBound broken: zlib emitted %d bytes for a message of %d bytes, above deflateBound() = %d plus the "
                "flush marker of %d" % (need, ln, db, FLUSH_MARKER_MAX))
    return None


def eval_rt(line, meta, res):
    """The round-trip clause on one rt observation. Returns (violations[list of clause], stats)."""
    viol, st = [], {}
    obs = res["obs"]
    msgs = RT_MSG.findall(obs)
    lens = meta["lens"]
    if "noaccept" in obs:
        return viol, {"noaccept": 1}
    for k, ln in enumerate(lens):
        if k < len(msgs):
            need, db, bound, s2c, c2s = int(msgs[k][0]), int(msgs[k][1]), msgs[k][2], msgs[k][3], msgs[k][4]
            bc = bound_clause(ln, need, db)
            if bc:
                viol.append("message %d: %s" % (k, bc))
            if need > 2 * ln or ln == 0:
                st["former_f37_trigger"] = st.get("former_f37_trigger", 0) + 1
            if need > 0:
                if s2c != "ok":
                    viol.append("message %d (%d bytes, deflate output %d bytes, websocket_compress_bound %s): server->client %s" % (k, ln, need, bound, s2c))
                elif bound != "-" and int(bound) <= need:
                    viol.append("message %d: websocket_compress_bound (%s) is not larger than the deflate output (%d)" % (k, bound, need))
            else:
                st["zlib_refuses"] = st.get("zlib_refuses", 0) + 1
                if s2c != "fail:-1":
                    viol.append("message %d (%d bytes): zlib has no output for it (need=%d), the sender must report -1 and "
                                "send nothing, got %s" % (k, ln, need, s2c))
            if c2s != "ok":
                viol.append("message %d (%d bytes): client->server %s" % (k, ln, c2s))
        else:
            ab = res.get("abort")
            if ab is None:
                viol.append("message %d: no result" % k)
            else:
                viol.append("message %d (%d bytes): sanitizer abort %s %s at %s" % (k, ln, ab["kind"], ab["access"], ab["where"]))
            break
    return viol, st


def comp_level(line):
    return int(line.split()[1][1])


def eval_comp(line, payloads, res):
    """The sender clause on one comp observation (every zlib output, every destination size): a complete message or -1.
    Returns (violations, model lines, implementation answers in the model's format, stats)."""
    viol, mlines, answers, st = [], [], [], {}
    obs = res["obs"]
    lv = comp_level(line)
    if "nobounded" in obs:
        return ["websocket_compress_bounded()/websocket_compress_bound() are missing in this tree"], [], [], st
    msgs = COMP_MSG.findall(obs)
    for k, p in enumerate(payloads):
        n = len(p)
        if k >= len(msgs):
            ab = res.get("abort")
            viol.append("message %d (%d bytes): %s" % (k, n, "no result" if ab is None else
                                                    "sanitizer abort %s %s at %s" % (ab["kind"], ab["access"], ab["where"])))
            break
        full, db, bound, size, ret, outhex, tail, peer = msgs[k]
        db, size, ret = int(db), int(size), int(ret)
        answers.append("comp ret=%d out=%s tail=%s" % (ret, outhex, tail))
        if lv == 0:
            mlines.append("comp 0 %d %d %s" % (n, size, hx(p)))
            want = n if size >= n else -1
            if ret != want or (ret >= 0 and C.unhex(outhex) != p):
                viol.append("message %d: level 0, %d bytes into %d: ret=%d out=%s" % (k, n, size, ret, outhex))
            continue
        mlines.append("comp %d %d %d %s" % (lv, n, size, full))
        if full == "ERR":
            st["zlib_refuses"] = st.get("zlib_refuses", 0) + 1
            if ret != -1:
                viol.append("message %d: deflate() fails but ret=%d" % (k, ret))
            continue
        fullb = C.unhex(full)
        need = len(fullb)
        bc = bound_clause(n, need, db)
        if bc:
            viol.append("message %d: %s" % (k, bc))
        fits = need < size
        st["fits" if fits else "too_small"] = st.get("fits" if fits else "too_small", 0) + 1
        if need > 2 * n:
            st["former_f37_trigger"] = st.get("former_f37_trigger", 0) + 1
        if fits:
            if ret != need - 4 or tail != "1" or C.unhex(outhex) + TAIL != fullb:
                viol.append("message %d (%d bytes): zlib's %d bytes fit the destination of %d, but ret=%d tail=%s: not zlib's "
                            "output without its tail" % (k, n, need, size, ret, tail))
            elif peer != "ok":
                viol.append("message %d (%d bytes): the peer cannot inflate what was returned: %s" % (k, n, peer))
        elif ret != -1:
            viol.append("message %d (%d bytes): zlib's %d bytes do not leave room in the destination of %d (avail_out == 0: the "
                        "flush is cut off or not known to be complete), but ret=%d instead of -1" % (k, n, need, size, ret))
    return viol, mlines, answers, st


def shrink_list(sizes, still_fails):
    """Greedy: drop elements, then halve values."""
    cur = list(sizes)
    changed = True
    while changed:
        changed = False
        for i in range(len(cur)):
            t = cur[:i] + cur[i + 1:]
            if t and still_fails(t):
                cur, changed = t, True
                break
        if changed:
            continue
        for i in range(len(cur)):
            for v in (cur[i] // 2, cur[i] - 1):
                if 0 <= v < cur[i]:
                    t = cur[:i] + [v] + cur[i + 1:]
                    if still_fails(t):
                        cur, changed = t, True
                        break
            if changed:
                break
    return cur


def run(ctx, out):
    out.assumptions = list(ASSUMPTIONS)
    binp = build()
    maxmsg = int(C.cmake_defaults().get("CONFIG_MAX_MESSAGE_SIZE", "512"))
    model_ok = os.path.exists(C.drv_path("deflate"))
    cov = out.coverage
    hist = {}

    def bump(k, n=1):
        hist[k] = hist.get(k, 0) + n

    def model(lines):
        nonlocal model_ok
        if not model_ok:
            return None
        try:
            return run_model(lines)
        except Exception as ex:          # driver missing/stale after a failed build: go on with the implementation
            C.log("C19: model driver unusable: %r" % (ex,))
            model_ok = False
            return None

    traces = evals = 0
    nontrivial = set()

    # ------------------------------------------------------------------ 0. regression replays of the findings
    still_open = {}
    nreg = {}
    for f in C.known_findings("C19"):
        path = os.path.join(C.ROOT, f.get("replay", ""))
        if not os.path.isfile(path):
            continue
        lines = [l for l in open(path).read().splitlines() if l.strip() and not l.startswith("#")]
        res = run_impl(binp, lines)
        mod = model([l for l in lines if l.split()[0] in ("frags", "offer")])
        mi = 0
        for l, r in zip(lines, res):
            traces += 1
            bad = None
            op = l.split()[0]
            mline = None
            if op in ("frags", "offer") and mod is not None:
                mline = mod[mi]
                mi += 1
            if op == "rt":
                lens = [0 if w == "-" else len(w) // 2 for w in l.split()[4:]]
                v, _ = eval_rt(l, {"lens": lens}, r)
                if v:
                    bad = "; ".join(v)
            elif op == "comp":
                pl = [C.unhex(w) for w in l.split()[3:]]
                v, ml, ans, _ = eval_comp(l, pl, r)
                if v:
                    bad = "; ".join(v)
                elif ml:
                    mm = model(ml)
                    if mm is not None and [canon(x) for x in mm] != ans:
                        bad = "model and implementation differ"
                        mline = mm
            elif "abort" in r:
                bad = "sanitizer abort %s %s at %s" % (r["abort"]["kind"], r["abort"]["access"], r["abort"]["where"])
            elif op == "frags" and "contig=1" not in r["obs"]:
                bad = "reassembled data not contiguous"
            elif op == "dec" and "ret=" not in r["obs"]:
                bad = "no verdict"
            elif op in ("offer", "offerx"):
                try:
                    bad = offer_monitor(int(l.split()[1]), C.unhex(l.split()[2]), r["obs"])
                except Exception as ex:
                    bad = "unparsable answer: %r" % (ex,)
            if not bad and mline is not None and op in ("frags", "offer") and canon(mline) != canon(r["obs"]):
                bad = "model and implementation differ"
            if bad and f.get("status") == "fixed":
                nreg[f["id"]] = nreg.get(f["id"], 0) + 1
                if nreg[f["id"]] > 3:          # the first three lines are enough of a report
                    continue
                out.violation("regression scenario of fixed finding %s fails: %s" % (f["id"], bad),
                              {"property": "C19", "finding": f["id"], "script": [l], "variant": "default", "seed": ctx.seed,
                               "impl": r, "model": mline, "clause": bad})
            elif bad:
                still_open.setdefault(f["id"], []).append(l)
    for fid, ls in still_open.items():
        out.known_finding("%s directed replay reproduces (%d of its lines)" % (fid, len(ls)))

    # ------------------------------------------------------------------ 1. reassembly arithmetic
    flines, nex, alpha = gen_frags(ctx)
    fres = run_impl(binp, flines)
    fmod = model(flines)
    fbad = []
    for k, (l, r) in enumerate(zip(flines, fres)):
        traces += 1
        evals += 1
        toks = r["obs"].split()
        ncopies = sum(1 for t in toks if ":" in t)
        bump("frags.fragments", ncopies)
        if ncopies >= 2:
            nontrivial.add(("frags", tuple(t.split(":")[2] for t in toks if ":" in t)))
        clause = None
        if "abort" in r:
            clause = "memory: %s %s in %s" % (r["abort"]["kind"], r["abort"]["access"], r["abort"]["where"])
            bump("frags.abort")
        elif "contig=1" not in r["obs"]:
            clause = "fragments are not stored contiguously (data of the message lost)"
        differs = fmod is not None and canon(fmod[k]) != canon(r["obs"])
        if clause or differs:
            fbad.append((l, r, fmod[k] if fmod else None, clause))
    for (l, r, m, clause) in fbad[:3]:
        sizes = [int(x) for x in l.split()[1].split(",")] if l.split()[1] != "-" else []

        def fails(t):
            rr = run_impl_chunk(binp, ["frags " + ",".join(map(str, t))])[0]
            return ("abort" in rr) or ("contig=1" not in rr["obs"])
        if clause:
            small = shrink_list(sizes, fails)
            sl = "frags " + ",".join(map(str, small))
            rr = run_impl_chunk(binp, [sl])[0]
            mm = model([sl])
            out.violation("reassembly: " + clause,
                          {"property": "C19", "script": [sl], "original": l, "variant": "default", "seed": ctx.seed,
                           "impl": rr, "model": mm[0] if mm else None, "clause": clause,
                           "theorem": "reassemble_in_bounds / reassemble_contiguous"})
        else:
            # model and code differ: look for an input on which the property itself fails (round trip with these cuts)
            tot = sum(sizes) + 64
            p = payload_of("rand", tot, C.rng("c19-frag-confirm", l))
            rl = "rt L3:15:0:15:0 comp %s %s" % (",".join(map(str, sizes)) or "-", hx(p))
            rr = run_impl_chunk(binp, [rl])[0]
            v, _ = eval_rt(rl, {"lens": [tot]}, rr)
            out.violation("reassembly: model and implementation differ" + ("; round trip fails: " + v[0] if v else ""),
                          {"property": "C19", "script": [l, rl], "variant": "default", "seed": ctx.seed, "impl": [r, rr], "model": m,
                           "clause": v[0] if v else None, "theorem": "correspondence of Cjet.Deflate.run with reassemble()"},
                          no_input=not v)
    cov["frags"] = {"ops": len(flines), "exhaustive_sequences": nex, "alphabet": alpha, "max_len": 4,
                    "disagreements": len(fbad)}

    # ------------------------------------------------------------------ 2. negotiation
    offers = gen_offers(ctx)
    olines = ["offer %d %s%s" % (lv, hx(v), (" " + hx(a)) if a is not None else "") for lv, v, a, _ in offers]
    ores = run_impl(binp, olines)
    omod = model(olines)
    obad = []
    maxresp = 0
    for k, ((lv, v, a, fam), l, r) in enumerate(zip(offers, olines, ores)):
        traces += 1
        evals += 1
        bump("offer." + fam)
        clause = None
        if "abort" in r:
            clause = "memory: %s %s in %s" % (r["abort"]["kind"], r["abort"]["access"], r["abort"]["where"])
        else:
            try:
                clause = offer_monitor(lv, v, r["obs"])
            except Exception as ex:
                clause = "unparsable answer: %r" % (ex,)
            f = dict(t.split("=", 1) for t in r["obs"].split()[1:] if "=" in t)
            if f.get("acc") == "1":
                bump("offer.accepted")
                maxresp = max(maxresp, len(C.unhex(f["resp"])))
                nontrivial.add(("offer", f["resp"], lv))
            else:
                bump("offer.declined")
        differs = omod is not None and canon(omod[k]) != canon(r["obs"])
        if clause or differs:
            obad.append((k, clause, differs))
    for (k, clause, differs) in obad[:3]:
        lv, v, a, fam = offers[k]
        # shrink the offer text while the same kind of failure stays

        def fails(bs):
            ll = "offer %d %s%s" % (lv, hx(bytes(bs)), (" " + hx(a)) if a is not None else "")
            rr = run_impl_chunk(binp, [ll])[0]
            if "abort" in rr:
                return bool(clause)
            if clause:
                try:
                    return offer_monitor(lv, bytes(bs), rr["obs"]) is not None
                except Exception:
                    return True
            mm = model([ll])
            return mm is not None and canon(mm[0]) != canon(rr["obs"])
        cur = list(v)
        changed = True
        while changed and len(cur) > 1:
            changed = False
            for span in (len(cur) // 2, 8, 1):
                if span < 1:
                    continue
                i = 0
                while i + span <= len(cur):
                    t = cur[:i] + cur[i + span:]
                    if fails(t):
                        cur, changed = t, True
                    else:
                        i += span
        sv = bytes(cur)
        ll = "offer %d %s%s" % (lv, hx(sv), (" " + hx(a)) if a is not None else "")
        rr = run_impl_chunk(binp, [ll])[0]
        mm = model([ll])
        out.violation("negotiation: " + (clause or "model and implementation differ"),
                      {"property": "C19", "script": [ll], "offer_text": sv.decode("latin-1"), "original": olines[k],
                       "level": lv, "variant": "default", "seed": ctx.seed, "impl": rr, "model": mm[0] if mm else None,
                       "clause": clause, "theorem": "response_params_legal / response_len_le_buffer"},
                      no_input=not clause)
    cov["offers"] = {"ops": len(olines), "max_response_len": maxresp, "buffer": 129, "disagreements": len(obad)}

    # ------------------------------------------------------------------ 2b. the same offers in exactly sized buffers (F38)
    xlines = ["offerx %d %s" % (lv, hx(v)) for lv, v, a, _ in offers]
    xres = run_impl(binp, xlines)
    xbad = []
    for k, (l, r) in enumerate(zip(xlines, xres)):
        traces += 1
        evals += 1
        if "abort" in r:
            xbad.append((k, "memory: %s %s in %s (a read behind the header value)" % (r["abort"]["kind"], r["abort"]["access"],
                                                                                     r["abort"]["where"])))
        elif "abort" not in ores[k] and canon(r["obs"]) != canon(ores[k]["obs"]):
            xbad.append((k, "the answer depends on the memory behind the header value"))
    for (k, clause) in xbad[:3]:
        lv, v, a, fam = offers[k]

        def xfails(bs):
            rr = run_impl_chunk(binp, ["offerx %d %s" % (lv, hx(bytes(bs))),
                                       "offer %d %s%s" % (lv, hx(bytes(bs)), (" " + hx(a)) if a is not None else "")])
            return "abort" in rr[0] or canon(rr[0]["obs"]) != canon(rr[1]["obs"])
        cur = list(v)
        changed = True
        while changed and len(cur) > 1:
            changed = False
            for span in (len(cur) // 2, 8, 1):
                if span < 1:
                    continue
                i = 0
                while i + span <= len(cur):
                    t = cur[:i] + cur[i + span:]
                    if t and xfails(t):
                        cur, changed = t, True
                    else:
                        i += span
        sv = bytes(cur)
        ll = ["offerx %d %s" % (lv, hx(sv)), "offer %d %s%s" % (lv, hx(sv), (" " + hx(a)) if a is not None else "")]
        rr = run_impl_chunk(binp, ll)
        out.violation("negotiation: " + clause,
                      {"property": "C19", "script": ll, "offer_text": sv.decode("latin-1"), "original": xlines[k], "level": lv,
                       "variant": "default", "seed": ctx.seed, "impl": rr, "clause": clause,
                       "theorem": "offer_parse_reads_in_bounds"})
    # the model's own account of the reads, on the directed families
    rk = [k for k, o in enumerate(offers) if o[3] in ("ends", "over-read", "directed", "separators")]
    rm = model(["reads %d %s%s" % (offers[k][0], hx(offers[k][1]), (" " + hx(offers[k][2])) if offers[k][2] is not None else "")
                for k in rk])
    if rm is not None:
        for k, m in zip(rk, rm):
            if "ok=1" not in m:
                out.violation("model: fillReads leaves the header value", {"property": "C19", "script": [olines[k]], "model": m,
                                                                           "theorem": "offer_parse_reads_in_bounds"}, no_input=True)
                break
    cov["offers_exact"] = {"ops": len(xlines), "failing": len(xbad), "model_reads_checked": len(rk) if rm is not None else 0}

    # ------------------------------------------------------------------ 3. round trips (implementation, direct)
    rts = gen_rt(ctx, maxmsg)
    rlines = [l for l, _ in rts]
    rres = run_impl(binp, rlines, chunk=40)
    rbad = []
    rstats = {}
    nmsgs = 0
    for (l, meta), r in zip(rts, rres):
        traces += 1
        v, st = eval_rt(l, meta, r)
        for kk, vv in st.items():
            rstats[kk] = rstats.get(kk, 0) + vv
        nmsgs += len(meta["lens"])
        evals += 2 * len(meta["lens"])
        bump("rt.mode." + meta["mode"])
        bump("rt.fragmented" if meta["cuts"] != "-" else "rt.whole")
        for n in meta["lens"]:
            bump("rt.len<6" if n < 6 else "rt.len<=%d" % maxmsg if n <= maxmsg else "rt.len>%d" % maxmsg)
        if "noaccept" in r["obs"]:
            bump("rt.noaccept")
        nontrivial.add(("rt", meta["setup"], meta["mode"], meta["cuts"], tuple(meta["lens"])))
        if v:
            rbad.append((l, meta, r, v))
    for (l, meta, r, v) in rbad[:3]:
        # shrink: single message, shorter payload
        w = l.split()
        best = (l, r, v)
        for k in range(len(meta["lens"])):
            cand = " ".join(w[:4] + [w[4 + k]])
            rr = run_impl_chunk(binp, [cand])[0]
            vv, _ = eval_rt(cand, {"lens": [meta["lens"][k]]}, rr)
            if vv:
                best = (cand, rr, vv)
                break
        out.violation("round trip: " + best[2][0],
                      {"property": "C19", "script": [best[0]], "original": l if best[0] != l else None, "variant": "default",
                       "seed": ctx.seed, "impl": best[1], "clause": best[2][0], "all_clauses": v,
                       "theorem": "roundtrip_given_zlib / roundtrip_session_given_zlib (bookkeeping; zlib assumed)"},
                      no_input=all("ASSUMPTION" in c for c in v))
    cov["round_trips"] = {"scenarios": len(rlines), "messages": nmsgs, "failing": len(rbad), "message_limit": maxmsg,
                          "messages_in_the_former_f37_trigger": rstats.get("former_f37_trigger", 0),
                          "messages_zlib_refuses": rstats.get("zlib_refuses", 0)}

    # ------------------------------------------------------------------ 3a. every presentation on the wire: control frames between fragments
    ils = gen_il(ctx, maxmsg)
    sc_path = os.path.join(C.ROOT, "scenarios", "C19-interleaved.txt")
    if os.path.isfile(sc_path):
        for l in open(sc_path).read().splitlines():
            if l.startswith("il "):
                su, ms = il_parse(l)
                ils.insert(0, (su, ms, "scenario-file"))
    illines = [il_line(su, ms) for su, ms, _ in ils]
    ilres = run_impl(binp, illines, chunk=25)
    ilbad, ilstats = [], {}
    il_forms = []
    nil_msgs = nil_ctl = 0
    for (su, ms, fam), l, r in zip(ils, illines, ilres):
        traces += 1
        v, forms, st = eval_il(su, ms, r)
        for kk, vv in st.items():
            ilstats[kk] = ilstats.get(kk, 0) + vv
        il_forms.append(forms)
        nil_msgs += len(ms)
        evals += len(ms)
        bump("il." + fam)
        for m in ms:
            n_ = il_nfr(m)
            bump("il.msg." + m["k"] + (".fragmented" if n_ > 1 else ".whole"))
            for pos, kk, pl in m["ctl"]:
                nil_ctl += 1
                bump("il.ctl.%s.%s" % (kk, "front" if pos == 0 else "behind" if pos >= n_ else "between"))
        nontrivial.add(("il", su, tuple((m["k"], tuple(m["cuts"] or ()), tuple((pos, kk, len(pl)) for pos, kk, pl in m["ctl"]), len(m["p"]))
                                        for m in ms)))
        if v:
            ilbad.append((su, ms, l, r, v))
    # the same frames through the model
    il_mlines, il_midx = [], []
    for k, ((su, ms, fam), forms) in enumerate(zip(ils, il_forms)):
        if forms and forms[0] is not None:
            il_mlines.append(il_model_line(ms, forms))
            il_midx.append(k)
    il_mod = model(il_mlines)
    il_diff = []
    if il_mod is not None:
        for k, ml, mo in zip(il_midx, il_mlines, il_mod):
            if canon(mo) != canon("il " + il_impl_tokens(il_forms[k])):
                il_diff.append((k, ml, mo))
    for (su, ms, l, r, v) in ilbad[:3]:
        small = il_shrink(binp, su, ms)
        sl = il_line(su, small)
        rr = run_impl_chunk(binp, [sl])[0]
        vv, forms, _ = eval_il(su, small, rr)
        if not vv:                       # the shrunk script does not fail on its own run: report the original
            small, sl, rr, vv, forms = ms, l, r, v, None
        mm = None
        if forms and forms[0] is not None:
            mm = model([il_model_line(small, forms)])
        out.violation("round trip with control frames between the fragments: " + vv[0],
                      {"property": "C19", "script": [sl], "original": l if sl != l else None, "variant": "default", "seed": ctx.seed,
                       "impl": rr, "model": mm[0] if mm else None, "clause": vv[0], "all_clauses": vv[:6],
                       "messages": [il_describe(m) for m in small],
                       "theorem": "roundtrip_interleaved_given_zlib / roundtrip_session_interleaved_given_zlib (Cjet.Deflate.handleFrame; "
                                  "zlib assumed)"})
    if not ilbad:
        for (k, ml, mo) in il_diff[:3]:
            su, ms, fam = ils[k]
            out.violation("frame dispatch in front of the decompressor: model and implementation differ",
                          {"property": "C19", "script": [illines[k]], "model_script": ml[:4000], "variant": "default", "seed": ctx.seed,
                           "impl": ilres[k], "model": mo, "theorem": "correspondence of Cjet.Deflate.handleFrame with ws_handle_frame "
                           "(roundtrip_interleaved_given_zlib, dispatch_memory_safe)"}, no_input=True)
    cov["interleaved"] = {"scenarios": len(illines), "messages": nil_msgs, "control_frames": nil_ctl,
                          "control_frames_between_fragments": ilstats.get("ctl_between", 0),
                          "compressed_fragmented_messages_with_a_control_frame_between_fragments":
                              ilstats.get("compressed_fragmented_with_ctl_between", 0),
                          "failing": len(ilbad), "compared_with_model": len(il_mlines) if il_mod is not None else 0,
                          "model_disagreements": len(il_diff)}

    # ------------------------------------------------------------------ 3b. the compressor alone, against its clause and the model
    comps = gen_comp(ctx)
    klines = [l for l, _ in comps]
    kres = run_impl(binp, klines, chunk=200)
    kbad = []
    kstats = {}
    mall, mslices, answers_all = [], [], []
    for (l, pl), r in zip(comps, kres):
        traces += 1
        v, ml, ans, st = eval_comp(l, pl, r)
        evals += len(pl)
        for kk, vv in st.items():
            kstats[kk] = kstats.get(kk, 0) + vv
        bump("comp.dest." + l.split()[2][0])
        mslices.append((len(mall), len(ml)))
        mall += ml
        answers_all.append(ans)
        nontrivial.add(("comp", l.split()[1], l.split()[2], tuple(len(p) for p in pl)))
        if v:
            kbad.append((l, r, None, v[0]))
    kmod = model(mall)
    if kmod is not None:
        for ((l, pl), r, (a, cnt), ans) in zip(comps, kres, mslices, answers_all):
            mm = [canon(x) for x in kmod[a:a + cnt]]
            if mm != ans and not any(b[0] == l for b in kbad):
                kbad.append((l, r, mm, None))
    for (l, r, m, clause) in kbad[:3]:
        # shrink to the first failing message when it fails on its own
        w = l.split()
        best = (l, r)
        if clause:
            for k in range(3, len(w)):
                cand = " ".join(w[:3] + [w[k]])
                rr = run_impl_chunk(binp, [cand])[0]
                vv, _, _, _ = eval_comp(cand, [C.unhex(w[k])], rr)
                if vv:
                    best, clause = (cand, rr), vv[0]
                    break
        out.violation("sender: " + (clause or "model and implementation differ"),
                      {"property": "C19", "script": [best[0]], "original": l if best[0] != l else None, "variant": "default",
                       "seed": ctx.seed, "impl": best[1], "model": m, "clause": clause,
                       "theorem": "compress_never_truncates / compress_no_oob_for_any_zlib_output (Cjet.Deflate.compress)"},
                      no_input=(not clause) or "ASSUMPTION" in clause)
    cov["compress"] = {"ops": len(klines), "messages": sum(len(pl) for _, pl in comps), "compared_with_model": len(mall),
                       "failing": len(kbad), "destination_larger_than_output": kstats.get("fits", 0),
                       "destination_too_small": kstats.get("too_small", 0), "zlib_refuses": kstats.get("zlib_refuses", 0),
                       "messages_in_the_former_f37_trigger": kstats.get("former_f37_trigger", 0)}

    # ------------------------------------------------------------------ 4. corrupt streams
    clines = gen_corrupt(ctx)
    cres = run_impl(binp, clines, chunk=200)
    cbad = []
    for l, r in zip(clines, cres):
        traces += 1
        evals += 1
        if "abort" in r:
            cbad.append((l, r))
            continue
        m = re.search(r"ret=(\w+)", r["obs"])
        same = "same=1" in r["obs"]
        bump("corrupt." + (m.group(1) if m else "none") + (".same" if same else ""))
    for (l, r) in cbad[:3]:
        out.violation("corrupt stream: sanitizer abort %s %s in %s" % (r["abort"]["kind"], r["abort"]["access"], r["abort"]["where"]),
                      {"property": "C19", "script": [l], "variant": "default", "seed": ctx.seed, "impl": r,
                       "clause": "malformed compressed input must be handled without touching memory outside its buffers"})
    cov["corrupt"] = {"ops": len(clines), "aborts": len(cbad)}

    # ------------------------------------------------------------------ 5. model-only: output loop bookkeeping
    if model_ok:
        ol = ["outloop %d %d" % (t, n) for t in (0, 1, 19, 20, 21, 40, 41, 1000, 12345) for n in (1, 2, 50)]
        om = model(ol)
        if om is not None:
            for l, m in zip(ol, om):
                if "have=%s " % l.split()[1] not in m + " ":
                    out.violation("model: output loop bookkeeping", {"property": "C19", "script": [l], "model": m},
                                  no_input=True)

    # ------------------------------------------------------------------ evidence
    cov.update({
        "traces_validated_against_impl": traces,
        "evaluations": evals,
        "distinct_nontrivial": len(nontrivial),
        "rule": "distinct (capacity sequence with >= 2 copies) for frags, distinct accepted (response, level) for offers, "
                "distinct (setup, mode, cuts, payload lengths) for round trips, distinct (setup, per message kind / cuts / control frames / length) "
                "for the interleaved round trips",
        "histogram": dict(sorted(hist.items())),
        "exhaustive": True,
        "exhaustive_what": "frags: every sequence of length <= 4 over the size alphabet %r (%d sequences); offers: every subset of the "
                           "four parameters with the listed window values%s; single-bit flips and truncations of one stream" % (
                               alpha, nex, " in every order" if ctx.thorough else " (orders sampled in the quick tier)"),
        "samples": [flines[nex + 3] if len(flines) > nex + 3 else "", olines[7], olines[-1][:200], rlines[0][:200], clines[0][:200],
                    illines[len(illines) // 3][:300], illines[-1][:300]],
        "model_driver_used": bool(model_ok),
        "level_note": "PARTIAL: bookkeeping, sender safety and negotiation proved; zlib assumed (hTail, hInv, hBound); losslessness sampled",
    })
    if not model_ok and ctx.lean_ok:
        out.violation("model driver drv_deflate not available", {"property": "C19", "broken": "drv_deflate"}, no_input=True)


def replay(d):
    """./check C19 --replay <file>: re-run the script of a replay object on the tree as it is now; 1 = still fails."""
    binp = build()
    bad = 0
    for l in d.get("script") or []:
        r = run_impl_chunk(binp, [l])[0]
        print(l[:400])
        print("  ->", r["obs"][:1200])
        op = l.split()[0]
        v = None
        if op == "il":
            su, ms = il_parse(l)
            v, _, _ = eval_il(su, ms, r)
        elif op == "rt":
            v, _ = eval_rt(l, {"lens": [0 if w == "-" else len(w) // 2 for w in l.split()[4:]]}, r)
        elif "abort" in r:
            v = ["sanitizer abort %s %s at %s" % (r["abort"]["kind"], r["abort"]["access"], r["abort"]["where"])]
        if v is None:
            print(json.dumps(d, indent=1)[:3000])
            print("this replay names a broken proof obligation or correspondence; re-run ./check C19 to see whether it still breaks")
            return 1
        for c in v:
            print("  FAILS:", c)
        bad += bool(v)
    return 1 if bad else 0
