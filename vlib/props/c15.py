"""C15 — any single allocation failure is survived.

Proof side (partial, see DESIGN.md): Cjet.Props.C15 — the unwinding ladders of the creation paths, transcribed as data and
proved leak-free / double-release-free for EVERY failure point, plus at-most-one-response.  The C unwinding itself is
ENUMERATED on the real daemon: for each scenario of a corpus covering every request type and teardown path, every
allocation performed during the run is made to fail in turn (single-fault enumeration), plus seeded multi-fault runs;
ASan/UBSan/LSan, the accounted heap, the peer count, the descriptor table and a liveness probe judge each run."""
import collections
import time
from concurrent.futures import ProcessPoolExecutor

from vlib import common as C
from vlib import daemon as D
from vlib import dcheck, directed, simk, gen_daemon
from vlib import simlog as L
from vlib.daemon import obj, Scenario
from vlib import monitors as M

LEVEL = "proof"


def corpus():
    out = []
    pop = directed.population()
    out.append(Scenario(pop + [
        ("msg", 1, obj(method="get", params=obj(path=obj(startsWith="s")), id=5)),
        ("msg", 0, obj(method="change", params=obj(path="s", value=[1, 2, obj(k="v")]), id=6)),
        ("reply", 0, 0, "result", obj(ok=True)),
        ("reply", 0, 1, "error", obj(code=1, message="no")),
        ("msg", 2, obj(method="fetch", params=obj(id="f2", path=obj(contains="s", caseInsensitive=True, containsAllOf=["s", "S"])), id=8)),
        ("msg", 2, obj(method="unfetch", params=obj(id="f2"), id=9)),
        ("msg", 0, obj(method="config", params=obj(name="owner"), id=7)),
        ("msg", 0, obj(method="remove", params=obj(path="fo"), id=8)),
        ("msg", 2, [obj(method="info", id=1), obj(method="add", params=obj(path="late", value=0), id=2), obj(method="info")]),
        ("advance", 6 * 10 ** 9), ("quiesce",), ("eof", 0), ("eof", 1), ("eof", 2), ("quiesce",)], name="c15-all-requests"))
    out.append(Scenario(pop + [("eof", 0), ("quiesce",), ("eof", 2), ("eof", 1), ("quiesce",)], name="c15-owner-leaves-first"))
    out.append(Scenario(pop + [("msg", 2, b"{garbage"), ("quiesce",), ("rst", 1), ("err", 0), ("quiesce",)], name="c15-error-paths"))
    out.append(Scenario(pop, name="c15-term-with-work-in-flight"))
    users = [{"name": "alice", "password": "pw-alice", "auth": obj(fetchGroups=["g0"], setGroups=["g0"], callGroups=["g0"]), "readonly": False, "admin": True}]
    out.append(Scenario([("connect", 0, "raw", "local6"), ("connect", 1, "ws", "remote6"),
                         ("msg", 0, obj(method="authenticate", params=obj(user="alice", password="pw-alice"), id=1)),
                         ("msg", 0, obj(method="authenticate", params=obj(user="alice", password="pw-alice"), id=2)),
                         ("msg", 0, obj(method="add", params=obj(path="s", value=1, access=obj(fetchGroups=["g0"], setGroups=["g0"])), id=3)),
                         ("msg", 1, obj(method="authenticate", params=obj(user="alice", password="nope"), id=1)),
                         ("msg", 1, obj(method="fetch", params=obj(id=1), id=2)),
                         ("msg", 0, obj(method="passwd", params=obj(user="alice", password="new1"), id=4)),
                         ("quiesce",), ("eof", 0), ("eof", 1), ("quiesce",)], users=users, name="c15-auth"))
    # more fetches on one state than the initial fetcher table holds (growth), both orders: fetch after add and add after fetches
    st = [("connect", 0, "raw", "local6"), ("connect", 1, "raw", "remote6"), ("connect", 2, "ws", "remote6"),
          ("msg", 0, obj(method="add", params=obj(path="grow", value=1), id=1))]
    for i in range(6):
        st.append(("msg", 1 + (i % 2), obj(method="fetch", params=obj(id="g%d" % i, path=obj(startsWith="gr")), id=10 + i)))
    st += [("msg", 0, obj(method="add", params=obj(path="grow2", value=2), id=2)),
           ("msg", 0, obj(method="change", params=obj(path="grow", value=3), id=3)),
           ("msg", 1, obj(method="unfetch", params=obj(id="g0"), id=30)),
           ("msg", 0, obj(method="remove", params=obj(path="grow2"), id=4)),
           ("quiesce",), ("eof", 1), ("eof", 0), ("eof", 2), ("quiesce",)]
    out.append(Scenario(st, name="c15-fetcher-table-growth"))
    # rendered messages longer than the printer's first buffer (answers, notifications, routed requests with long values)
    big = "v" * 300
    out.append(Scenario([("connect", 0, "raw", "local6"), ("connect", 1, "ws", "remote6"),
                         ("msg", 1, obj(method="fetch", params=obj(id="f"), id=1)),
                         ("msg", 0, obj(method="add", params=obj(path="big", value=big), id=1)),
                         ("msg", 0, obj(method="add", params=obj(path="m"), id=2)),
                         ("msg", 0, obj(method="change", params=obj(path="big", value=[big, big]), id=3)),
                         ("msg", 1, obj(method="set", params=obj(path="big", value=big + "w"), id="r1")),
                         ("msg", 1, obj(method="call", params=obj(path="m", args=[big]), id="r2")),
                         ("reply", 0, 0, "result", big), ("reply", 0, 1, "error", obj(code=1, message=big)),
                         ("msg", 1, obj(method="get", params=obj(), id=4)),
                         ("msg", 0, obj(method="remove", params=obj(path="big"), id=4)),
                         ("quiesce",), ("eof", 1), ("eof", 0), ("quiesce",)], name="c15-long-values"))
    for sc in directed.regressions():
        if sc.variant == "default" and not any(st[0] == "raw" for st in sc.steps):
            sc.name = "c15-" + sc.name
            out.append(sc)
    return out


def probe_steps(sc):
    """a fresh connection asks for info at the end: the daemon must still serve"""
    n = 1 + max([st[1] for st in sc.steps if st[0] in ("connect", "connect_http")] + [0])
    # two probes: a failure that fires inside the first one may cost that request; the second must then be served
    return [("quiesce",), ("connect", n, "raw", "local6"), ("msg", n, obj(method="info", id="alive1")), ("eof", n),
            ("connect", n + 1, "raw", "local6"), ("msg", n + 1, obj(method="info", id="alive")), ("quiesce",), ("eof", n + 1), ("quiesce",)], n + 1


def one(job):
    idx, scj, nfail, extra = job
    sc = Scenario.from_json(scj)
    tail, pconn = probe_steps(sc)
    sc2 = Scenario(sc.steps + tail, sc.variant, sc.users, sc.groups, sc.name)
    lines, smap = D.simk_script(sc2)
    pre = ["ALLOCFAIL %d" % nfail] if nfail else []
    # multi-fault: further failures are armed after the first fired (simk arms one at a time): interleave later in the script
    script = pre + lines
    own = len(pre) + sum(1 for x in smap if x < len(sc.steps))     # lines that belong to the scenario proper (not the probes)
    for pos, k in extra:
        script.insert(min(own, 1 + pos), "ALLOCFAIL %d" % k)
    args = []
    pw = None
    if sc.users:
        sc2.groups = dcheck.groups_in_file_order(sc2)
        pw = dcheck.passwd_file(sc2)
        args = ["-p", pw]
    try:
        res = simk.run(dcheck.binary(sc.variant), script, args=args)
    finally:
        if pw:
            import os
            try:
                os.unlink(pw)
            except OSError:
                pass
    log = L.Log(res["lines"])
    fails = []
    if res["sanitizer"]:
        fails.append("sanitizer: " + res["sanitizer"])
    for f in log.faults:
        fails.append("hygiene: " + f[:140])
    fired = any(l.startswith("ALLOCFAILED") for l in res["lines"])
    if log.runio_ret != 0:
        fails.append("event loop ended (run_io returned %s)" % log.runio_ret)
    fin = log.final
    # with a credential file the accounted heap legitimately differs from the baseline after a password change (the global
    # user table changed size); the total after free_passwd_data (EXIT line) is judged instead
    heap_ok = (lambda h: True) if sc.users else (lambda h: h == 0)
    if fin is not None and (fin["peers"] != 0 or not heap_ok(fin["heap"]) or fin["fds"] or fin["armed"]):
        fails.append("not at baseline after shutdown: peers=%d heap=%d fds=%s armed=%s" % (fin["peers"], fin["heap"], fin["fds"], fin["armed"]))
    if log.exit_heap not in (0, None):
        fails.append("accounted heap at exit is %d" % log.exit_heap)
    if log.snaps:
        last = log.snaps[-1]
        if last["peers"] != 0 or not heap_ok(last["heap"]) or last["fds"] or last["armed"]:
            # connections the scenario left open are closed by TERM; only judge when the scenario closed everything
            if all(c.closed and c.close_step is not None and c.close_step <= last["step"] for c in log.conns.values() if c.accepted):
                fails.append("accounting not back at baseline once all connections closed: peers=%d heap=%d fds=%s armed=%s" % (
                    last["peers"], last["heap"], last["fds"], last["armed"]))
    pc = log.conns.get(pconn)
    if pc is None or b'"alive"' not in pc.out:
        # an injected failure that fires inside the LAST probe may cost that request (multi-fault runs arm several)
        step, late = -1, False
        for l in res["lines"]:
            if l.startswith("STEP "):
                step = int(l.split(" ")[1])
            elif l.startswith("ALLOCFAILED") and step >= len(script) - 5:
                late = True
        if not late:
            fails.append("the daemon no longer serves new connections after the failure")
    # a request refused because of the failure must leave every element as it was (C04 under faults): every element the daemon
    # holds at a snapshot has the kind it was added with and a value it was given by an add or change of the scenario
    kinds, values = {}, {}
    for st in sc2.steps:
        for c, top in M.step_requests(st):
            if top is None:
                continue
            for r in M.flatten_requests(top)[0]:
                m, params = D.cget(r, b"method"), D.cget(r, b"params")
                if m in (b"add", b"change") and D.is_obj(params) and isinstance(D.cget(params, b"path"), bytes):
                    pth = D.cget(params, b"path")
                    has_v = any(k.lower() == b"value" for k, _ in params[1])
                    if m == b"add":
                        kinds.setdefault(pth, set()).add("state" if has_v else "method")
                    if has_v:
                        values.setdefault(pth, []).append(D.cget(params, b"value"))
    for sn in log.snaps:
        for e in sn["elems"]:
            kd = "state" if e["value"] != "~" else "method"
            if e["path"] in kinds and kd not in kinds[e["path"]]:
                fails.append("element %s was added as a %s but is now a %s" % (D.show(e["path"]), "/".join(sorted(kinds[e["path"]])), kd))
            elif kd == "state" and e["path"] in values:
                try:
                    v = D.canon_text(C.unhex(e["value"]))
                    if v not in values[e["path"]]:
                        fails.append("element %s holds the value %s which no add or change gave it" % (D.show(e["path"]), D.show(v)[:80]))
                except Exception:
                    pass
    # at most one response per request id and step
    itr = D.ImplTrace(sc2, log, [0] * len(pre) + smap if not extra else None) if not extra else None
    if itr is not None:
        # over the whole run a request id of a connection is answered at most as often as it was used (a second, late answer —
        # timeout or shutdown for a request that already got its error — is a violation)
        want = collections.Counter()
        seen = collections.Counter()
        for si in range(len(sc2.steps)):
            for c, top in M.step_requests(sc2.steps[si], itr.replies, si):
                if top is None:
                    continue
                rs, _ = M.flatten_requests(top)
                for r in rs:
                    if M.is_id(D.cget(r, b"id")) and D.cget(r, b"method") is not None:
                        want[(c, repr(D.cget(r, b"id")))] += 1
            for d, ok, v in M.step_sends({"itr": itr}, si):
                if not (isinstance(v, tuple) and v and v[0] == "unparsable") and M.is_response(v) and M.is_id(D.cget(v, b"id")):
                    # (a response that lost its id member because the member could not be attached is F60's business)
                    seen[(d, repr(D.cget(v, b"id")))] += 1
        for key, n in seen.items():
            if n > want.get(key, 0):
                fails.append("request id %s of c%d got %d responses for %d requests" % (key[1], key[0], n, want.get(key, 0)))
    site = []
    sites = []
    import re
    for blk in res["stderr"].split("ALLOCFAILED-STACK-BEGIN")[1:]:
        blk = blk.split("ALLOCFAILED-STACK-END", 1)[0]
        one_site = []
        for m in re.finditer(r" in (\S+) (\S+)", blk):
            fn, where = m.group(1), m.group(2)
            if fn.startswith(("__wrap_", "__sanitizer", "__interceptor")) or fn in ("alloc_should_fail", "cjet_malloc", "cjet_calloc") or (C.SRC not in where and "/src/" not in where):
                continue
            one_site.append(fn)
        sites.append(one_site[:6])
    # the call stack that matters for classification: a key copy inside add_item_to_object if any injected failure hit one
    site = next((x for x in sites if "add_item_to_object" in x), sites[0] if sites else [])
    before_probe = [sn for sn in log.snaps if 0 <= sn["step"] - len(pre) < len(smap) and smap[sn["step"] - len(pre)] == len(sc.steps)] if not extra else []
    return {"idx": idx, "name": sc.name, "nfail": nfail, "fails": fails, "fired": fired, "site": site[:6], "multi": bool(extra),
            "allocs_before_probe": before_probe[0]["allocs"] if before_probe else 0, "allocs": (log.final or {}).get("allocs", 0),
            "script": script if fails else None, "stderr": res["stderr"][-3000:] if fails else ""}


def run(ctx, out):
    t0 = time.time()
    scs = corpus()
    for v in set(s.variant for s in scs):
        dcheck.binary(v)
    # baseline runs: how many allocations does each scenario perform?
    base = []
    with ProcessPoolExecutor(C.NPROC) as ex:
        for r in ex.map(one, [(i, sc.to_json(), 0, []) for i, sc in enumerate(scs)]):
            base.append(r)
    jobs = []
    bad = [r for r in base if r["fails"]]
    stride = 1          # every allocation index in both tiers (a defect on ONE unwinding path is hit by one index only)
    for i, (sc, b) in enumerate(zip(scs, base)):
        off = (ctx.seed + i) % stride
        for n in range(1 + off, b["allocs_before_probe"] + 2, stride):
            jobs.append((i, sc.to_json(), n, []))
    rr = C.rng("C15", "multi")
    nmulti = 600 if ctx.thorough else 60
    for j in range(nmulti):
        i = rr.randrange(len(scs))
        jobs.append((i, scs[i].to_json(), rr.randrange(1, max(2, base[i]["allocs_before_probe"])),
                     [(rr.randrange(1, 30), rr.randrange(1, 40)) for _ in range(rr.randrange(1, 4))]))
    fired = 0
    results = []
    with ProcessPoolExecutor(C.NPROC) as ex:
        for r in ex.map(one, jobs, chunksize=8):
            results.append(r)
            fired += 1 if r["fired"] else 0
            if r["fails"]:
                bad.append(r)
    # known finding F60 (open): the injected failure hit cJSON's key copy inside add_item_to_object and nothing but unreleased
    # memory follows; anything else is a violation
    kf = [e for e in C.open_findings("C15") if e["id"] == "F60"]
    leak_only = ("sanitizer: ERROR: LeakSanitizer", "not at baseline after shutdown", "accounting not back at baseline", "accounted heap at exit")
    known, other = [], []
    for r in bad:
        if kf and "add_item_to_object" in r.get("site", []) and all(f.startswith(leak_only) for f in r["fails"]):
            known.append(r)
        else:
            other.append(r)
    if known:
        ex = known[0]
        out.known_finding("F60 cJSON_AddItemToObject's result is never checked: a failing key copy leaks the item (%d of %d injected failures in this run hit it, e.g. %s ALLOCFAIL %d in %s)" % (
            len(known), len(results), ex["name"], ex["nfail"], "<".join(ex["site"][:4])))
    bad = other
    for r in bad[:4]:
        out.violation("allocation failure %s in scenario %s (failing allocation in %s): %s" % (r["nfail"], r["name"], "<".join(r.get("site", [])[:4]), "; ".join(r["fails"][:3])),
                      {"property": "C15", "scenario": r["name"], "alloc_failure_index": r["nfail"], "failing_allocation_call_stack": r.get("site"), "multi_fault": r.get("multi"), "simk_script": r["script"],
                       "failures": r["fails"], "sanitizer_stderr": r["stderr"]})
    out.coverage.update({
        "evaluations": len(results) + len(base),
        "distinct_nontrivial": fired,
        "rule": "single-fault enumeration: scenario x index of the failing allocation (every index, both tiers); "
                "a run is non-trivial when the injected failure actually fired; plus seeded multi-fault runs",
        "samples": [{"scenario": s.name, "allocations_in_fault_free_run": b["allocs_before_probe"], "first_steps": [repr(x)[:120] for x in s.steps[:4]]} for s, b in list(zip(scs, base))[:5]],
        "faults_fired": fired,
        "scenarios": len(scs),
        "failing_runs": len(bad),
        "known_finding_runs": len(known),
        "traces_validated_against_impl": len(results),
        "tie_wall_s": round(time.time() - t0, 1),
    })
    # unwinding of run_io under every failure position (real linux_io.c against Cjet.Startup and its goto ladders)
    from vlib import startup_tie
    startup_tie.run_startup_tie(ctx, out)
    # cJSON_Duplicate under every allocation-failure index of every item (real cJSON.c against Cjet.Cjson.TreeOps)
    from vlib import cjsontree_tie
    cjsontree_tie.run_cjsontree_tie(ctx, out)
    out.assumptions += ["one C allocation does not map one-to-one to a model failure point (cJSON nodes): the enumeration judges the real code by crash/leak/hygiene/"
                        "liveness/at-most-one-response, the ladder theorems carry the unwinding logic",
                        "reduced-heap-cap runs are covered by the alloc component tie (C07)"]
