"""C01 — fetch replica.  Proof: Cjet.Props.C01; tie: simk vs model incl. fetcher tables; monitor: replica replay."""
from vlib import dcheck, directed

LEVEL = "proof"


def run(ctx, out):
    dcheck.run_property(ctx, out, "C01", "mon_c01", n_quick=300, n_thorough=5000,
                        gen_kw=dict(ws_share=0.35, batches=0.08, malformed=0.02, timers=False),
                        directed=directed.regressions() + directed.case_variants() + directed.equal_looking_values() + directed.colliding_paths() + directed.fetcher_table_churn())
    dcheck.run_more(ctx, out, "C01", "mon_c01", n_quick=120, n_thorough=1500,
                    gen_kw=dict(variant="small", ws_share=0.2, single=True, timers=False), tag="small")
    out.assumptions += ["cJSON duplication of values is trusted to be faithful", "visibility uses the group words the daemon itself holds (C08 checks those)"]
