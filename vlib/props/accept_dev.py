"""Stand-alone check of the Accept slice (linux_io.c acceptance path): `./check accept_dev --tier quick|thorough`.
The audit covers lean/Cjet/Props/ACCEPT_DEV.lean (every theorem of Cjet.Props.Accept restated); the tie is
vlib/accept_tie.py, which the C07 and C11 checks call as well."""
from vlib import accept_tie

LEVEL = "proof"
DRIVERS = ["accept"]


def run(ctx, out):
    r = accept_tie.run_accept_tie(ctx, out)
    cov = out.coverage
    cov["traces_validated_against_impl"] = cov.get("accept_traces_validated_against_impl", 0)
    cov["evaluations"] = cov.get("accept_evaluations", 0)
    cov["distinct_nontrivial"] = cov.get("accept_distinct_nontrivial", 0)
    cov["rule"] = cov.get("accept_distinct_nontrivial_rule")
    cov["exhaustive"] = bool(cov.get("accept_exhaustive"))
    cov["samples"] = cov.get("accept_samples")
    return r


def replay(d):
    return accept_tie.replay(d)
