"""C14 — routed-request deadlines.  Proof: Cjet.Props.C14 (precedence, refusals, itimerspec arithmetic, one outcome,
batch safety of the event loop); tie: simk with a virtual clock (timerfd_settime values compared with the model's), every
order of reply / expiry / owner close / caller close harvested in one epoll batch."""
from vlib import dcheck, directed

LEVEL = "proof"


def run(ctx, out):
    dcheck.run_property(ctx, out, "C14", "mon_c14_all", n_quick=300, n_thorough=5000,
                        gen_kw=dict(ws_share=0.3, batches=0.05, malformed=0.02, timers=True),
                        directed=directed.batch_orders() + directed.regressions() + directed.subms_timeouts() + directed.orphan_routes() + directed.huge_timeouts() + directed.timeout_spellings() + directed.escaped_ids())
    out.assumptions += ["'never early' rests on the timerfd contract: the simulated kernel makes a timer readable only at or after its armed deadline",
                        "the double -> ns conversion uses IEEE doubles in both the C code and the executable model; it is opaque in proofs"]
