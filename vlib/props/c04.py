"""C04 — element namespace.  Proof: Cjet.Props.C04; tie: simk vs model incl. full state image at every quiescent point
(elements, owners, values, fetcher tables); monitor: reference finite map evaluated on the implementation's responses."""
from vlib import common as C
from vlib import dcheck, directed

LEVEL = "proof"


def run(ctx, out):
    dcheck.run_property(ctx, out, "C04", "mon_c04", n_quick=300, n_thorough=5000,
                        gen_kw=dict(ws_share=0.3, batches=0.1, malformed=0.03),
                        directed=directed.regressions() + directed.dup_members() + directed.equal_looking_values() + directed.case_variants() + directed.long_paths() + directed.fetch_only_rules() + directed.colliding_paths() + directed.idless_refusals())
    dcheck.run_more(ctx, out, "C04", "mon_c04", n_quick=100, n_thorough=1500, gen_kw=dict(variant="small", ws_share=0.2, single=True), tag="small")
    out.assumptions += ["refusals by the path index (hopscotch table full) are an oracle input of the model; C17 characterises when they happen"]
