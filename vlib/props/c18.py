"""C18 — the UTF-8 validator accepts exactly well-formed UTF-8, however the text is presented.

Proof side: lean/Cjet/Props/C18.lean (built and audited by `check`).
This module is the tie between the Lean model (driver drv_utf8) and the real utf8_checker.c
(harness/comp/utf8.c, compiled now from the tree under test) and, independently of the model, the
evaluation of the PROPERTY on the implementation against a Python reference written from the ABNF
of RFC 3629 (cross-checked with Python's strict decoder):

  A. exhaustive single-byte transition table: reachable checker states found by BFS on the real code
     and on the model, the two 256-column tables compared entry by entry; the real table explored in
     product with the grammar-derived reference automaton (verdict and "at a boundary" must agree
     on every reachable pair) — this settles all byte strings of all lengths for the byte entry;
  B. 32-bit fast path: product of byte-class representatives x all reachable states (quick) and all
     2^32 words from the initial state against a C-coded reference automaton inside the harness
     (thorough; the C reference is itself compared with the model and the Python reference on the
     class products);
  C. 64-bit fast path: byte-class products and directed two-byte-pair patterns;
  D. seeded corpus of valid / near-valid strings: whole, every split point, random multi-splits,
     every alignment 0..7 of the auto-aligned entry (both is_complete values), word entries.
A disagreement model<->code is classified: if the implementation's verdict differs from the
reference on a concrete input -> VIOLATION with the replay (bytes, entry point, alignment, split);
otherwise -> `no-failing-input-found` naming the correspondence that broke.
"""
import concurrent.futures
import itertools
import os
import time

from vlib import common as C

LEVEL = "proof"
PID = "C18"
HARNESS = os.path.join(C.ROOT, "harness", "comp", "utf8.c")
INIT = ("ff", "01", "01")


# --------------------------------------------------------------------------- RFC 3629 reference (ABNF)

def _r(lo, hi):
    return lambda b: lo <= b <= hi


TAIL = _r(0x80, 0xBF)
# UTF8-1 .. UTF8-4, one tuple of per-position predicates per grammar alternative
ALTERNATIVES = [
    (_r(0x00, 0x7F),),                                   # UTF8-1
    (_r(0xC2, 0xDF), TAIL),                              # UTF8-2
    (_r(0xE0, 0xE0), _r(0xA0, 0xBF), TAIL),              # UTF8-3
    (_r(0xE1, 0xEC), TAIL, TAIL),
    (_r(0xED, 0xED), _r(0x80, 0x9F), TAIL),
    (_r(0xEE, 0xEF), TAIL, TAIL),
    (_r(0xF0, 0xF0), _r(0x90, 0xBF), TAIL, TAIL),        # UTF8-4
    (_r(0xF1, 0xF3), TAIL, TAIL, TAIL),
    (_r(0xF4, 0xF4), _r(0x80, 0x8F), TAIL, TAIL),
]


def is_char(t):
    return any(len(a) == len(t) and all(p(b) for p, b in zip(a, t)) for a in ALTERNATIVES)


def is_char_prefix(t):
    """t is a proper, non-empty prefix of some UTF8-char."""
    return len(t) > 0 and any(len(a) > len(t) and all(p(b) for p, b in zip(a, t)) for a in ALTERNATIVES)


def ref_step(pending, b):
    """Grammar-derived automaton.  State = () between characters, else (indices of the grammar alternatives
    that match the bytes of the character begun so far, number of those bytes).  None = reject."""
    if pending == ():
        alts, pos = range(len(ALTERNATIVES)), 0
    else:
        alts, pos = pending
    alts = tuple(i for i in alts if len(ALTERNATIVES[i]) > pos and ALTERNATIVES[i][pos](b))
    if not alts:
        return None
    pos += 1
    done = [i for i in alts if len(ALTERNATIVES[i]) == pos]
    if done:
        assert len(done) == len(alts), "grammar ambiguous"
        return ()
    return (alts, pos)


def ref_run(bs, pending=()):
    """(accepted-so-far, pending) after feeding bs."""
    for b in bs:
        pending = ref_step(pending, b)
        if pending is None:
            return False, ()
    return True, pending


def well_formed(bs):
    ok, pend = ref_run(bs)
    return ok and pend == ()


def prefix_ok(bs):
    return ref_run(bs)[0]


def py_codec_ok(bs):
    try:
        bytes(bs).decode("utf-8", "strict")
        return True
    except UnicodeDecodeError:
        return False


# --------------------------------------------------------------------------- running both sides

class Side:
    def __init__(self, harness_bin, width):
        self.bin = harness_bin
        self.width = width
        self.aborts = []
        self.model_error = None

    def impl(self, script, timeout=900):
        rc, out, err = C.sh([self.bin], inp=script.encode(), timeout=timeout,
                            env={"ASAN_OPTIONS": "detect_leaks=0:abort_on_error=0", "UBSAN_OPTIONS": "print_stacktrace=1"})
        lines = out.splitlines()
        if rc != 0:
            self.aborts.append({"rc": rc, "stderr": err[-3000:], "lines_before_abort": len(lines)})
            lines.append("ABORT rc=%d %s" % (rc, (err.strip().splitlines() or [""])[0][:160]))
        return lines

    def model(self, script):
        """Model observations, or None when the driver is unusable (Lean build broken): the property is then
        still evaluated on the implementation against the reference."""
        if self.model_error:
            return None
        try:
            return C.run_drv("utf8", script, args=["--width", str(self.width)])
        except Exception as ex:  # noqa: BLE001
            self.model_error = str(ex)[-500:]
            return None


def hx(bs):
    return bytes(bs).hex() if len(bs) else "-"


def words_le(bs, wide):
    return ["%0*x" % (2 * wide, int.from_bytes(bytes(bs[i:i + wide]), "little")) for i in range(0, len(bs), wide)]


# --------------------------------------------------------------------------- cases (scripts with expectations)

class Case:
    """A script fragment starting from `reset`; exp[i] is the verdict the PROPERTY demands of op i
    (None = nothing demanded), meta describes the input for the replay."""

    def __init__(self, kind, meta):
        self.kind = kind
        self.meta = meta
        self.ops = []
        self.exp = []

    def add(self, op, exp=None):
        self.ops.append(op)
        self.exp.append(exp)
        return self


def case_calls(kind, pieces, complete_last, entry="bytes", align=None):
    """Feed `pieces` through one entry point, is_complete only on the last; stop after the first call the
    reference rejects.  Expected verdict of call i = reference on the concatenation so far."""
    c = Case(kind, {"entry": entry, "pieces": [hx(p) for p in pieces], "complete_last": int(complete_last),
                    "align": align})
    sofar = []
    for i, p in enumerate(pieces):
        last = i == len(pieces) - 1
        k = 1 if (last and complete_last) else 0
        sofar = sofar + list(p)
        exp = well_formed(sofar) if k else prefix_ok(sofar)
        if entry in ("bytes", "text"):
            c.add("%s %s %d" % (entry, hx(p), k), exp)
        elif entry == "auto":
            c.add("auto %d %s %d" % (align, hx(p), k), exp)
        elif entry == "word32":
            c.add("word32 %d %s" % (k, " ".join(words_le(p, 4)) or "-"), exp)
        elif entry == "word64":
            c.add("word64 %d %s" % (k, " ".join(words_le(p, 8)) or "-"), exp)
        if not exp:
            break
    return c


def script_of(cases):
    out = []
    for c in cases:
        out.append("reset")
        out.extend(c.ops)
    return "\n".join(out) + "\n"


def run_cases(side, cases, stats):
    """Run on both sides.  Returns list of problems: dict(case, op_index, kind='property'|'model', impl, model, exp)."""
    script = script_of(cases)
    li = side.impl(script)
    lm = side.model(script)
    problems = []
    pos = 0
    for c in cases:
        n = 1 + len(c.ops)
        a = li[pos:pos + n]
        b = lm[pos:pos + n] if lm is not None else a
        pos += n
        stats["ops"] += len(c.ops)
        stats["cases"] += 1
        stats["kinds"][c.kind] = stats["kinds"].get(c.kind, 0) + 1
        bad = None
        for j in range(n):
            x = a[j] if j < len(a) else "<missing>"
            y = b[j] if j < len(b) else "<missing>"
            if x.startswith("ABORT") or x == "<missing>":
                bad = {"case": c, "op_index": j - 1, "kind": "property", "impl": a, "model": b, "expected_verdict": -1,
                       "abort": True}
                break
            if j >= 1 and c.exp[j - 1] is not None:
                stats["evaluations"] += 1
                want = "r %d" % (1 if c.exp[j - 1] else 0)
                stats["verdicts"][want] = stats["verdicts"].get(want, 0) + 1
                if not x.startswith(want + " "):
                    bad = {"case": c, "op_index": j - 1, "kind": "property", "impl": a, "model": b,
                           "expected_verdict": int(bool(c.exp[j - 1]))}
                    break
            if x != y and bad is None:
                bad = {"case": c, "op_index": j - 1, "kind": "model", "impl": a, "model": b}
                # keep scanning this case for a property failure (takes precedence)
        if bad:
            problems.append(bad)
    return problems


def replay_obj(p, extra=None):
    c = p["case"]
    o = {"property": PID, "script": ["reset"] + c.ops, "input": c.meta, "failing_op": c.ops[p["op_index"]] if p["op_index"] >= 0 else "reset",
         "impl_trace": p["impl"], "model_trace": p["model"], "variant": "default", "seed": C.base_seed(),
         "harness": "harness/comp/utf8.c", "how_to_replay": "feed `script` to the utf8 harness and to drv_utf8"}
    if p["kind"] == "property":
        o["failing_clause"] = "verdict of the implementation differs from RFC 3629 (reference expects %d)" % p["expected_verdict"]
    else:
        o["broken"] = "correspondence model<->implementation (observation lines differ); theorems of Cjet.Props.C18 are about the model"
    if extra:
        o.update(extra)
    return o


# --------------------------------------------------------------------------- corpus

BOUNDARY_CHARS = [
    [0x00], [0x41], [0x7F],
    [0xC2, 0x80], [0xC3, 0xA9], [0xDF, 0xBF],
    [0xE0, 0xA0, 0x80], [0xE0, 0xBF, 0xBF], [0xE1, 0x80, 0x80], [0xE2, 0x82, 0xAC], [0xEC, 0xBF, 0xBF],
    [0xED, 0x80, 0x80], [0xED, 0x9F, 0xBF], [0xEE, 0x80, 0x80], [0xEF, 0xBF, 0xBF], [0xEF, 0xBB, 0xBF],
    [0xF0, 0x90, 0x80, 0x80], [0xF0, 0x9F, 0x98, 0x80], [0xF0, 0xBF, 0xBF, 0xBF], [0xF1, 0x80, 0x80, 0x80],
    [0xF3, 0xBF, 0xBF, 0xBF], [0xF4, 0x80, 0x80, 0x80], [0xF4, 0x8F, 0xBF, 0xBF],
]
BAD_UNITS = [
    [0x80], [0xBF], [0xC0, 0x80], [0xC1, 0xBF], [0xC0], [0xC1], [0xF5, 0x80, 0x80, 0x80], [0xF8], [0xFF], [0xFE],
    [0xE0, 0x80, 0x80], [0xE0, 0x9F, 0xBF],                      # overlong 3
    [0xF0, 0x80, 0x80, 0x80], [0xF0, 0x8F, 0xBF, 0xBF],          # overlong 4
    [0xED, 0xA0, 0x80], [0xED, 0xBF, 0xBF], [0xED, 0xB0, 0x80],  # surrogates
    [0xF4, 0x90, 0x80, 0x80], [0xF4, 0xBF, 0xBF, 0xBF],          # > U+10FFFF
    [0xC2], [0xE2, 0x82], [0xF0, 0x9F, 0x98], [0xE2], [0xF0], [0xF0, 0x9F],   # truncated
    [0xC2, 0x41], [0xE2, 0x82, 0x41], [0xE2, 0x41, 0x80], [0xF0, 0x9F, 0x98, 0x41], [0xF0, 0x9F, 0x41, 0x80],
    [0xC2, 0xC2, 0x80], [0xE2, 0xC2, 0x80], [0xC2, 0x80, 0x80],
]


def corpus(n_random, tag):
    """Directed strings first, then seeded structured ones: mostly valid text with zero or one defect."""
    out = []
    out.append([])
    for ch in BOUNDARY_CHARS:
        out.append(list(ch))
    for bad in BAD_UNITS:
        out.append(list(bad))
        out.append([0x41] + list(bad))
        out.append(list(bad) + [0x41])
    # the strings of utf8_checker_test.cpp
    out.append(list("Hello-µ@ßöäüàá-UTF-8!!".encode("utf-8")) + [0])
    out.append([0xF1, 0x80, 0x80, 0x80, 0xF2, 0xA0, 0xA0, 0xA0])
    # two-byte pairs at every phase, with overlong leads (F22 family)
    for lead_a, lead_b in itertools.product([0xC0, 0xC1, 0xC2, 0xDF], repeat=2):
        for pad in range(0, 9):
            out.append([0x41] * pad + [lead_a, 0x80, lead_b, 0xBF] * 4 + [0x41] * 3)
    for i in range(n_random):
        rnd = C.rng("c18", tag, i)
        s = []
        nchars = rnd.choice([1, 2, 3, 5, 8, 12, 20, 33])
        mode = rnd.random()
        for _ in range(nchars):
            r = rnd.random()
            if r < 0.35:
                s += [rnd.randrange(0x20, 0x7F)]
            elif r < 0.55:
                s += [rnd.randrange(0xC2, 0xE0), rnd.randrange(0x80, 0xC0)]
            else:
                s += rnd.choice(BOUNDARY_CHARS)
        if mode < 0.45 and s:
            # one defect: substitute a bad unit, flip a byte, truncate, or insert a stray byte
            d = rnd.randrange(4)
            pos = rnd.randrange(len(s) + 1)
            if d == 0:
                s[pos:pos] = rnd.choice(BAD_UNITS)
            elif d == 1 and pos < len(s):
                s[pos] = rnd.choice([0x80, 0xBF, 0xC0, 0xC1, 0xE0, 0xED, 0xF0, 0xF4, 0xF5, 0xFF, s[pos] ^ 0x80, s[pos] ^ 0x20])
            elif d == 2:
                s = s[:pos]
            else:
                s[pos:pos] = [rnd.randrange(256)]
        elif mode < 0.55:
            s = [rnd.randrange(256) for _ in range(rnd.randrange(1, 12))]
        out.append(s)
    return out


def cases_for_string(s, idx, rnd, full):
    cs = []
    cs.append(case_calls("whole-bytes", [s], True))
    cs.append(case_calls("whole-bytes-fragment", [s], False))
    cs.append(case_calls("whole-text", [s], True, entry="text"))
    # every split point
    splits = range(len(s) + 1) if (full or len(s) <= 24) else sorted(set(rnd.sample(range(len(s) + 1), 24)))
    for i in splits:
        cs.append(case_calls("split2", [s[:i], s[i:]], True))
    # byte at a time, and random multi-splits
    if s:
        cs.append(case_calls("split-each-byte", [[b] for b in s], True))
        cuts = sorted(set(rnd.randrange(len(s) + 1) for _ in range(rnd.randrange(1, 5))))
        pieces = [s[a:b] for a, b in zip([0] + cuts, cuts + [len(s)])]
        cs.append(case_calls("split-multi", pieces, True))
        cs.append(case_calls("split-multi-text", pieces, True, entry="text"))
    # auto-aligned entry, every alignment, both flags
    for al in range(8):
        cs.append(case_calls("auto-complete", [s], True, entry="auto", align=al))
        cs.append(case_calls("auto-fragment", [s], False, entry="auto", align=al))
    if len(s) >= 9:
        i = rnd.randrange(1, len(s))
        cs.append(case_calls("auto-split", [s[:i], s[i:]], True, entry="auto", align=rnd.randrange(8)))
    # word entries when the length fits
    if len(s) % 4 == 0:
        cs.append(case_calls("word32-complete", [s], True, entry="word32"))
        cs.append(case_calls("word32-fragment", [s], False, entry="word32"))
        if len(s) >= 8:
            h = (len(s) // 8) * 4
            cs.append(case_calls("word32-split", [s[:h], s[h:]], True, entry="word32"))
    if len(s) % 8 == 0:
        cs.append(case_calls("word64-complete", [s], True, entry="word64"))
        cs.append(case_calls("word64-fragment", [s], False, entry="word64"))
    return cs


# --------------------------------------------------------------------------- A. exhaustive transition table

def parse_row(line):
    cells = line.split()[1:]
    if len(cells) != 256:
        raise RuntimeError("bad row line: %r" % line[:80])
    return [(c[0] == "1", tuple(c[2:].split(":"))) for c in cells]


def bfs_table(runner):
    """Reachable checker states by BFS over `row` (one call per frontier); returns {state: row}."""
    table = {}
    frontier = [INIT]
    while frontier:
        lines = runner("".join("row %s %s %s\n" % s for s in frontier))
        nxt = []
        for s, ln in zip(frontier, lines):
            row = parse_row(ln)
            table[s] = row
            for ok, st in row:
                if st not in table and st not in nxt and st not in frontier:
                    nxt.append(st)
        frontier = nxt
        if len(table) > 5000:
            raise RuntimeError("state space of the checker exploded (> 5000 states)")
    return table


def product_with_reference(table):
    """BFS over pairs (implementation state, reference state).  Returns (pairs, failure or None);
    failure = (bytes witness, what)."""
    start = (INIT, ())
    parent = {start: None}
    queue = [start]
    transitions = 0
    while queue:
        cur = queue.pop(0)
        ist, rst = cur
        if (ist[0] == "ff") != (rst == ()):
            return parent, transitions, (witness(parent, cur), "is_complete verdict: implementation %s a boundary, reference %s"
                                         % ("at" if ist[0] == "ff" else "not at", "at" if rst == () else "not at"), None)
        row = table.get(ist)
        if row is None:
            return parent, transitions, (witness(parent, cur), "state not in table", None)
        for b in range(256):
            transitions += 1
            ok, nst = row[b]
            r2 = ref_step(rst, b)
            if ok != (r2 is not None):
                return parent, transitions, (witness(parent, cur) + [b], "byte verdict: implementation %d, reference %d" % (ok, r2 is not None), b)
            if ok:
                nx = (nst, r2)
                if nx not in parent:
                    parent[nx] = (cur, b)
                    queue.append(nx)
            # after a rejected byte the property demands nothing (the caller re-initialises)
    return parent, transitions, None


def witness(parent, node):
    out = []
    while parent[node] is not None:
        node, b = parent[node]
        out.append(b)
    return out[::-1]


# --------------------------------------------------------------------------- main

REPS32_QUICK = "00417f808f909fa0bfc0c1c2dfe0e1ecedeeeff0f1f3f4f5ff"
REPS32_THOROUGH = ("00017f80818f909fa0bfc0c1c2c3dfe0e1ecedeeeff0f1f3f4f5f7f8fbfcfdfeff" "205ea9")
REPS_STATES = "41808f909fa0bfc2e0f4"
REPS64_QUICK = "4180bfc1c2"
REPS64_THOROUGH = "4180bfc1c2e0f4"
SWEEP64_QUICK = "417f80bfc0c1c2df"
SWEEP64_THOROUGH = "417f808f909fa0bfc0c1c2dfe0edf0f4"


def run(ctx, out):
    t0 = time.time()
    srcs = [HARNESS, os.path.join(C.SRC, "utf8_checker.c")]
    hbin = C.cc_build("utf8", srcs)
    info = C.sh([hbin], inp=b"info\n")[1].strip()
    kv = dict(x.split("=") for x in info.split()[1:])
    width, le = int(kv["width"]), int(kv["le"])
    side = Side(hbin, width)
    out.assumptions += [
        "host is little-endian (harness reported le=%d); word values are loaded as on x86-64" % le,
        "sizeof(uint_fast16_t) = %d on this platform (model and theorem cover 8, 4 and any other width)" % width,
        "the caller stops feeding a text after the first `false` verdict (as websocket.c does)",
    ]
    if le != 1:
        out.violation("big-endian host: the model's load of words from memory does not apply", {"property": PID, "broken": "assumption le=1"}, no_input=True)
        return
    cov = out.coverage
    stats = {"ops": 0, "cases": 0, "evaluations": 0, "kinds": {}, "verdicts": {}}
    reported = {"n": 0}

    def report(problems, what):
        """Classify and report (at most a few).  A model-only disagreement is first re-examined: every
        verdict the implementation gave in that case was already compared with the reference by run_cases."""
        if any(p["kind"] == "property" for p in problems):
            problems = [p for p in problems if p["kind"] == "property"]
        for p in problems[:3]:
            if reported["n"] >= 6:
                return
            reported["n"] += 1
            if p.get("abort"):
                out.violation("%s: the harness aborted (sanitizer report) on %s" % (what, p["case"].meta),
                              replay_obj(p, {"aborts": side.aborts[:2]}))
            elif p["kind"] == "property":
                p2 = shrink(side, p)
                out.violation("%s: implementation verdict differs from RFC 3629 on %s" % (what, p2["case"].meta), replay_obj(p2))
            else:
                out.violation("%s: model and implementation differ (no input violating the property found in this case)" % what,
                              replay_obj(p, {"theorems_concerned": ["byte_checker_eq_spec", "word_path_eq_byte_path",
                                                                    "word64_path_eq_byte_path", "auto_aligned_eq"]}), no_input=True)

    # ---- sanity of the reference itself (grammar vs Python's strict decoder) on the corpus
    n_rand = 1500 if ctx.thorough else 220
    strings = corpus(n_rand, "main")
    for s in strings:
        if well_formed(s) != py_codec_ok(s):
            raise RuntimeError("reference grammar and Python's utf-8 codec disagree on %s" % hx(s))
    cov["reference_crosschecked_with_python_codec"] = len(strings)

    # ---- 0. regression replay of fixed finding F22 (and any other listed for C18)
    for f in C.known_findings(PID):
        path = os.path.join(C.ROOT, f.get("replay", ""))
        if not os.path.isfile(path):
            continue
        script = "".join(ln + "\n" for ln in open(path).read().splitlines() if ln.strip() and not ln.startswith("#"))
        li, lm = side.impl(script), side.model(script)
        still = [(op, a) for op, a in zip(script.splitlines(), li) if a.startswith("r 1")]
        if f.get("status") == "open":
            if still:
                out.known_finding("%s %s" % (f["id"], f.get("what", "")[:120]))
        else:
            if still:
                out.violation("fixed finding %s recurs: ill-formed text accepted (%s)" % (f["id"], still[0][0]),
                              {"property": PID, "finding": f["id"], "script": script.splitlines(), "impl_trace": li, "model_trace": lm,
                               "failing_clause": "verdict 1 on an ill-formed text", "accepted": [s for s, _ in still]})
            elif lm is not None and li != lm:
                out.violation("replay of %s: model and implementation differ" % f["id"],
                              {"property": PID, "finding": f["id"], "script": script.splitlines(), "impl_trace": li, "model_trace": lm,
                               "broken": "correspondence"}, no_input=True)
        stats["ops"] += len(li)

    # ---- A. exhaustive transition table
    ti = bfs_table(side.impl)
    tm = bfs_table(side.model) if side.model("state\n") is not None else dict(ti)
    cov["reachable_states_impl"] = len(ti)
    cov["reachable_states_model"] = len(tm)
    parent, ntrans, fail = product_with_reference(ti)
    cov["product_pairs_impl_x_reference"] = len(parent)
    cov["product_transitions_checked"] = ntrans
    if fail:
        w, what, _ = fail
        c = case_calls("table-witness", [w], False)
        probs = run_cases(side, [c, case_calls("table-witness", [w], True)], stats)
        pp = [p for p in probs if p["kind"] == "property"]
        if pp:
            report(pp[:1], "transition table")
        else:
            out.violation("transition table x reference automaton: %s after %s" % (what, hx(w)),
                          {"property": PID, "entry": "bytes", "bytes": hx(w), "failing_clause": what,
                           "script": ["reset", "bytes %s 0" % hx(w), "state"]})
    table_diff = []
    for st in sorted(set(ti) | set(tm)):
        ra, rb = ti.get(st), tm.get(st)
        if ra is None or rb is None:
            table_diff.append({"state": st, "only_in": "model" if ra is None else "implementation"})
            continue
        for b in range(256):
            if ra[b] != rb[b]:
                table_diff.append({"state": st, "byte": "%02x" % b, "impl": ra[b], "model": rb[b]})
    cov["table_entries_compared"] = 256 * len(set(ti) | set(tm))
    if table_diff and not out.violations:
        out.violation("transition table: model and implementation differ in %d entries (the implementation's table agrees with RFC 3629)"
                      % len(table_diff), {"property": PID, "broken": "correspondence is_byte_valid table", "first_differences": table_diff[:10],
                                          "theorems_concerned": ["byte_checker_eq_spec"]}, no_input=True)
    # a sample of struct values no call sequence produces (ties isByteValid outside the invariant; no property demand)
    rnd = C.rng("c18", "unreachable")
    unr = [("%02x" % rnd.choice([0x00, 0x41, 0xC2, 0xE0, 0xED, 0xF4, 0xFF, rnd.randrange(256)]), "%02x" % rnd.randrange(0, 6),
            "%02x" % rnd.randrange(0, 6)) for _ in range(60 if ctx.thorough else 20)]
    s_unr = "".join("row %s %s %s\n" % s for s in unr)
    ua = side.impl(s_unr)
    ub = side.model(s_unr) or ua
    cov["unreachable_struct_rows_compared"] = len(unr)
    if ua != ub and not out.violations:
        k = next(i for i in range(len(unr)) if i >= len(ua) or i >= len(ub) or ua[i] != ub[i])
        out.violation("is_byte_valid on a struct outside the reachable set: model and implementation differ",
                      {"property": PID, "broken": "correspondence (unreachable state %s)" % (unr[k],), "script": ["row %s %s %s" % unr[k]]},
                      no_input=True)

    # ---- B/C. word fast paths on byte-class products
    states = sorted(ti)
    prod_script = []
    reps32 = REPS32_THOROUGH if ctx.thorough else REPS32_QUICK
    reps64 = REPS64_THOROUGH if ctx.thorough else REPS64_QUICK
    for k in (0, 1):
        prod_script.append(("prod32", INIT, k, reps32))
        prod_script.append(("prod64", INIT, k, reps64))
    for st in states:
        if st != INIT:
            prod_script.append(("prod32", st, 0, REPS_STATES))
            prod_script.append(("prod32", st, 1, REPS_STATES))
    for st in states[:: (1 if ctx.thorough else 6)]:
        if st != INIT:
            prod_script.append(("prod64", st, 0, "41809fa0c2"))

    def prod_lines(items, prefix=""):
        return "".join("%s%s %s %s %s %d %s\n" % (prefix, op, st[0], st[1], st[2], k, reps) for op, st, k, reps in items)

    def par(fn, script_lines, nchunks=C.NPROC):
        """run a script of independent lines in parallel chunks, keep order"""
        ls = script_lines.splitlines(True)
        if not ls:
            return []
        size = max(1, (len(ls) + nchunks - 1) // nchunks)
        chunks = ["".join(ls[i:i + size]) for i in range(0, len(ls), size)]
        with concurrent.futures.ThreadPoolExecutor(max_workers=nchunks) as ex:
            res = list(ex.map(fn, chunks))
        return [x for r in res for x in r]

    pi = par(side.impl, prod_lines(prod_script))
    ri = par(side.impl, prod_lines(prod_script, "ref"))       # C reference automaton (used by the 2^32 sweep)
    if side.model("state\n") is not None:
        pm = par(side.model, prod_lines(prod_script))
        rm = par(side.model, prod_lines(prod_script, "ref"))  # model byte path = proved equal to the spec
    else:
        pm, rm = pi, ri
    words_total = 0
    for item, a, b, c_, d in zip(prod_script, pi, pm, ri, rm):
        n = int(a.split()[1].split("=")[1]) if a.startswith("prod") else 0
        words_total += n
        stats["evaluations"] += n
        ok_prop = a.split()[1:] == c_.split()[1:]          # real word path == reference automaton on the same bytes
        ok_model = a == b
        ok_ref = c_ == d
        if ok_prop and ok_model and ok_ref:
            continue
        if reported["n"] >= 6 or reported.get("prod", 0) >= 2:
            break
        reported["n"] += 1
        reported["prod"] = reported.get("prod", 0) + 1
        op, st, k, reps = item
        wide = 4 if op == "prod32" else 8
        va = side.impl(prod_lines([item]).replace(op + " ", op + "v ", 1))
        vb = side.model(prod_lines([item]).replace(op + " ", op + "v ", 1)) or va
        found = None
        model_diff = None
        for x, y in zip(va, vb):
            if not x.startswith("w "):
                continue
            f = x.split()
            w = int(f[1], 16)
            bs = list(w.to_bytes(wide, "little"))
            okp, pend = ref_run(bs, state_to_pending(st))
            expv = okp and (pend == () if k else True)
            if int(f[3]) != int(expv):
                found = (f[1], bs, x, y, expv)
                break
            if x != y and model_diff is None:
                model_diff = (f[1], bs, x, y)
        if found:
            wv, bs, x, y, expv = found
            out.violation("%d-bit word path: verdict differs from RFC 3629 for word %s (bytes %s) from state %s" % (8 * wide, wv, hx(bs), st),
                          {"property": PID, "entry": "word%d" % (8 * wide), "word": wv, "bytes_in_feed_order": hx(bs), "state": st,
                           "complete": k, "impl": x, "model": y, "expected_verdict": int(expv),
                           "failing_clause": "word path verdict != byte-wise RFC 3629 verdict",
                           "script": ["reset", "bytes %s 0" % hx(state_sample(st)), "word%d %d %s" % (8 * wide, k, wv)]})
        elif not ok_ref and ok_model:
            out.violation("the harness's C reference automaton differs from the model's byte path on a class product",
                          {"property": PID, "broken": "check machinery (reference automaton)", "item": item, "harness": c_, "model": d}, no_input=True)
        else:
            out.violation("%d-bit word path: model and implementation differ on a class product (verdicts agree with RFC 3629)" % (8 * wide),
                          {"property": PID, "broken": "correspondence word path", "item": item, "impl": a, "model": b,
                           "first_difference": model_diff, "theorems_concerned": ["word_path_eq_byte_path", "word64_path_eq_byte_path"]},
                          no_input=True)
    cov["word_products"] = {"items": len(prod_script), "words": words_total, "reps32": reps32, "reps64": reps64,
                            "states": len(states)}

    # directed 64-bit pair patterns (every phase of overlong leads inside two-byte pairs) and 32-bit ones
    pair_cases = []
    leads = [0xC0, 0xC1, 0xC2, 0xC3, 0xDF, 0xE0, 0x41]
    conts = [0x80, 0xBF, 0x7F, 0xC0]
    pairs = [(l, c) for l in leads for c in conts]
    prs = pairs if ctx.thorough else [p for p in pairs if p[1] in (0x80, 0xBF, 0x7F)][:14]
    for quad in itertools.product(prs, repeat=4) if ctx.thorough else (tuple(C.rng("c18", "quad", i).choice(prs) for _ in range(4)) for i in range(3000)):
        bs = [b for p in quad for b in p]
        pair_cases.append(case_calls("word64-pairs", [bs], True, entry="word64"))
    for duo in itertools.product(pairs, repeat=2):
        bs = [b for p in duo for b in p]
        pair_cases.append(case_calls("word32-pairs", [bs], True, entry="word32"))
        pair_cases.append(case_calls("word32-pairs-shifted", [[0x41] + bs[:3]], False, entry="word32"))

    # ---- D. corpus through every presentation
    corpus_cases = []
    for i, s in enumerate(strings):
        corpus_cases += cases_for_string(s, i, C.rng("c18", "presentation", i), ctx.thorough)

    all_cases = pair_cases + corpus_cases
    chunk = max(1, (len(all_cases) + C.NPROC - 1) // C.NPROC)
    groups = [all_cases[i:i + chunk] for i in range(0, len(all_cases), chunk)]
    stat_list = [{"ops": 0, "cases": 0, "evaluations": 0, "kinds": {}, "verdicts": {}} for _ in groups]
    with concurrent.futures.ThreadPoolExecutor(max_workers=C.NPROC) as ex:
        results = list(ex.map(lambda gs: run_cases(side, gs[0], gs[1]), zip(groups, stat_list)))
    for st_ in stat_list:
        for key in ("ops", "cases", "evaluations"):
            stats[key] += st_[key]
        for key in ("kinds", "verdicts"):
            for a, b in st_[key].items():
                stats[key][a] = stats[key].get(a, 0) + b
    problems = [p for r in results for p in r]
    problems.sort(key=lambda p: (p["kind"] != "property", len(script_of([p["case"]]))))
    report(problems, "presentation corpus")

    fast = C.cc_build("utf8_fast", srcs, sanitize=False, extra_flags=["-O2"])
    # ---- thorough: all 2^32 words, real code against the C reference automaton, 16 processes
    if ctx.thorough:
        jobs = []
        nseg = 64
        seg = (1 << 32) // nseg
        for k in (0, 1):
            for i in range(nseg):
                jobs.append("sweep32 %x %x %d\n" % (i * seg, (i + 1) * seg, k))

        def sweep(job):
            rc, o, e = C.sh([fast], inp=job.encode(), timeout=1200)
            return job, o.strip()
        with concurrent.futures.ThreadPoolExecutor(max_workers=C.NPROC) as ex:
            res = list(ex.map(sweep, jobs))
        tot = acc = mism = 0
        first = None
        for job, o in res:
            f = dict(x.split("=") for x in o.split()[1:]) if o.startswith("sweep32") else None
            if f is None:
                raise RuntimeError("sweep32 failed: %r -> %r" % (job, o))
            tot += int(f["n"])
            acc += int(f["acc"])
            mism += int(f["mism"])
            if int(f["mism"]) and first is None:
                first = (f["first"], int(job.split()[3]))
        cov["sweep32"] = {"words": tot, "accepted": acc, "mismatches": mism, "exhaustive": tot == 2 * (1 << 32),
                          "both_is_complete_values": True}
        stats["evaluations"] += tot
        if mism:
            wv, k = first
            bs = list(int(wv, 16).to_bytes(4, "little"))
            c = case_calls("sweep32-witness", [bs], bool(k), entry="word32")
            probs = run_cases(side, [c], stats)
            pp = [p for p in probs if p["kind"] == "property"]
            if pp:
                report(pp[:1], "2^32 sweep (%d mismatching words)" % mism)
            else:
                out.violation("2^32 sweep: %d words where the real 32-bit path and the reference automaton differ in the checker left behind; first %s"
                              % (mism, wv), {"property": PID, "entry": "word32", "word": wv, "bytes_in_feed_order": hx(bs), "complete": k,
                                             "broken": "state after the call differs from the reference (verdict agrees)",
                                             "script": ["reset", "word32 %d %s" % (k, wv)]}, no_input=True)

    # ---- 64-bit words: full product of 8 (quick) / 16 (thorough) byte classes, real code against the C reference
    reps = SWEEP64_THOROUGH if ctx.thorough else SWEEP64_QUICK
    total64 = (len(reps) // 2) ** 8
    nseg = 64
    seg = (total64 + nseg - 1) // nseg
    jobs = ["sweep64 %s %x %x %d\n" % (reps, i * seg, min(total64, (i + 1) * seg), k) for k in (0, 1) for i in range(nseg)]

    def sweep64(job):
        return job, C.sh([fast], inp=job.encode(), timeout=1200)[1].strip()
    with concurrent.futures.ThreadPoolExecutor(max_workers=C.NPROC) as ex:
        res = list(ex.map(sweep64, jobs))
    tot = acc = mism = 0
    first = None
    for job, o in res:
        if not o.startswith("sweep64"):
            raise RuntimeError("sweep64 failed: %r -> %r" % (job, o))
        f = dict(x.split("=") for x in o.split()[1:])
        tot += int(f["n"])
        acc += int(f["acc"])
        mism += int(f["mism"])
        if int(f["mism"]) and first is None:
            first = (f["first"], int(job.split()[4]))
    cov["sweep64_class_product"] = {"reps": reps, "words": tot, "accepted": acc, "mismatches": mism,
                                    "complete_product": tot == 2 * total64}
    stats["evaluations"] += tot
    if mism:
        wv, k = first
        bs = list(int(wv, 16).to_bytes(8, "little"))
        probs = run_cases(side, [case_calls("sweep64-witness", [bs], bool(k), entry="word64")], stats)
        pp = [p for p in probs if p["kind"] == "property"]
        if pp:
            report(pp[:1], "64-bit class product (%d mismatching words)" % mism)
        else:
            out.violation("64-bit class product: %d words where the real path and the reference automaton differ in the checker left behind; first %s"
                          % (mism, wv), {"property": PID, "entry": "word64", "word": wv, "bytes_in_feed_order": hx(bs), "complete": k,
                                         "broken": "state after the call differs from the reference (verdict agrees)",
                                         "script": ["reset", "word64 %d %s" % (k, wv)]}, no_input=True)

    if side.aborts and not out.violations:
        out.violation("sanitizer abort in the harness", {"property": PID, "aborts": side.aborts[:3]}, no_input=True)

    # ---- coverage
    cov["traces_validated_against_impl"] = stats["cases"] + len(prod_script) + len(ti) + len(unr)
    cov["evaluations"] = stats["evaluations"] + ntrans
    distinct = len({tuple(c.ops) for c in all_cases if any(e is not None for e in c.exp)})
    cov["distinct_nontrivial"] = distinct
    cov["rule"] = "distinct call sequences (entry point, pieces, alignment, is_complete) whose verdicts were compared with the RFC 3629 reference; products and sweeps counted under `evaluations`"
    cov["ops"] = stats["ops"]
    cov["case_kinds"] = dict(sorted(stats["kinds"].items()))
    cov["expected_verdict_histogram"] = stats["verdicts"]
    cov["corpus_strings"] = len(strings)
    cov["corpus_well_formed"] = sum(1 for s in strings if well_formed(s))
    cov["exhaustive"] = {"transition_table": True, "product_with_reference_automaton": fail is None,
                         "sweep32_all_words": bool(ctx.thorough), "class_products": True}
    cov["samples"] = [["reset"] + c.ops for c in (all_cases[:2] + all_cases[len(pair_cases):len(pair_cases) + 3] + all_cases[-2:])]
    cov["harness_info"] = info
    cov["wall_tie_s"] = round(time.time() - t0, 1)
    if side.model_error:
        out.notes.append("model driver unusable (%s): only the property evaluation against the RFC 3629 reference ran" % side.model_error)
        cov["model_side"] = "unavailable"
        if not ctx.proof_broken and not out.violations:
            out.violation("model driver drv_utf8 failed", {"property": PID, "broken": "check machinery (driver)", "detail": side.model_error},
                          no_input=True)
    if ctx.proof_broken:
        out.notes.append("proof side broken; the searches above still ran on the implementation")


def state_sample(st):
    """Bytes that bring a fresh checker into the reachable state st (hex triple)."""
    if st == INIT:
        return []
    lead, _ln, nxt = (int(x, 16) for x in st)
    fill = {0xE0: 0xA0, 0xF0: 0x90}.get(lead, 0x80)
    return [lead] + ([fill] + [0x80] * (nxt - 3) if nxt >= 3 else [])


def state_to_pending(st):
    """Reference state for a reachable checker struct (hex triple): feed the reference a lead byte and
    admissible tail bytes for as many positions as the struct says were consumed."""
    return ref_run(state_sample(st))[1]


def shrink(side, p):
    """Shorten the byte string of a failing property case while the same op kind still fails."""
    c = p["case"]
    meta = c.meta
    if len(meta.get("pieces", [])) != 1:
        return p
    bs = list(C.unhex(meta["pieces"][0]))
    entry, align, k = meta["entry"], meta.get("align"), bool(meta["complete_last"])
    unit = {"word32": 4, "word64": 8}.get(entry, 1)

    def fails(x):
        cc = case_calls(c.kind, [x], k, entry=entry, align=align)
        st = {"ops": 0, "cases": 0, "evaluations": 0, "kinds": {}, "verdicts": {}}
        pr = [q for q in run_cases(side, [cc], st) if q["kind"] == "property"]
        return pr[0] if pr else None
    best = p
    changed = True
    rounds = 0
    while changed and rounds < 200:
        changed = False
        rounds += 1
        for i in range(0, len(bs), unit):
            cand = bs[:i] + bs[i + unit:]
            if entry == "auto" and len(cand) < 8 <= len(bs):
                continue
            q = fails(cand)
            if q:
                bs, best, changed = cand, q, True
                break
    return best
