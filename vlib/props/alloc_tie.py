"""C07 (part B) — tie between the Lean model `Cjet.Alloc` (driver `drv_alloc`) and the real
`src/alloc.c` (harness `harness/comp/alloc.c`, ASan/UBSan/LeakSanitizer).

`run_alloc_tie(ctx, out) -> dict` is called by vlib/props/c07.py.  It

 1. builds the harness from /repo's current tree for two configurations: the unchanged one
    (CONFIG_MAX_HEAPSIZE_IN_KBYTE from cmake/defaults.cmake) and `alloc_small` (cap 1 KByte, so that
    the cap is reached by tiny scripts) — the latter is a run-time entry added to `C.VARIANTS`, i.e.
    the generated `cjet_config.h` is produced by the same template mechanism as every other build;
 2. checks that sizeof(size_t) and the cap the harness reports are the values the generated Lean
    constants / the driver arguments use;
 3. runs directed scripts (requests exactly at, one below, one above the cap; calloc products;
    OS refusals; size_t wrap-around of the request and of the sum; free in every order) and seeded
    random scripts through harness and model and compares the streams line by line
    (result, `cjet_get_alloc_size()`, every live block's header word);
 4. independently of the model, a MONITOR evaluates the property on the implementation's output:
    accounted = Σ header words of live blocks, accounted ≤ cap, a refusal or a free of nothing leaves
    everything unchanged, a granted block's header word = request + sizeof(size_t), freeing
    everything returns to 0, a request that fits under the cap is refused only if the OS refused.

Disagreements are reported through `out.violation` (with `no_input=True` when only the
correspondence, not the property, fails).  Returns the counts."""
import os
import subprocess

from vlib import common as C

SMALL = "alloc_small"
SMALL_KB = 1
W = 1 << 64
HALF = 1 << 63
HDR = 8


def _variants():
    C.VARIANTS.setdefault(SMALL, {"CONFIG_MAX_HEAPSIZE_IN_KBYTE": str(SMALL_KB)})


def build(variant):
    _variants()
    return C.cc_build("alloc", [C.ROOT + "/harness/comp/alloc.c", C.SRC + "/alloc.c"], variant=variant,
                      link_flags=["-Wl,--wrap=malloc,--wrap=calloc"])


def run_impl(binp, script, timeout=300):
    env = dict(os.environ)
    env["ASAN_OPTIONS"] = "detect_leaks=1:allocator_may_return_null=1:abort_on_error=0"
    env["UBSAN_OPTIONS"] = "print_stacktrace=1:halt_on_error=1"
    p = subprocess.run([binp], input=script.encode(), stdout=subprocess.PIPE, stderr=subprocess.PIPE,
                       timeout=timeout, env=env)
    return p.returncode, p.stdout.decode("utf-8", "replace").splitlines(), p.stderr.decode("utf-8", "replace")


# --------------------------------------------------------------------------- script generation

def osok_for(cap_bytes, hdr, bytes_):
    """requests the interceptor refuses by itself (more than PTRDIFF_MAX) must be scripted as refused"""
    a = (bytes_ % W + hdr) % W
    return a < HALF


def line_malloc(size, ok, hdr=HDR):
    ok = ok and osok_for(0, hdr, size)
    return "malloc %d %d" % (size, 1 if ok else 0)


def line_calloc(nmemb, size, ok, hdr=HDR):
    ok = ok and osok_for(0, hdr, (nmemb * size) % W)
    return "calloc %d %d %d" % (nmemb, size, 1 if ok else 0)


def wraps_header(bytes_, hdr=HDR):
    """size + sizeof(size_t) wraps: the C code would write its header past a too small block —
    outside the domain of the functions (documented in docs/C07-proofs.md), never scripted"""
    return bytes_ % W + hdr >= W


def directed(cap_bytes):
    """list of (name, [lines])"""
    c = cap_bytes
    out = []
    out.append(("exact-cap", ["malloc %d 1" % (c - HDR), "malloc 0 1", "free 0", "malloc 0 1", "free 1"]))
    out.append(("cap-plus-one", ["malloc %d 1" % (c - HDR + 1), "malloc %d 1" % (c - HDR), "free 0",
                                 "calloc 1 %d 1" % (c - HDR + 1), "calloc 1 %d 1" % (c - HDR), "free 1"]))
    out.append(("cap-minus-one", ["malloc %d 1" % (c - HDR - 1), "malloc 0 1", "calloc 0 0 1", "calloc 0 7 1",
                                  "free 0", "calloc 0 7 1", "free 1"]))
    half = (c // 2)
    out.append(("two-halves", ["malloc %d 1" % (half - HDR), "malloc %d 1" % (c - half - HDR), "malloc 0 1",
                               "free 1", "malloc 0 1", "free 0", "free 2"]))
    out.append(("os-refuses", ["malloc 16 0", "calloc 4 4 0", "malloc 16 1", "malloc 16 0", "free 0", "free 0",
                               "free 5"]))
    out.append(("calloc-products", ["calloc 3 5 1", "calloc 5 3 1", "calloc 1 0 1", "calloc 0 1 1",
                                    "calloc 16 16 1", "free 2", "free 0", "free 4", "free 1", "free 3"]))
    # wrap-around of the request (nmemb*size) and of allocated+alloc_size; the header itself never wraps
    big = []
    big.append(line_calloc(1 << 32, 1 << 32, True))                  # product = 0 (mod 2^64): 8 bytes accounted
    big.append(line_calloc((1 << 61) + 1, 8, True))                  # product = 8 (mod 2^64)
    big.append(line_malloc(W - 1 - 2 * HDR, True))                   # alloc_size = 2^64-9: refused by the cap test
    big.append("malloc 100 1")
    big.append(line_malloc(W - 60 - HDR, True))                      # allocated + alloc_size wraps below the cap
    big.append(line_calloc(3, (W - 90) // 3 - 10, True))
    big.append(line_malloc(HALF - HDR - 1, True))                    # largest request the OS model could grant
    big.append(line_malloc(HALF - HDR, True))
    big.append(line_malloc(HALF, True))
    big += ["free 0", "free 1", "free 2", "free 3"]
    out.append(("wrap-around", big))
    order = ["malloc %d 1" % (8 * (i + 1)) for i in range(6)]
    out.append(("free-fifo", order + ["free %d" % i for i in range(6)]))
    out.append(("free-lifo", order + ["free %d" % i for i in reversed(range(6))]))
    out.append(("free-mixed", order + ["free %d" % i for i in (3, 0, 5, 1, 4, 2, 3)]))
    return out


def random_script(rng, cap_bytes, length):
    lines = []
    live = []          # ids believed live (only steers generation; the monitor does the real bookkeeping)
    acc = 0            # approximate accounting used to aim at the cap
    sizes = {}
    nid = 0
    for _ in range(length):
        r = rng.random()
        room = max(cap_bytes - acc, 0)
        if r < 0.30 and live:
            if rng.random() < 0.1:
                lines.append("free %d" % rng.randint(0, nid + 2))
                continue
            i = live.pop(rng.randrange(len(live)))
            acc -= sizes.pop(i)
            lines.append("free %d" % i)
            continue
        # choose a request
        k = rng.random()
        if k < 0.35:
            b = rng.randint(0, max(room // 4, 1))
        elif k < 0.60:
            b = max(room - HDR + rng.randint(-3, 3), 0)              # around what is left under the cap
        elif k < 0.70:
            b = cap_bytes - HDR + rng.randint(-2, 2)                  # around the whole cap
        elif k < 0.78:
            b = rng.choice([W - 1 - 2 * HDR - rng.randint(0, 100), HALF - HDR + rng.randint(-2, 2),
                            W - acc - HDR - rng.randint(1, 64) if acc > 80 else HALF])
        else:
            b = rng.randint(0, 64)
        b %= W
        if wraps_header(b):
            b = 0
        ok = rng.random() >= 0.12
        if rng.random() < 0.4:
            # as calloc: factor the request (or use a wrapping product)
            if b > 0 and rng.random() < 0.8:
                d = rng.choice([1, 2, 3, 4, 8, 16])
                nm, sz = (d, b // d) if rng.random() < 0.5 else (b // d, d)
            else:
                nm, sz = rng.choice([(1 << 32, 1 << 32), ((1 << 61) + rng.randint(0, 3), 8), (0, rng.randint(0, 99)),
                                     (rng.randint(0, 99), 0)])
            b = (nm * sz) % W
            if wraps_header(b):
                nm, sz, b = 1, 0, 0
            ln = line_calloc(nm, sz, ok)
            ok = ln.endswith(" 1")
            lines.append(ln)
        else:
            ln = line_malloc(b, ok)
            ok = ln.endswith(" 1")
            lines.append(ln)
        a = (b + HDR) % W
        if ok and (acc + a) % W <= cap_bytes:
            live.append(nid)
            sizes[nid] = a
            acc = (acc + a) % W
            nid += 1
    if rng.random() < 0.7:
        order = list(live)
        rng.shuffle(order)
        lines += ["free %d" % i for i in order]
    return lines


# --------------------------------------------------------------------------- monitor on the implementation's output

def parse_obs(ln):
    """'ptr 3 alloc=41 live=0:18,1:23' -> (res, id, alloc, [(id, hdr)])"""
    w = ln.split()
    if not w or w[0] not in ("ptr", "null", "freed", "nofree"):
        return None
    idx = 1
    rid = None
    if w[0] == "ptr":
        rid = int(w[1])
        idx = 2
    alloc = int(w[idx].split("=", 1)[1])
    lv = w[idx + 1].split("=", 1)[1]
    live = [] if lv == "-" else [tuple(int(x) for x in e.split(":")) for e in lv.split(",")]
    return w[0], rid, alloc, live


def monitor(lines, obs, cap_bytes, hdr):
    """returns None or (index, failing clause) evaluating C07's allocator clauses on the real output"""
    prev_alloc, prev_live = 0, []
    for i, (ln, o) in enumerate(zip(lines, obs)):
        p = parse_obs(o)
        if p is None:
            return i, "unparsable observation %r" % o
        res, rid, alloc, live = p
        if alloc != sum(h for _, h in live):
            return i, "accounting_exact: accounted %d != sum of live header words %d" % (alloc, sum(h for _, h in live))
        if alloc > cap_bytes:
            return i, "cap_respected: accounted %d > cap %d" % (alloc, cap_bytes)
        w = ln.split()
        if res in ("null", "nofree"):
            if alloc != prev_alloc or live != prev_live:
                return i, "refusal_changes_nothing: state changed by a refused %s" % w[0]
        if w[0] in ("malloc", "calloc"):
            b = int(w[1]) % W if w[0] == "malloc" else (int(w[1]) * int(w[2])) % W
            ok = w[-1] != "0"
            a = (b + hdr) % W
            fits = (prev_alloc + a) % W <= cap_bytes
            if res == "ptr":
                if live[:-1] != prev_live or live[-1][1] != a or alloc != prev_alloc + a:
                    return i, "granted block not accounted as request + header"
                if not fits:
                    return i, "cap test: request granted although allocated + alloc_size > cap"
                if not ok:
                    return i, "block handed out although the OS refused"
            elif res == "null":
                if fits and ok:
                    return i, "request under the cap refused although the OS granted it"
            else:
                return i, "unexpected result %s for %s" % (res, w[0])
        elif w[0] == "free":
            ident = int(w[1])
            was = [e for e in prev_live if e[0] == ident]
            if was:
                if res != "freed" or live != [e for e in prev_live if e[0] != ident] or alloc != prev_alloc - was[0][1]:
                    return i, "free did not return exactly the block's accounted size"
            elif res != "nofree":
                return i, "free of a dead id reported %s" % res
        prev_alloc, prev_live = alloc, live
    return None


def shrink(lines, fails):
    """greedy line removal keeping `fails(lines)` true"""
    cur = list(lines)
    changed = True
    while changed and len(cur) > 1:
        changed = False
        for i in range(len(cur)):
            cand = cur[:i] + cur[i + 1:]
            try:
                if fails(cand):
                    cur = cand
                    changed = True
                    break
            except Exception:
                pass
    return cur


# --------------------------------------------------------------------------- the tie

def compare_one(binp, variant, cap_kb, hdr, name, lines, seed, out, stats):
    script = "\n".join(lines) + "\n"
    cap_bytes = (cap_kb * 1024) % W

    def both(ls):
        sc = "\n".join(ls) + "\n"
        rc, impl, err = run_impl(binp, sc)
        model = C.run_drv("alloc", sc, args=["--cap-kb", str(cap_kb), "--hdr", str(hdr)])
        return rc, impl, err, model

    rc, impl, err, model = both(lines)
    stats["scripts"] += 1
    stats["ops"] += len(lines)
    body = impl[:len(lines)]
    tail = impl[len(lines):]
    for ln, o in zip(lines, body):
        stats["op_hist"][ln.split()[0]] = stats["op_hist"].get(ln.split()[0], 0) + 1
        stats["res_hist"][o.split()[0]] = stats["res_hist"].get(o.split()[0], 0) + 1
    crashed = rc != 0 or not tail or not tail[-1].startswith("end ")
    verdict = None if crashed else monitor(lines, body, cap_bytes, hdr)
    end_bad = (not crashed) and not tail[-1].startswith("end alloc=0 ")
    differs = body != model[:len(lines)] or len(model) != len(lines)
    if not (crashed or verdict or end_bad or differs):
        return True
    # shrink on the same symptom
    def fails(ls):
        r2, i2, e2, m2 = both(ls)
        b2, t2 = i2[:len(ls)], i2[len(ls):]
        cr = r2 != 0 or not t2 or not t2[-1].startswith("end ")
        if crashed:
            return cr
        if verdict:
            return (not cr) and monitor(ls, b2, cap_bytes, hdr) is not None
        if end_bad:
            return (not cr) and not t2[-1].startswith("end alloc=0 ")
        return (not cr) and b2 != m2[:len(ls)]
    small = shrink(lines, fails)
    rc2, impl2, err2, model2 = both(small)
    replay = {"component": "alloc", "variant": variant, "cap_kb": cap_kb, "seed": seed, "case": name,
              "script": small, "impl": impl2, "model": model2, "stderr": err2[-3000:]}
    if crashed:
        replay["failing_clause"] = "sanitizer report / abnormal exit (rc=%d)" % rc2
        out.violation("alloc.c: crash or sanitizer report on an alloc/free script", replay)
    elif verdict:
        replay["failing_clause"] = monitor(small, impl2[:len(small)], cap_bytes, hdr)
        out.violation("alloc.c violates the accounting/cap clauses of C07", replay)
    elif end_bad:
        replay["failing_clause"] = "free_returns_to_baseline: %s" % impl2[-1]
        out.violation("alloc.c: accounting not back at 0 after every block was freed", replay)
    else:
        replay["failing_clause"] = "model/code correspondence (Cjet.Alloc.step; theorems cap_respected, accounting_exact)"
        out.violation("alloc model and alloc.c disagree, property clauses hold on the implementation",
                      replay, no_input=True)
    return False


def run_alloc_tie(ctx, out):
    """Runs the allocator tie.  Returns a dict of counts (also stored in out.coverage['alloc_tie'])."""
    stats = {"scripts": 0, "ops": 0, "disagreements": 0, "op_hist": {}, "res_hist": {}, "variants": {},
             "samples": []}
    try:
        bins = {"default": build("default"), SMALL: build(SMALL)}
    except C.BuildError as ex:
        out.violation("alloc harness no longer builds against the tree", {"error": str(ex)[-4000:]}, no_input=True)
        stats["disagreements"] += 1
        out.coverage["alloc_tie"] = stats
        return stats
    caps = {"default": int(C.config_values("default")["CONFIG_MAX_HEAPSIZE_IN_KBYTE"]), SMALL: SMALL_KB}
    # generated Lean constants must be the ones of the unchanged configuration and platform
    gen = open(os.path.join(C.LEAN, "Cjet", "Generated", "Alloc.lean")).read()
    for variant, binp in bins.items():
        rc, impl, err = run_impl(binp, "info\n")
        want = "info cap_kb=%d factor=1024 hdr=%d bits=64" % (caps[variant], HDR)
        model = C.run_drv("alloc", "info\n", args=["--cap-kb", str(caps[variant]), "--hdr", str(HDR)])
        if rc != 0 or not impl or impl[0] != want or model[:1] != [want]:
            out.violation("alloc: configuration seen by harness and model differ",
                          {"variant": variant, "impl": impl[:2], "model": model[:2], "want": want, "stderr": err[-2000:]},
                          no_input=True)
            stats["disagreements"] += 1
    if ("def capKByte : Nat := %d" % caps["default"]) not in gen or ("def headerSize : Nat := %d" % HDR) not in gen:
        out.violation("Generated/Alloc.lean does not carry the tree's cap / header size",
                      {"generated": gen, "cap_kb": caps["default"]}, no_input=True)
        stats["disagreements"] += 1
    n_random = {"default": 60 if not ctx.thorough else 600, SMALL: 240 if not ctx.thorough else 4000}
    for variant, binp in bins.items():
        cap_kb = caps[variant]
        cap_bytes = cap_kb * 1024
        v = {"cap_bytes": cap_bytes, "directed": 0, "random": 0}
        for name, lines in directed(cap_bytes):
            ok = compare_one(binp, variant, cap_kb, HDR, name, lines, ctx.seed, out, stats)
            v["directed"] += 1
            stats["disagreements"] += 0 if ok else 1
            if len(stats["samples"]) < 3:
                stats["samples"].append({"variant": variant, "case": name, "script": lines[:8]})
        for i in range(n_random[variant]):
            rng = C.rng("c07-alloc", variant, i)
            length = rng.choice([8, 20, 40, 80]) if variant == SMALL else rng.choice([6, 12, 24])
            lines = random_script(rng, cap_bytes, length)
            if not lines:
                continue
            ok = compare_one(binp, variant, cap_kb, HDR, "random-%d" % i, lines, ctx.seed, out, stats)
            v["random"] += 1
            stats["disagreements"] += 0 if ok else 1
            if not ok and stats["disagreements"] >= 3:
                break
        stats["variants"][variant] = v
    stats["distinct_results"] = sorted(stats["res_hist"])
    out.coverage["alloc_tie"] = stats
    return stats
