"""C08 — access control.  Proof: Cjet.Props.C08; tie: simk with generated credential files (users x group sets), fresh
allocations filled with an adversarial pattern (uninitialised group words would not be zero), and the local-only-add
build; monitor: visibility / set / call follow the authenticated user's groups, passwords never in output or syslog."""
from vlib import common as C
from vlib import dcheck, directed
from vlib.daemon import Scenario, obj

LEVEL = "proof"


def junk_family():
    """unauthenticated peers on both transports, allocator handing out non-zero memory"""
    out = []
    users = [{"name": "alice", "password": "pw-alice", "auth": obj(fetchGroups=["g0"], setGroups=["g0"], callGroups=["g0"]), "readonly": False, "admin": False}]
    for junk in (255, 1, 170):
        for tr in ("raw", "ws", "uds"):
            st = [("raw", "JUNK %d" % junk), ("connect", 0, "raw", "local6"), ("connect", 1, tr, "unix" if tr == "uds" else "remote6"),
                  ("msg", 0, obj(method="authenticate", params=obj(user="alice", password="pw-alice"), id=1)),
                  ("msg", 0, obj(method="add", params=obj(path="s", value=1, access=obj(fetchGroups=["g0"], setGroups=["g0"])), id=2)),
                  ("msg", 0, obj(method="add", params=obj(path="m", access=obj(fetchGroups=["g0"], callGroups=["g0"])), id=3)),
                  ("msg", 0, obj(method="add", params=obj(path="plain", value=7), id=31)),
                  ("msg", 0, obj(method="add", params=obj(path="plainm"), id=32)),
                  ("msg", 0, obj(method="fetch", params=obj(id="own"), id=33)),
                  ("msg", 0, obj(method="get", params=obj(), id=34)),
                  ("msg", 0, obj(method="set", params=obj(path="plain", value=8), id=35)),
                  ("msg", 0, obj(method="call", params=obj(path="plainm"), id=36)),
                  ("msg", 1, obj(method="fetch", params=obj(id="f"), id=1)),
                  ("msg", 1, obj(method="get", params=obj(), id=2)),
                  ("msg", 1, obj(method="set", params=obj(path="s", value=2), id=3)),
                  ("msg", 1, obj(method="call", params=obj(path="m"), id=4)),
                  ("msg", 1, obj(method="authenticate", params=obj(user="alice", password="wrong-one"), id=5)),
                  ("msg", 1, obj(method="get", params=obj(), id=6)),
                  ("msg", 0, obj(method="change", params=obj(path="s", value=3), id=4)),
                  ("quiesce",), ("eof", 0), ("eof", 1), ("quiesce",)]
            out.append(Scenario(st, users=users, name="junk-%d-%s" % (junk, tr)))
    return out


def run(ctx, out):
    dcheck.run_property(ctx, out, "C08", "mon_c08", n_quick=300, n_thorough=5000,
                        gen_kw=dict(auth=True, ws_share=0.35, batches=0.08, malformed=0.02, timers=False), directed=junk_family() + directed.reauth() + directed.reauth_after_fetch() + directed.no_groups_file() + directed.locked_accounts())
    dcheck.run_more(ctx, out, "C08", "mon_c08", n_quick=120, n_thorough=1500,
                    gen_kw=dict(variant="localonly", ws_share=0.3, timers=False), tag="localonly")
    # origin classification: the real is_localhost / accept path against Cjet.Accept (every byte of the loopback patterns perturbed)
    from vlib import accept_tie
    accept_tie.run_accept_tie(ctx, out)
    out.assumptions += ["crypt(3) is outside the model (the model compares plaintext; the credential file holds SHA-512 crypt hashes of the same passwords)",
                        "log lines are judged on the real syslog calls captured by the harness"]
