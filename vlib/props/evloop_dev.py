"""Development entry for the evloop slice: `./check evloop_dev --tier quick|thorough`.
Audits lean/Cjet/Props/EVLOOP_DEV.lean (= the theorems of Cjet.Props.Evloop) and runs the tie
vlib/evloop_tie.py on the current tree.  The tie itself is called from the C06 and C11 checks."""
from vlib import evloop_tie

LEVEL = "proof"
DRIVERS = ["evloop"]


def run(ctx, out):
    evloop_tie.run_evloop_tie(ctx, out)
    out.coverage["traces_validated_against_impl"] = out.coverage.get("evloop_scripts", 0)
    out.coverage["exhaustive"] = bool(out.coverage.get("evloop_exhaustive"))
