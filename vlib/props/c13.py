"""C13 — HTTP front door: non-upgrades get an error and leave nothing behind.

Proof: Cjet.Props.C13 over the lifecycle model Cjet.Http (ledger of descriptor / buffered socket / http_connection +
connection list / websocket_peer + peer list + count / routing table; every code path of the accept, request-line,
header-line, reader-ending and shutdown code as a sequence of primitive statements).

Tie (whole daemon on the simulated kernel, `simk`): request lines and header blocks — valid upgrades, wrong path /
method / version, malformed lines, garbage, every truncation point and every single-byte corruption of a valid request,
over-long lines, Sec-WebSocket-* anomalies, allocation / epoll_ctl / write failures — under several segmentations,
each followed by QUIESCE and then EOF / RST / EPOLLERR or left open until SIGTERM.  From the daemon's log
(`HPE`, `URLHANDLER`, `PEER`, `SEND`, `R`, `EPCTL`, `CLOSE`, `ALLOCFAILED` + call stack) the model's event sequence of
every connection is derived and run through `drv_http`; compared: every event is admissible in the model's phase, the
order of observable statements (epoll add, peer registration, status writes, epoll del, close) per connection, and at
every snapshot the peer count, the open descriptors and the accounted heap (object sizes calibrated on the same binary).
Independently of the model the PROPERTY is evaluated on the implementation: a connection without a successful 101 wrote
nothing or exactly one well-formed 4xx/5xx response, is closed once its input ended, and the following snapshot equals the
one before the connection (peers, heap, descriptors); after SIGTERM everything is zero, no hygiene fault, no sanitizer
report."""
import concurrent.futures
import os
import re
import time

from vlib import common as C
from vlib import simk, simlog

LEVEL = "proof"
DRIVERS = ["http"]

TARGET = "/api/jet/"
ORIGINS = ("local4", "remote4", "local6", "mapped6", "remote6")
STATUS_RE = re.compile(rb"^HTTP/1\.[01] (\d{3}) [ -~]*\r\n(?:[!-~]+:[ -~]*\r\n)*\r\n$")
ERROR_CODES = (400, 404, 500)


# ------------------------------------------------------------------------------------------------ exchanges

class Ex:
    """One HTTP exchange on its own connection."""
    __slots__ = ("family", "name", "ins", "ending", "pre", "mid", "deferred", "expect", "origin", "wfault")

    def __init__(self, family, name, data, ending="eof", seg=None, pre=(), mid=(), deferred=False, expect=None,
                 origin="local4", wfault=False):
        self.family = family
        self.name = name
        self.ins = seg if seg is not None else [(data, None)]
        self.ending = ending
        self.pre = list(pre)
        self.mid = list(mid)
        self.deferred = deferred
        self.expect = expect
        self.origin = origin
        self.wfault = wfault

    def data(self):
        return b"".join(b for b, _ in self.ins)

    def lines(self, n):
        c = "c%d" % n
        out = list(self.pre)
        ins = []
        for b, rs in self.ins:
            if not b:
                continue
            ins.append("IN %s %s" % (c, b.hex()) + ((" " + ",".join(str(x) for x in rs)) if rs else ""))
        if self.deferred:
            out.append("+CONNECT http %s" % self.origin)
            out += [m.format(c=c) for m in self.mid]
            out += ["+" + x for x in ins]
            out.append("EPOLL lhttp:IN")
        else:
            out.append("CONNECT http %s" % self.origin)
            out += [m.format(c=c) for m in self.mid]
            out += ins
        out += ["ALLOCFAIL 0", "EPCTLFAIL 0", "QUIESCE"]
        if self.ending in ("eof", "rst", "err"):
            out.append("%s %s" % (self.ending.upper(), c))
        out.append("QUIESCE")
        return out

    def replay(self):
        return {"family": self.family, "name": self.name, "ending": self.ending, "expect": self.expect,
                "script": ["QUIESCE"] + self.lines(0) + ["TERM"]}

    def key(self):
        return (tuple((b, tuple(rs) if rs else None) for b, rs in self.ins), self.ending, tuple(self.pre),
                tuple(self.mid), self.deferred)


def request(method="GET", target=TARGET, version="HTTP/1.1", headers=None, drop=(), extra=(), tail=b""):
    h = [("Host", "localhost"), ("Upgrade", "websocket"), ("Connection", "Upgrade"),
         ("Sec-WebSocket-Key", simlog.WS_KEY), ("Sec-WebSocket-Version", "13"), ("Sec-WebSocket-Protocol", "jet")]
    if headers is not None:
        h = list(headers)
    h = [(k, v) for k, v in h if k not in drop] + list(extra)
    txt = "%s %s %s\r\n" % (method, target, version) + "".join("%s: %s\r\n" % kv for kv in h) + "\r\n"
    return txt.encode("latin-1") + tail


VALID = request()


def seg_whole(data):
    return [(data, None)]


def seg_bytewise(data):
    return [(data, [1] * len(data))]


def seg_events(data, cuts):
    cuts = sorted(set(c for c in cuts if 0 < c < len(data)))
    out = []
    last = 0
    for c in cuts + [len(data)]:
        out.append((data[last:c], None))
        last = c
    return out


def seg_random(data, r):
    mode = r.randrange(4)
    if mode == 0 or len(data) < 2:
        return seg_whole(data)
    if mode == 1:
        return seg_bytewise(data)
    if mode == 2:
        return seg_events(data, [r.randrange(1, len(data)) for _ in range(r.randrange(1, 6))])
    return [(data, [r.choice((1, 2, 3, 5, 7, 16, 23, 64)) for _ in range(r.randrange(1, 40))])]


def segmentations(data, r):
    """the fixed set of segmentations of the directed families: whole, one byte per read, one event per line,
    a cut inside every CRLF, random"""
    segs = [("whole", seg_whole(data)), ("bytewise", seg_bytewise(data))]
    crlf = [m.end() for m in re.finditer(rb"\r\n", data)]
    if crlf:
        segs.append(("per-line", seg_events(data, crlf)))
        segs.append(("split-crlf", seg_events(data, [c - 1 for c in crlf])))
    segs.append(("random", seg_random(data, r)))
    return segs


def directed(r):
    """(name, family, data, expect) — expect: '101', 400/404/500, 'close' (no status), None (no independent verdict)"""
    D = []
    a = D.append
    # valid upgrades
    a(("valid", "valid", VALID, "101"))
    a(("valid-no-protocol", "valid", request(drop=("Sec-WebSocket-Protocol",)), "101"))
    a(("valid-longer-path", "valid", request(target=TARGET + "x/y?z=1"), "101"))
    a(("valid-query", "valid", request(target=TARGET + "?a=b"), "101"))
    a(("valid-absolute-url", "valid", request(target="http://host:8080" + TARGET), "101"))
    a(("valid-leading-crlf", "valid", b"\r\n\r\n" + VALID, "101"))
    a(("valid-lowercase-names", "valid", request(headers=[("host", "h"), ("upgrade", "websocket"), ("connection", "upgrade"),
                                                          ("sec-websocket-key", simlog.WS_KEY), ("sec-websocket-version", "13")]), "101"))
    a(("valid-extra-headers", "valid", request(extra=[("X-A", "1"), ("Origin", "http://x"), ("Cookie", "a=b; c=d")]), "101"))
    a(("valid-protocol-list", "valid", request(drop=("Sec-WebSocket-Protocol",), extra=[("Sec-WebSocket-Protocol", "chat, jet ,x")]), "101"))
    a(("valid-extension-offer", "valid", request(extra=[("Sec-WebSocket-Extensions", "permessage-deflate; client_max_window_bits")]), "101"))
    a(("valid-then-garbage", "valid-tail", request(tail=b"\x00\xff garbage after the upgrade"), "101"))
    a(("valid-then-second-request", "valid-tail", VALID + VALID, "101"))
    a(("valid-then-close-frame", "valid-tail", request(tail=simlog.ws_frame(b"\x03\xe8", opcode=8)), "101"))
    # wrong path
    for t, st in (("/", 404), ("/api", 404), ("/api/jet", 404), ("/API/JET/", 404), ("/api/jet0/", 404), ("//api/jet/", 404),
                  ("/x" + TARGET, 404), ("*", 404), ("http://host", 400), ("http://host?x", 400)):
        a(("path-" + t, "wrong-path", request(target=t), st))
    # wrong method
    for m in ("POST", "PUT", "DELETE", "HEAD", "OPTIONS", "PATCH", "M-SEARCH"):
        a(("method-" + m, "wrong-method", request(method=m), 400))
    a(("method-CONNECT", "wrong-method", request(method="CONNECT", target="host:80"), 400))
    a(("method-CONNECT-path", "wrong-method", request(method="CONNECT", target=TARGET), 400))
    a(("method-unknown", "wrong-method", request(method="FOO"), 400))
    a(("method-lowercase", "wrong-method", request(method="get"), 400))
    # version
    a(("version-1.0", "wrong-version", request(version="HTTP/1.0"), 400))
    a(("version-0.9", "wrong-version", request(version="HTTP/0.9"), 400))
    a(("version-1.2", "wrong-version", request(version="HTTP/1.2"), "101"))
    a(("version-2.0", "wrong-version", request(version="HTTP/2.0"), None))
    a(("version-missing", "wrong-version", b"GET " + TARGET.encode() + b"\r\n" + VALID.split(b"\r\n", 1)[1], 400))
    a(("version-garbled", "wrong-version", request(version="HTTP/1.1x"), 400))
    a(("version-FOO", "malformed-line", request(version="FOO"), 400))            # the F17 trigger
    a(("version-HTTQ", "malformed-line", request(version="HTTQ/1.1"), 400))
    a(("version-lower", "malformed-line", request(version="http/1.1"), 400))
    # malformed request lines
    for nm, ln in (("two-spaces", b"GET  " + TARGET.encode() + b" HTTP/1.1"), ("tab", b"GET\t" + TARGET.encode() + b" HTTP/1.1"),
                   ("no-target", b"GET HTTP/1.1"), ("only-method", b"GET"), ("empty-target", b"GET  HTTP/1.1"),
                   ("nul-in-target", b"GET /api/jet/\x00 HTTP/1.1"), ("ctl-in-target", b"GET /api/\x01jet/ HTTP/1.1"),
                   ("space-in-target", b"GET /api/jet/ x HTTP/1.1"), ("trailing-space", b"GET " + TARGET.encode() + b" HTTP/1.1 "),
                   ("response-line", b"HTTP/1.1 200 OK"), ("lf-only-line", b"GET " + TARGET.encode() + b" HTTP/1.1\n"),
                   ("bare-cr", b"GET " + TARGET.encode() + b" HTTP/1.1\r"), ("high-bytes", b"G\xc3\x89T /api/jet/ HTTP/1.1"),
                   ("fragment", b"GET /api/jet/#frag HTTP/1.1"), ("percent", b"GET /api/jet/%zz HTTP/1.1"),
                   ("matching-then-bad", b"GET /api/jet/ FOO")):
        a(("line-" + nm, "malformed-line", ln + b"\r\n" + VALID.split(b"\r\n", 1)[1], None if nm in ("fragment", "percent", "lf-only-line", "bare-cr", "tab", "two-spaces") else 400))
    # header anomalies (the decision on these is C12's; here only the consequences are checked unless it is a syntax error)
    a(("hdr-no-upgrade", "headers", request(drop=("Upgrade",)), 400))
    a(("hdr-no-connection", "headers", request(drop=("Connection",)), 400))
    a(("hdr-upgrade-h2c", "headers", request(drop=("Upgrade",), extra=[("Upgrade", "h2c")]), None))
    a(("hdr-no-key", "headers", request(drop=("Sec-WebSocket-Key",)), None))
    a(("hdr-short-key", "headers", request(drop=("Sec-WebSocket-Key",), extra=[("Sec-WebSocket-Key", "abc")]), 400))
    a(("hdr-long-key", "headers", request(drop=("Sec-WebSocket-Key",), extra=[("Sec-WebSocket-Key", "A" * 25)]), 400))
    a(("hdr-dup-key", "headers", request(extra=[("Sec-WebSocket-Key", simlog.WS_KEY)]), None))
    a(("hdr-no-version", "headers", request(drop=("Sec-WebSocket-Version",)), None))
    a(("hdr-version-12", "headers", request(drop=("Sec-WebSocket-Version",), extra=[("Sec-WebSocket-Version", "12")]), 400))
    a(("hdr-version-dup", "headers", request(extra=[("Sec-WebSocket-Version", "13")]), None))
    a(("hdr-version-dup-bad", "headers", request(extra=[("Sec-WebSocket-Version", "8")]), 400))
    a(("hdr-protocol-other", "headers", request(drop=("Sec-WebSocket-Protocol",), extra=[("Sec-WebSocket-Protocol", "chat")]), 400))
    a(("hdr-protocol-empty", "headers", request(drop=("Sec-WebSocket-Protocol",), extra=[("Sec-WebSocket-Protocol", "")]), None))
    a(("hdr-no-colon", "headers", request(extra=[]).replace(b"Host: localhost", b"Host localhost"), 400))
    a(("hdr-space-in-name", "headers", request().replace(b"Host:", b"Ho st:"), 400))
    a(("hdr-ctl-in-value", "headers", request().replace(b"localhost", b"local\x01host"), None))
    a(("hdr-obs-fold", "headers", request().replace(b"Host: localhost\r\n", b"Host: local\r\n host\r\n"), None))
    a(("hdr-empty-name", "headers", request().replace(b"Host: localhost", b": localhost"), 400))
    a(("hdr-content-length-body", "headers", request(extra=[("Content-Length", "5")], tail=b"hello"), None))
    a(("hdr-chunked", "headers", request(extra=[("Transfer-Encoding", "chunked")], tail=b"5\r\nhello\r\n0\r\n\r\n"), None))
    a(("hdr-cl-twice", "headers", request(extra=[("Content-Length", "1"), ("Content-Length", "2")]), 400))
    a(("hdr-only-start-line", "headers", b"GET " + TARGET.encode() + b" HTTP/1.1\r\n\r\n", 400))
    a(("hdr-post-with-body", "headers", request(method="POST", extra=[("Content-Length", "3")], tail=b"abc"), 400))
    # garbage
    a(("garbage-empty-lines", "garbage", b"\r\n" * 40, "close"))
    a(("garbage-nul", "garbage", b"\x00" * 64 + b"\r\n", 400))
    a(("garbage-binary", "garbage", bytes(range(256)) + b"\r\n", 400))
    a(("garbage-tls-hello", "garbage", bytes.fromhex("16030100a5010000a10303") + bytes(r.randrange(256) for _ in range(120)) + b"\r\n", None))
    a(("garbage-jet-frame", "garbage", simlog.raw_frame('{"method":"info","id":1}') + b"\r\n", 400))
    a(("garbage-crlf-only", "garbage", b"\r\n", "close"))
    a(("garbage-lf-only", "garbage", b"\n\n\n\n", "close"))
    for i in range(6):
        n = r.choice((1, 2, 7, 30, 100, 300))
        a(("garbage-random-%d" % i, "garbage", bytes(r.randrange(256) for _ in range(n)) + b"\r\n", None))
    return D


def overlong(msgsize, r):
    """lines that do not fit the read buffer (CONFIG_MAX_MESSAGE_SIZE), and the boundary around it"""
    D = []
    start = ("GET %s HTTP/1.1\r\n" % TARGET).encode()
    for n in (msgsize - 2, msgsize - 1, msgsize, msgsize + 1, msgsize + 2, 2 * msgsize + 7):
        # request line of total length n (with CRLF) — n <= msgsize fits
        pad = n - len(b"GET  HTTP/1.1\r\n") - len(TARGET)
        line = ("GET %s%s HTTP/1.1\r\n" % (TARGET, "a" * pad)).encode()
        D.append(("start-line-%d" % n, "over-long", line + VALID.split(b"\r\n", 1)[1], "101" if n <= msgsize else "close"))
        # header line of total length n after a valid start line (the peer exists: peer-level error path)
        padh = n - len(b"X-Pad: \r\n")
        hl = ("X-Pad: %s\r\n" % ("b" * padh)).encode()
        D.append(("header-line-%d" % n, "over-long", start + hl + VALID.split(b"\r\n", 1)[1], "101" if n <= msgsize else "close"))
    D.append(("start-no-crlf", "over-long", b"GET " + TARGET.encode() + b"a" * (msgsize + 100), "close"))
    D.append(("header-no-crlf", "over-long", start + b"X: " + b"c" * (msgsize + 100), "close"))
    D.append(("garbage-no-crlf", "over-long", bytes(r.randrange(1, 256) for _ in range(3 * msgsize)).replace(b"\r\n", b"xx"), "close"))
    D.append(("fill-then-line", "over-long", start + b"Y: " + b"d" * (msgsize - 40) + b"\r\n" + VALID.split(b"\r\n", 1)[1], "101"))
    return D


# ------------------------------------------------------------------------------------------------ one run

def build_script(exs):
    lines = ["QUIESCE"]
    marks = []
    for i, ex in enumerate(exs):
        s0 = len(lines)
        lines += ex.lines(i)
        marks.append((s0, len(lines)))
    lines.append("TERM")
    return lines, marks


def status_of(payload):
    m = STATUS_RE.match(payload)
    return int(m.group(1)) if m else None


def classify_stack(stack):
    if "alloc_http_connection" in stack:
        return "connmem"
    if "buffered_socket_acquire" in stack:
        return "bsmem"
    if "init_peer" in stack or "add_routing_table" in stack:
        return "tablemem"
    if "alloc_websocket_peer" in stack:
        return "peermem"
    return "other"


def derive(lines, stderr):
    """Per connection: the model's event sequence [(step, text)], the implementation's observable statements in order,
    and notes about anything that could not be explained."""
    stacks = re.findall(r"ALLOCFAILED-STACK-BEGIN\n(.*?)ALLOCFAILED-STACK-END", stderr, re.S)
    conns = {}
    notes = []
    step = -1
    stepcmd = ""
    cur = None        # connection the daemon is working on (last descriptor event)
    nfail = 0

    def conn(h):
        n = int(h[1:])
        if n not in conns:
            conns[n] = {"ev": [], "tok": [], "phase": "listening", "acc": False, "url": None, "s101": None, "statuses": [],
                        "sent101": False, "closed_step": None, "accept_step": None, "allocfail": [], "inbuf": b"", "used": 0}
        return conns[n]

    def emit(c, text):
        c["ev"].append((step, text))

    n = len(lines)
    i = 0
    while i < n:
        ln = lines[i]
        w = ln.split(" ")
        k = w[0]
        if k == "STEP":
            step = int(w[1])
            stepcmd = " ".join(w[2:])
            if len(w) > 4 and w[2] in ("IN", "+IN") and w[3].startswith("c"):
                conn(w[3])["inbuf"] += simlog.unhex(w[4])
        elif k == "PRETERM":
            for c in conns.values():
                c["ev"].append((step, "term"))
                if c["phase"] != "done":
                    c["phase"] = "done"
        elif k == "ACCEPT" and w[3] == "lhttp":
            c = conn(w[1])
            c["acc"] = True
            c["accept_step"] = step
            cur = c
        elif k == "EPCTL" and w[2].startswith("c"):
            c = conn(w[2])
            if w[1] == "add":
                c["tok"].append("add")
                if c["acc"] and c["phase"] == "listening":
                    emit(c, "accept ok")
                    c["phase"] = "start"
            else:
                c["tok"].append("del")
        elif k == "EPCTLFAILED" and w[1].startswith("c"):
            c = conn(w[1])
            c["tok"].append("addfail")
            if c["phase"] == "listening":
                emit(c, "accept add")
                c["phase"] = "done"
        elif k == "ALLOCFAILED":
            site = classify_stack(stacks[nfail]) if nfail < len(stacks) else "unknown"
            nfail += 1
            if cur is not None:
                cur["allocfail"].append(site)
                if cur["phase"] == "listening" and cur["acc"]:
                    if site not in ("connmem", "bsmem"):
                        site = "connmem"          # no symbolised stack: the two cases have the same observables
                    emit(cur, "accept " + site)
                    cur["phase"] = "done"
        elif k == "R" and w[1].startswith("c"):
            c = conn(w[1])
            cur = c
            got = w[3].split("=")[1]
            if got in ("EOF", "ERR") and c["phase"] in ("start", "headers"):
                emit(c, "eof" if got == "EOF" else "readerror")
                c["phase"] = "done"
        elif k == "LOG" and len(w) > 2 and b"read buffer too small" in simlog.unhex(w[2]):
            if cur is not None and cur["phase"] in ("start", "headers"):
                emit(cur, "toolong")
                cur["phase"] = "done"
        elif k == "URLHANDLER":
            conn(w[1])["url"] = w[2] == "found=1"
        elif k == "SEND" and w[1].startswith("c"):
            c = conn(w[1])
            ret = int(w[2].split("=")[1])
            payload = simlog.unhex(w[4]) if len(w) > 4 else b""
            st = status_of(payload)
            if payload.startswith(b"HTTP/") and st is None:
                notes.append("c%s wrote a malformed status response %r" % (w[1][1:], payload[:60]))
                st = -1
            if st is not None:
                c["statuses"].append((st, ret))
                if st == 101:
                    c["s101"] = ret == 0
                    c["tok"].append("status:101:%d" % (1 if ret == 0 else 0))
                    if ret == 0:
                        c["sent101"] = True
                else:
                    c["tok"].append("status:%d" % st)
            elif c["phase"] != "ws" and not (c["phase"] == "done" and c["sent101"]):
                notes.append("c%s sent non-HTTP bytes before the upgrade: %s" % (w[1][1:], payload[:20].hex()))
        elif k == "PEER" and w[1].startswith("c"):
            if w[-1] == "ret=0":
                conn(w[1])["tok"].append("peer")
        elif k == "HPE":
            c = conn(w[1])
            cur = c
            f = dict(x.split("=", 1) for x in w[2:])
            parsed = f["nparsed"] == f["len"]
            chunk = c["inbuf"][c["used"]:c["used"] + int(f["len"])]
            c["used"] += int(f["len"])
            if c["phase"] == "start":
                # what did create do? look ahead to the next parser call / step
                create, sawfail, j = None, False, i + 1
                while j < n and not lines[j].startswith(("STEP ", "HPE ")):
                    x = lines[j].split(" ")
                    if x[0] == "PEER" and x[1] == w[1]:
                        create = "ok" if x[-1] == "ret=0" else "tablemem"
                    elif x[0] == "ALLOCFAILED":
                        sawfail = True
                    j += 1
                found = c["url"] is True
                valid = c["url"] is not None
                if create is None:
                    create = "peermem" if (sawfail and parsed and found) else "ok"
                # header data behind the request line: something follows the first LF that ends a non-empty line
                body = chunk.lstrip(b"\r\n")
                lf = body.find(b"\n")
                hdata = 0 <= lf < len(body) - 1
                emit(c, "startline %d %d %d %d %s" % (parsed, found, valid, hdata, create))
                c["url"] = None
                if not parsed:
                    c["phase"] = "done"
                elif found:
                    c["phase"] = "headers" if create == "ok" else "done"
            elif c["phase"] == "headers":
                up = parsed and f["upgrade"] == "1"
                s101 = "none" if c["s101"] is None else ("ok" if c["s101"] else "fail")
                emit(c, "headerline %d %d %s" % (parsed, up, s101))
                c["s101"] = None
                if not parsed:
                    c["phase"] = "done"
                elif up:
                    c["phase"] = "ws"
            else:
                notes.append("c%s: http_parser_execute in phase %s" % (w[1][1:], c["phase"]))
        elif k == "CLOSE" and w[1].startswith("c"):
            c = conn(w[1])
            c["tok"].append("close")
            c["closed_step"] = step
            if c["phase"] == "ws":
                emit(c, "wsend")
                c["phase"] = "done"
            elif c["phase"] in ("start", "headers"):
                if stepcmd.startswith(("ERR ", "WRITABLE ")):
                    emit(c, "readerror")
                    c["phase"] = "done"
                elif stepcmd != "TERM":
                    notes.append("c%s closed in phase %s without a reader-level cause (step `%s`)" % (w[1][1:], c["phase"], stepcmd[:40]))
                    c["phase"] = "done"
        i += 1
    return conns, notes


def parse_model(lines):
    """driver output -> list per connection of dicts (first = state after `new`)"""
    per = []
    for ln in lines:
        d = dict(x.split("=", 1) for x in ln.split(" ") if "=" in x)
        if ln.startswith("new "):
            per.append([d])
        elif ln.startswith("ERROR"):
            per.append([{"error": ln}]) if not per else per[-1].append({"error": ln})
        else:
            per[-1].append(d)
    return per


def model_tokens(outs):
    toks = []
    for d in outs[1:]:
        addfail = d.get("ev") == "accept" and d.get("phase") == "done"
        for a in (d.get("acts", "-").split(",") if d.get("acts", "-") != "-" else []):
            if a == "epollAdd":
                toks.append("addfail" if addfail else "add")
            elif a == "epollDel":
                toks.append("del")
            elif a == "closeFd":
                toks.append("close")
            elif a == "registerPeer":
                toks.append("peer")
            elif a.startswith("status."):
                _, code, ok = a.split(".")
                toks.append("status:101:%s" % ok if code == "101" else "status:%s" % code)
    return toks


def analyse(exs, marks, res, calib):
    """-> dict(prop=[...], model=[...], stats=...) for one run; `prop`: the property fails on the implementation,
    `model`: model and implementation differ."""
    prop, model = [], []
    lines = res["lines"]
    log = simlog.Log(lines)
    stats = {"events": {}, "statuses": {}, "allocfail": {}, "phases_at_end": {}, "conns": 0, "snaps": 0, "tokens": 0}
    if res["sanitizer"]:
        prop.append(("sanitizer", "sanitizer/abnormal exit: %s" % res["sanitizer"]))
    if log.bad:
        model.append(("script", "simk rejected a command: %s" % log.bad[:2]))
    for f in log.faults:
        prop.append(("hygiene", f[:160]))
    conns, notes = derive(lines, res["stderr"])
    for nt in notes:
        (prop if "malformed status" in nt or "non-HTTP bytes" in nt else model).append(("derive", nt))
    order = sorted(conns)
    script = "".join("new fixed 0 0\n" + "".join(t + "\n" for _, t in conns[n]["ev"]) for n in order)
    mouts = parse_model(C.run_drv("http", script)) if order else []
    per = dict(zip(order, mouts))
    # --- model vs implementation, per connection
    for n in order:
        c, mo = conns[n], per[n]
        stats["conns"] += 1
        for (stp, txt), d in zip(c["ev"], mo[1:]):
            kind = txt.split(" ")[0] + ("" if " " not in txt else ":" + txt.split(" ", 1)[1].replace(" ", ""))
            stats["events"][kind] = stats["events"].get(kind, 0) + 1
            if "error" in d:
                model.append(("driver", "c%d: %s on `%s`" % (n, d["error"], txt)))
            elif d.get("en") != "1":
                model.append(("admissible", "c%d: event `%s` (step %d) is not admissible in the model's phase" % (n, txt, stp)))
            if d.get("faults", "-") != "-":
                model.append(("fault", "c%d: the model records %s at `%s`" % (n, d["faults"], txt)))
        mt = model_tokens(mo)
        stats["tokens"] += len(mt)
        if mt != c["tok"]:
            model.append(("order", "c%d: observable statements differ: implementation %s, model %s" % (n, c["tok"], mt)))
        for s in c["allocfail"]:
            stats["allocfail"][s] = stats["allocfail"].get(s, 0) + 1

    def model_at(n, step):
        st = per[n][0]
        for (stp, _), d in zip(conns[n]["ev"], per[n][1:]):
            if stp <= step:
                st = d
        return st

    # --- snapshots: ledger of all connections
    h1, h2 = calib
    snaps = list(log.snaps) + ([log.final] if log.final else [])
    for sn in snaps:
        stats["snaps"] += 1
        stp = sn["step"] if sn is not log.final else 10 ** 9
        peers = 0
        fds = []
        heap = 0
        for n in order:
            d = model_at(n, stp)
            if "error" in d:
                continue
            peers += 1 if d["reg"] == "1" else 0
            if d["fd"].startswith("1/"):
                fds.append("c%d" % n)
            live = lambda k: d[k].startswith("1/")
            if live("peer"):
                heap += h2
            elif live("conn") and live("bs"):
                heap += h1
            elif live("conn") or live("bs") or live("rt"):
                heap += -1      # never at a snapshot
        tag = "FINAL" if sn is log.final else "SNAP@%d" % sn["step"]
        if sn["peers"] != peers:
            model.append(("peers", "%s: %d peers registered, model %d" % (tag, sn["peers"], peers)))
        if sorted(sn["fds"]) != sorted(fds):
            model.append(("fds", "%s: open descriptors %s, model %s" % (tag, sn["fds"], fds)))
        if sn["heap"] != heap:
            model.append(("heap", "%s: accounted heap %d, model %d" % (tag, sn["heap"], heap)))
    # --- the property on the implementation
    snap_at = {sn["step"]: sn for sn in log.snaps}
    for i, ex in enumerate(exs):
        s0, s1 = marks[i]
        c = conns.get(i)
        lc = log.conns.get(i)
        wire = lc.out if lc else b""
        statuses = c["statuses"] if c else []
        got101 = any(st == 101 and ret == 0 for st, ret in statuses)
        errs = [st for st, ret in statuses if st != 101]
        tag = "%s/%s" % (ex.family, ex.name)
        before = snap_at.get(s0 - 1)
        after_in = snap_at.get(s1 - (3 if ex.ending in ("eof", "rst", "err") else 2))
        after_end = snap_at.get(s1 - 1)
        closed_step = c["closed_step"] if c else None
        accepted = bool(c and c["acc"])
        outcome = "101" if got101 else (str(errs[0]) if errs else "close")
        stats["statuses"][outcome] = stats["statuses"].get(outcome, 0) + 1
        if not accepted:
            continue
        if not got101:
            if len(errs) > 1 or any(e not in ERROR_CODES for e in errs):
                prop.append(("status", "%s: a non-upgrade wrote the status lines %s" % (tag, errs)))
            sent = b"".join(simlog.unhex(x.split(" ")[4]) for x in lines if x.startswith("SEND c%d " % i) and len(x.split(" ")) > 4)
            if not ex.wfault:
                ok_wire = wire == b"" or (status_of(wire) in ERROR_CODES)
                if not ok_wire:
                    prop.append(("wire", "%s: bytes on the wire of a non-upgrade are not one error response: %r" % (tag, wire[:80])))
            elif not sent.startswith(wire):
                prop.append(("wire", "%s: bytes on the wire are not a prefix of what was handed to the socket" % tag))
        if ex.expect is not None and not ex.pre and not ex.mid:
            exp = str(ex.expect)
            if exp != outcome and not (ex.ending == "hold" and exp == "close"):
                prop.append(("verdict", "%s: expected %s, the daemon answered %s" % (tag, exp, outcome)))
            if exp in ("400", "404", "500") and after_in is not None and ("c%d" % i) in after_in["fds"]:
                prop.append(("refused-open", "%s: refused with %s but the connection is still open" % (tag, exp)))
        ended_by_script = ex.ending in ("eof", "rst", "err")
        if ended_by_script and after_end is not None:
            # the input ended (after everything sent was consumed): the connection must be gone ...
            if ("c%d" % i) in after_end["fds"]:
                prop.append(("not-closed", "%s: still open after %s" % (tag, ex.ending.upper())))
            # ... and nothing of it may be left
            if before is not None:
                for fld in ("peers", "heap"):
                    if after_end[fld] != before[fld]:
                        prop.append(("left-behind", "%s: %s before the connection %s, after its end %s" % (tag, fld, before[fld], after_end[fld])))
                if sorted(after_end["fds"]) != sorted(before["fds"]):
                    prop.append(("left-behind", "%s: descriptors before %s, after %s" % (tag, before["fds"], after_end["fds"])))
        if closed_step is not None and not got101 and after_in is not None and closed_step <= after_in["step"] and before is not None:
            # refused / ended during the input: already then everything must be back
            for fld in ("peers", "heap"):
                if after_in[fld] != before[fld]:
                    prop.append(("left-behind", "%s: %s before the connection %s, after the refusal %s" % (tag, fld, before[fld], after_in[fld])))
        ph = "closed" if closed_step is not None and (after_in is None or closed_step <= after_in["step"]) else "open"
        stats["phases_at_end"][ph] = stats["phases_at_end"].get(ph, 0) + 1
    # --- after SIGTERM
    if log.final is None:
        prop.append(("term", "no FINAL snapshot (run_io did not return)"))
    else:
        if log.final["peers"] != 0 or log.final["heap"] != 0 or log.final["fds"] or log.final["armed"]:
            prop.append(("term", "after SIGTERM: peers=%d heap=%d fds=%s armed=%s" % (log.final["peers"], log.final["heap"], log.final["fds"], log.final["armed"])))
        if log.exit_heap not in (0, None):
            prop.append(("term", "heap_total at exit %s" % log.exit_heap))
        if log.runio_ret not in (0, None):
            prop.append(("term", "run_io returned %s" % log.runio_ret))
    return {"prop": prop, "model": model, "stats": stats}


_BIN = None
_CALIB = None


def _init(binp, calib):
    global _BIN, _CALIB
    _BIN, _CALIB = binp, calib


def do_run(exs):
    lines, marks = build_script(exs)
    res = simk.run(_BIN, lines, timeout=120)
    try:
        a = analyse(exs, marks, res, _CALIB)
    except Exception as ex:   # analysis failed on an unexpected log: treat as a correspondence failure with the log attached
        import traceback
        a = {"prop": [], "model": [("analysis", traceback.format_exc()[-1500:])], "stats": {"events": {}, "statuses": {}, "allocfail": {},
                                                                                            "phases_at_end": {}, "conns": 0, "snaps": 0, "tokens": 0}}
    a["script"] = lines
    if a["prop"] or a["model"]:
        a["log"] = res["lines"][-400:]
        a["stderr"] = res["stderr"][-3000:]
    return a


CALIB_SCRIPT = ["QUIESCE", "CONNECT http local4", "QUIESCE", "IN c0 " + ("GET %s HTTP/1.1\r\n" % TARGET).encode().hex(), "QUIESCE", "TERM"]


def calibrate(binp):
    """accounted heap of a connection that reads its request line (connection + buffered socket) and of one in the header
    phase (+ websocket_peer + routing table), measured on this binary.  Returns (h1, h2) or None with the run when the
    daemon does not even survive this."""
    r = simk.run(binp, CALIB_SCRIPT)
    log = simlog.Log(r["lines"])
    if r["sanitizer"] or log.faults or len(log.snaps) != 3:
        return None, r
    h1 = log.snaps[1]["heap"] - log.snaps[0]["heap"]
    h2 = log.snaps[2]["heap"] - log.snaps[0]["heap"]
    if not (0 < h1 < h2) or log.snaps[2]["peers"] != log.snaps[0]["peers"] + 1:
        return None, r
    return (h1, h2), r


# ------------------------------------------------------------------------------------------------ generation

def generate(ctx, msgsize):
    thorough = ctx.thorough
    r = C.rng("c13", "gen")
    exs = []
    endings = ("eof", "rst", "err", "hold")
    dire = directed(r) + overlong(msgsize, r)
    for nm, fam, data, expect in dire:
        segs = segmentations(data, r)
        if len(data) > 3000 and not thorough:
            segs = [s for s in segs if s[0] != "bytewise"]
        for k, (sn, seg) in enumerate(segs):
            for e in (endings if (thorough or k < 2) else (endings[(len(exs)) % 4], endings[(len(exs) + 1) % 4])):
                exs.append(Ex(fam, "%s[%s,%s]" % (nm, sn, e), data, ending=e, seg=seg, expect=expect, origin=ORIGINS[len(exs) % 5]))
    # every truncation point of a valid request, then EOF / RST (/ ERR / SIGTERM)
    trunc_src = [("valid", VALID)] + ([("post", request(method="POST")), ("v10", request(version="HTTP/1.0"))] if thorough else [])
    for tn, src in trunc_src:
        pts = range(0, len(src))
        for k in pts:
            for e in ("eof", "rst"):
                exs.append(Ex("truncated", "%s[:%d]+%s" % (tn, k, e), src[:k], ending=e, expect="close" if tn == "valid" else None))
            if thorough or k % 2 == 0:
                exs.append(Ex("truncated", "%s[:%d]+%s/seg" % (tn, k, ("err", "hold")[k % 2]), src[:k], ending=("err", "hold")[k % 2],
                              seg=seg_random(src[:k], r), expect="close" if tn == "valid" else None))
    # every single-byte corruption position
    repl = (lambda b: b ^ 0x20, lambda b: b ^ 0x01, lambda b: 0x00, lambda b: 0xff, lambda b: 0x20, lambda b: 0x0d, lambda b: 0x0a,
            lambda b: 0x3a, lambda b: b ^ 0x80)
    for k in range(len(VALID)):
        fs = repl if thorough else (repl[k % len(repl)], repl[(k * 7 + 3) % len(repl)], repl[(k * 5 + 1) % len(repl)], repl[(k + 4) % len(repl)])
        for j, f in enumerate(fs):
            nb = f(VALID[k]) & 0xff
            if nb == VALID[k]:
                continue
            data = VALID[:k] + bytes([nb]) + VALID[k + 1:]
            seg = seg_whole(data) if j % 2 == 0 else seg_random(data, r)
            exs.append(Ex("corrupted", "byte%d=%02x" % (k, nb), data, ending=("eof", "rst", "hold", "err")[(k + j) % 4], seg=seg))
    # deletions / insertions of one byte (thorough: every position)
    for k in range(0, len(VALID), 1 if thorough else 2):
        exs.append(Ex("corrupted", "del%d" % k, VALID[:k] + VALID[k + 1:], ending=("eof", "hold")[k % 2]))
        exs.append(Ex("corrupted", "ins%d" % k, VALID[:k] + bytes([r.randrange(256)]) + VALID[k:], ending=("rst", "eof")[k % 2]))
    # allocation failures: n-th allocation after the CONNECT / after the request arrives
    for nfail in range(1, 13):
        for data, nm, e in ((VALID, "valid", "eof"), (request(target="/nope"), "404", "eof"), (VALID[:60], "partial", "rst"), (VALID, "valid", "hold")):
            exs.append(Ex("allocfail", "ALLOCFAIL %d before CONNECT, %s, %s" % (nfail, nm, e), data, ending=e, pre=["ALLOCFAIL %d" % nfail]))
            if nfail <= 6:
                exs.append(Ex("allocfail", "ALLOCFAIL %d before IN, %s, %s" % (nfail, nm, e), data, ending=e, mid=["ALLOCFAIL %d" % nfail]))
                exs.append(Ex("allocfail", "ALLOCFAIL %d, data before accept, %s, %s" % (nfail, nm, e), data, ending=e,
                              pre=["ALLOCFAIL %d" % nfail], deferred=True))
    # event loop registration fails (F54 regression)
    for nfail in (1, 2, 3):
        for data, e in ((VALID, "eof"), (VALID[:30], "hold"), (b"", "rst")):
            exs.append(Ex("epctlfail", "EPCTLFAIL %d, %d bytes, %s" % (nfail, len(data), e), data, ending=e, pre=["EPCTLFAIL %d" % nfail]))
            exs.append(Ex("epctlfail", "EPCTLFAIL %d, data before accept, %s" % (nfail, e), data, ending=e, pre=["EPCTLFAIL %d" % nfail], deferred=True))
    # data already queued when the connection is accepted (first read inside the accept path)
    for j, (nm, fam, data, expect) in enumerate(dire):
        for e in (("eof", "hold", "rst") if thorough else (("eof", "hold", "rst")[j % 3],)):
            exs.append(Ex("data-before-accept", "%s,%s" % (nm, e), data, ending=e, deferred=True, expect=expect))
    # write failures while answering
    wm = ("err", "eagain", "1:err", "20:err", "27:err", "28:err", "157:err", "158:err", "10,10:eagain", "1,1,1:all", "0:err")
    for m in wm:
        for data, nm in ((VALID, "valid"), (request(target="/nope"), "404"), (request(version="HTTP/1.0"), "v10"), (b"GET /api/jet/ FOO\r\n", "bad-line"),
                         (request(drop=("Sec-WebSocket-Protocol",), extra=[("Sec-WebSocket-Protocol", "chat")]), "protocol")):
            for e in (("eof", "hold", "err") if thorough else (("eof", "hold", "err")[len(exs) % 3],)):
                exs.append(Ex("write-fault", "WMODE %s, %s, %s" % (m, nm, e), data, ending=e, mid=["WMODE {c} %s" % m], wfault=True))
    # structured random: request assembled from the grammar with random defects
    n_rand = 30000 if thorough else 2500
    for i in range(n_rand):
        rr = C.rng("c13", "rand", i)
        data = random_request(rr, msgsize)
        exs.append(Ex("random", "rand%d" % i, data, ending=rr.choice(endings), seg=seg_random(data, rr), origin=rr.choice(ORIGINS)))
    return exs


def random_request(r, msgsize):
    meth = r.choice(("GET",) * 6 + ("POST", "CONNECT", "get", "G ET", "", "OPTIONS"))
    tgt = r.choice((TARGET,) * 6 + ("/", "/api/jet", TARGET + "sub", "*", "http://h" + TARGET, "http://h", TARGET + "a" * r.choice((10, msgsize)), "/api/jet/ /"))
    ver = r.choice(("HTTP/1.1",) * 6 + ("HTTP/1.0", "HTTP/2.0", "FOO", "HTTP/1.", "", "HTTP/11.1"))
    hs = [("Host", "localhost"), ("Upgrade", r.choice(("websocket",) * 4 + ("WebSocket", "h2c", ""))),
          ("Connection", r.choice(("Upgrade",) * 4 + ("keep-alive, Upgrade", "close", "upgrade"))),
          ("Sec-WebSocket-Key", r.choice((simlog.WS_KEY,) * 4 + ("short", "A" * 30, ""))),
          ("Sec-WebSocket-Version", r.choice(("13",) * 5 + ("12", "130", ""))),
          ("Sec-WebSocket-Protocol", r.choice(("jet",) * 3 + ("chat, jet", "chat", "JET", "jet,")))]
    r.shuffle(hs)
    for _ in range(r.randrange(3)):
        hs.pop(r.randrange(len(hs)))
    for _ in range(r.randrange(3)):
        hs.insert(r.randrange(len(hs) + 1), r.choice((("X-Pad", "p" * r.choice((1, 50, msgsize - 20, msgsize + 5))), ("Sec-WebSocket-Key", simlog.WS_KEY),
                                                      ("Content-Length", r.choice(("0", "3", "x"))), ("Bad Name", "v"), ("Ok", "a\x00b"))))
    eol = r.choice((b"\r\n",) * 8 + (b"\n", b"\r"))
    txt = ("%s %s %s" % (meth, tgt, ver)).encode("latin-1") + eol + b"".join(("%s: %s" % kv).encode("latin-1") + eol for kv in hs) + eol
    if r.random() < 0.3:
        txt = txt[:r.randrange(len(txt) + 1)]
    if r.random() < 0.2:
        k = r.randrange(len(txt)) if txt else 0
        txt = txt[:k] + bytes([r.randrange(256)]) + txt[k + 1:]
    if r.random() < 0.15:
        txt += bytes(r.randrange(256) for _ in range(r.randrange(1, 40)))
    return txt


def multi_runs(ctx):
    """several connections in different phases at once, then SIGTERM (or one of them ends first)"""
    runs = []
    start = ("GET %s HTTP/1.1\r\n" % TARGET).encode()
    states = [b"", b"GET /api", start, start + b"Host: x\r\n", VALID[:-2], VALID, b"\r\n\r\n", start + b"Upgrade: websock"]
    n = 600 if ctx.thorough else 60
    for i in range(n):
        r = C.rng("c13", "multi", i)
        k = r.randrange(2, 9)
        exs = []
        for j in range(k):
            exs.append(Ex("concurrent", "multi%d.%d" % (i, j), r.choice(states), ending="hold", seg=None, origin=r.choice(ORIGINS)))
        runs.append(exs)
    return runs


def interleaved_script(r, k):
    """k connections whose inputs and endings are interleaved event by event (not expressible as sequential exchanges)"""
    start = ("GET %s HTTP/1.1\r\n" % TARGET).encode()
    reqs = [r.choice((VALID, request(target="/x"), request(version="HTTP/1.0"), b"GET /api/jet/ FOO\r\n", VALID[:r.randrange(len(VALID))],
                      start + b"X: " + b"a" * 600, request(method="POST"))) for _ in range(k)]
    lines = ["QUIESCE"] + ["CONNECT http %s" % r.choice(ORIGINS) for _ in range(k)]
    pos = [0] * k
    alive = set(range(k))
    while alive:
        j = r.choice(sorted(alive))
        if pos[j] >= len(reqs[j]):
            lines.append("%s c%d" % (r.choice(("EOF", "RST", "ERR", "QUIESCE")), j) if r.random() < 0.8 else "QUIESCE")
            if not lines[-1].startswith("QUIESCE"):
                alive.discard(j)
            elif r.random() < 0.3:
                alive.discard(j)
            if lines[-1].startswith("QUIESCE "):
                lines[-1] = "QUIESCE"
            continue
        n = r.randrange(1, 60)
        lines.append("IN c%d %s" % (j, reqs[j][pos[j]:pos[j] + n].hex()))
        pos[j] += n
        if r.random() < 0.2:
            lines.append("QUIESCE")
    lines += ["QUIESCE", "TERM"]
    return lines


def do_free(lines):
    """a free-form script: only the model tie and the global monitors apply"""
    res = simk.run(_BIN, lines, timeout=120)
    try:
        a = analyse([], [], res, _CALIB)
    except Exception:
        import traceback
        a = {"prop": [], "model": [("analysis", traceback.format_exc()[-1500:])], "stats": {"events": {}, "statuses": {}, "allocfail": {},
                                                                                            "phases_at_end": {}, "conns": 0, "snaps": 0, "tokens": 0}}
    # per connection: non-101 => at most one error status
    conns, _ = derive(res["lines"], res["stderr"])
    for n, c in conns.items():
        got101 = any(st == 101 and ret == 0 for st, ret in c["statuses"])
        errs = [st for st, ret in c["statuses"] if st != 101]
        if not got101 and (len(errs) > 1 or any(e not in ERROR_CODES for e in errs)):
            a["prop"].append(("status", "c%d: a non-upgrade wrote the status lines %s" % (n, errs)))
    a["script"] = lines
    if a["prop"] or a["model"]:
        a["log"] = res["lines"][-400:]
        a["stderr"] = res["stderr"][-3000:]
    return a


# ------------------------------------------------------------------------------------------------ entry point

def merge(total, st):
    for k, v in st.items():
        if isinstance(v, dict):
            d = total.setdefault(k, {})
            for kk, vv in v.items():
                d[kk] = d.get(kk, 0) + vv
        else:
            total[k] = total.get(k, 0) + v


def scenario_files():
    d = os.path.join(C.ROOT, "scenarios")
    out = []
    for f in sorted(os.listdir(d)) if os.path.isdir(d) else []:
        if f.startswith("C13-") and f.endswith(".txt"):
            lines = [ln.strip() for ln in open(os.path.join(d, f)) if ln.strip() and not ln.startswith("#")]
            out.append((f, lines))
    return out


def run(ctx, out):
    t0 = time.time()
    binp = simk.build()
    msgsize = int(C.config_values("default").get("CONFIG_MAX_MESSAGE_SIZE", 512))
    calib, cres = calibrate(binp)
    if calib is None:
        # accept, request line, SIGTERM: the smallest scenario there is already fails
        log = simlog.Log(cres["lines"])
        what = cres["sanitizer"] or (log.faults[0] if log.faults else "unexpected ledger at the snapshots: %s" % [
            (s["peers"], s["heap"], s["fds"]) for s in log.snaps])
        out.violation("C13 accept + request line + SIGTERM: %s" % what[:300],
                      {"property": "C13", "failing_clause": "sanitizer" if cres["sanitizer"] else "hygiene/ledger", "detail": [what],
                       "script": CALIB_SCRIPT, "variant": "default", "seed": C.base_seed(), "implementation_log": cres["lines"][-200:],
                       "stderr": cres["stderr"][-3000:]})
        out.coverage.update({"traces_validated_against_impl": 1, "evaluations": 1, "distinct_nontrivial": 1,
                             "rule": "the calibration scenario failed; nothing else was run"})
        return
    exs = generate(ctx, msgsize)
    # de-duplicate
    seen, uniq = set(), []
    for e in exs:
        k = e.key()
        if k not in seen:
            seen.add(k)
            uniq.append(e)
    exs = uniq
    per_run = 10
    # exchanges with fault injection armed before the CONNECT run alone with few neighbours so that an unfired fault cannot leak
    batches = [exs[i:i + per_run] for i in range(0, len(exs), per_run)]
    batches += multi_runs(ctx)
    free = [("scenario:" + f, lines) for f, lines in scenario_files()]
    for i in range(3000 if ctx.thorough else 200):
        r = C.rng("c13", "interleaved", i)
        free.append(("interleaved%d" % i, interleaved_script(r, r.randrange(2, 7))))
    total = {}
    fams = {}
    for e in exs:
        fams[e.family] = fams.get(e.family, 0) + 1
    failures = []
    nruns = 0
    with concurrent.futures.ProcessPoolExecutor(max_workers=min(C.NPROC, 16), initializer=_init, initargs=(binp, calib)) as pool:
        results = list(pool.map(do_run, batches, chunksize=4))
        fres = list(pool.map(do_free, [l for _, l in free], chunksize=2))
        for b, a in zip(batches, results):
            nruns += 1
            merge(total, a["stats"])
            if a["prop"] or a["model"]:
                failures.append((b, a))
        for (nm, lines), a in zip(free, fres):
            nruns += 1
            merge(total, a["stats"])
            if a["prop"] or a["model"]:
                failures.append((nm, a))
        # isolate: rerun every exchange of a failing batch alone
        reported = 0
        for b, a in failures:
            if reported >= 8:
                break
            if isinstance(b, str):
                report(out, b, None, a)
                reported += 1
                continue
            singles = list(pool.map(do_run, [[e] for e in b])) if len(b) > 1 else [a]
            bad = [(e, s) for e, s in zip(b, singles) if s["prop"] or s["model"]]
            if not bad:
                report(out, "batch of %d exchanges (fails only together)" % len(b), b, a)
                reported += 1
            for e, s in bad[:3]:
                # shrink: the same bytes in one piece
                if len(e.ins) > 1 or e.ins[0][1]:
                    e2 = Ex(e.family, e.name + " (unsegmented)", e.data(), ending=e.ending, pre=e.pre, mid=e.mid, deferred=e.deferred,
                            expect=e.expect, origin=e.origin, wfault=e.wfault)
                    s2 = do_run_local(binp, calib, [e2])
                    if s2["prop"] or s2["model"]:
                        e, s = e2, s2
                report(out, "%s/%s" % (e.family, e.name), [e], s)
                reported += 1
    # known findings of this property are all fixed: their replays ran above as scenario files (a recurrence is a violation)
    for e in C.open_findings("C13"):
        out.known_finding("%s %s" % (e.get("id"), e.get("what", "")))
    nontrivial = len(exs) + sum(len(b) for b in multi_runs(ctx)) + len(free)
    out.coverage.update({
        "traces_validated_against_impl": total.get("conns", 0),
        "daemon_runs": nruns,
        "evaluations": total.get("snaps", 0) + total.get("tokens", 0) + sum(total.get("events", {}).values()),
        "snapshots_compared": total.get("snaps", 0),
        "observable_statements_compared": total.get("tokens", 0),
        "model_events": sum(total.get("events", {}).values()),
        "distinct_nontrivial": nontrivial,
        "rule": "distinct (bytes, segmentation, ending, injected fault) exchanges after de-duplication + concurrent and interleaved scenarios",
        "families": fams,
        "model_event_histogram": dict(sorted(total.get("events", {}).items(), key=lambda kv: -kv[1])),
        "outcome_histogram": total.get("statuses", {}),
        "allocation_failures_fired_by_site": total.get("allocfail", {}),
        "state_when_input_ended": total.get("phases_at_end", {}),
        "object_sizes_calibrated": {"connection+buffered_socket": calib[0], "+websocket_peer+routing_table": calib[1]},
        "read_buffer": msgsize,
        "samples": [batches[0][0].replay()["script"], batches[len(batches) // 3][0].replay()["script"][:8], free[-1][1][:12]],
        "exhaustive": {"truncation points of the valid request (x EOF/RST)": True,
                       "single-byte corruption positions of the valid request": True,
                       "replacement bytes per position (9 operators)": bool(ctx.thorough),
                       "model: Accept(5) x startLine(2^4 x 3) x headerLine(2^2 x 3) outcomes by case split in the proofs": True},
        "tie_wall_s": round(time.time() - t0, 1),
    })
    out.assumptions += [
        "http-parser (tokenisation of request line and headers) is an observed oracle: the model's events carry what http_parser_execute returned (nparsed, upgrade) as logged by the harness wrapper",
        "find_url_handler and the handler's create are observed (URLHANDLER / PEER / ALLOCFAILED lines); which allocation failed is read from the symbolised call stack",
        "the WebSocket phase after a 101 is abstract (`wsEnd`): C05/C12 own it; here only that its end releases connection and peer together",
        "permessage-deflate is not negotiated (the daemon passes compression level 0), so the extension response buffer does not exist",
        "prepare_peer_socket failures (fcntl/getsockname/setsockopt) are modelled but not injectable in the simulated kernel",
        "whether a request with missing Sec-WebSocket-Key/Version deserves a 101 is C12's question (F32); C13 checks the consequences of whatever was decided",
    ]


def do_run_local(binp, calib, exs):
    _init(binp, calib)
    return do_run(exs)


def report(out, what, exs, a):
    clause = (a["prop"] or a["model"])[0]
    replay = {"property": "C13", "what": what, "failing_clause": clause[0], "detail": [x[1] for x in (a["prop"] + a["model"])][:12],
              "script": a["script"], "variant": "default", "seed": C.base_seed(), "implementation_log": a.get("log"),
              "stderr": a.get("stderr"), "exchanges": [e.replay() for e in exs] if exs else None,
              "replay_with": "python3 -c \"from vlib import simk; print('\\n'.join(simk.run(simk.build(), SCRIPT)['lines']))\""}
    if a["prop"]:
        txt = a["prop"][0][1]
        out.violation("C13 %s" % (txt[:300] if txt.startswith(what.split(" (unsegmented)")[0]) else "%s: %s" % (what, txt[:300])), replay)
    else:
        replay["no_longer_checks"] = "correspondence Cjet.Http <-> daemon (clause `%s`); theorems of Cjet.Props.C13 are about the model" % clause[0]
        out.violation("C13 %s: model and implementation differ: %s" % (what, a["model"][0][1][:300]), replay, no_input=True)
