"""Tie of the epoll dispatcher: lean/Cjet/Evloop.lean  <->  /repo/src/linux/eventloop_epoll.c.

`run_evloop_tie(ctx, out)` (called from the C06 / C11 checks and from vlib/props/evloop_dev.py)

 * builds harness/comp/evloop.c + the REAL eventloop_epoll.c of the current tree under ASan/UBSan with
   epoll_create/epoll_ctl/epoll_wait/close wrapped (scripted kernel), io_events really free()d on remove;
 * runs scripts through the harness and through the model driver `drv_evloop` and compares the two
   observation streams line by line (calls, removes, adds, return codes AND the internal state
   current_ev / pending_events[] / interest list after every callback);
 * independently of the Lean model, judges every implementation trace against the clauses of the property
   (`monitor`): no call after remove / no use after free (sanitizer), error mask -> error function only,
   read before write, at most one call per function and entry, others undisturbed, abort stops everything,
   EINTR continues / other errno aborts, go_ahead, pending array withdrawn after every batch.
   A failed clause is a property failure with a failing input (the shrunk script); model and code
   differing without any failed clause is reported with no_input=True.

Families: directed corpus, structured random scripts (C.rng("evloop", i)), and an exhaustive enumeration
of one batch of <= 2 (quick) / <= 3 (thorough) events x masks x callback answers (see `EXH_*`).
"""
import concurrent.futures
import os
import re
import shutil
import time

from vlib import common as C

LINK = ["-Wl,--wrap=epoll_create,--wrap=epoll_ctl,--wrap=epoll_wait,--wrap=close"]
IN, OUT, ERR, HUP, RDHUP, PRI = 0x1, 0x4, 0x8, 0x10, 0x2000, 0x2
WORKERS = max(1, min(5, (C.NPROC or 2) - 1))
CHUNK = 1500


# --------------------------------------------------------------------------- build / run

def harness_sources():
    return [C.ROOT + "/harness/comp/evloop.c", C.SRC + "/linux/eventloop_epoll.c"]


def build():
    """The harness binary, copied to a private directory of this run (the shared cache is pruned by others)."""
    priv = os.path.join(C.WORK, "evlooprun", str(os.getpid()))
    dst = os.path.join(priv, "evloop")
    if os.path.exists(dst):
        return dst
    for _ in range(3):
        src = C.cc_build("evloop", harness_sources(), link_flags=LINK)
        try:
            os.makedirs(priv, exist_ok=True)
            shutil.copy2(src, dst + ".tmp")
            os.replace(dst + ".tmp", dst)
            return dst
        except OSError:
            continue
    raise C.BuildError("harness binary evloop disappeared from the build cache three times")


def cleanup_private():
    shutil.rmtree(os.path.join(C.WORK, "evlooprun", str(os.getpid())), ignore_errors=True)


def to_lines(ops):
    out = ["reset"]
    for op in ops:
        k = op[0]
        if k == "ev":
            out.append("ev %d %s" % (op[1], op[2] or "-"))
        elif k == "add":
            out.append("add %d %s" % (op[1], "ok" if op[2] else "fail"))
        elif k == "remove":
            out.append("remove %d" % op[1])
        elif k == "ans":
            out.append(("ans %s %s" % (op[1], " ".join(fmt_act(a) for a in op[2]))).rstrip())
        elif k == "wait":
            if op[1] in ("EINTR", "ERR"):
                out.append("wait " + op[1])
            else:
                out.append(("wait " + " ".join("%d:%x" % (x, m) for x, m in op[1])).rstrip())
        elif k == "run":
            out.append("run")
        else:
            raise ValueError(op)
    return out


def fmt_act(a):
    return "S" if a[0] == "S" else "%s%d" % (a[0], a[1])


def split_scenarios(lines):
    out = []
    for ln in lines:
        if ln.startswith("RESET "):
            out.append([ln])
        elif out:
            out[-1].append(ln)
        else:
            out.append([ln])
    return out


def run_impl(binp, scns, max_crashes=4):
    """[(lines, crash_text|None) | None] per scenario.  A sanitizer abort ends the process: it is attributed to the
    scenario that was running (the last one that printed its RESET line) and the rest is run in a new process.
    After `max_crashes` aborts the remaining scenarios are not run (None)."""
    res = []
    i = 0
    crashes = 0
    env = {"ASAN_OPTIONS": "detect_leaks=0:abort_on_error=0", "UBSAN_OPTIONS": "print_stacktrace=1"}
    while i < len(scns):
        part = scns[i:]
        text = "".join("\n".join(to_lines(s)) + "\n" for s in part)
        rc, out, err = C.sh([binp], inp=text.encode(), timeout=600, env=env)
        per = split_scenarios(out.splitlines())
        if rc == 0 and len(per) == len(part):
            res += [(p, None) for p in per]
            break
        k = min(max(len(per) - 1, 0), len(part) - 1)
        res += [(p, None) for p in per[:k]]
        why = "rc=%d %s" % (rc, sanitizer_summary(err)) if rc != 0 else "harness printed %d scenarios for %d scripts" % (len(per), len(part))
        res.append((per[k] if len(per) > k else [], why))
        crashes += 1
        i += k + 1
        if crashes >= max_crashes:
            res += [None] * (len(scns) - i)
            break
    return res


def sanitizer_summary(err):
    m = re.search(r"(ERROR: AddressSanitizer: [^\n]*|runtime error: [^\n]*|ERROR: LeakSanitizer[^\n]*)", err)
    head = m.group(1) if m else err.strip().splitlines()[0] if err.strip() else "no stderr"
    frames = re.findall(r"#\d+ 0x[0-9a-f]+ in (\S+) ([^\n]*)", err)[:6]
    return head + " | " + " <- ".join("%s %s" % (f, os.path.basename(w)) for f, w in frames)


def run_model(scns, args=()):
    text = "".join("\n".join(to_lines(s)) + "\n" for s in scns)
    per = split_scenarios(C.run_drv("evloop", text, args=args))
    if len(per) != len(scns):
        raise RuntimeError("drv_evloop produced %d scenarios for %d scripts" % (len(per), len(scns)))
    return per


# --------------------------------------------------------------------------- the specification, in Python

class Need(Exception):
    """Raised by ref_sim(strict=True) at the first callback for which the script holds no answer."""

    def __init__(self, ctx):
        self.ctx = ctx


def ref_sim(ops, maxev, strict=False):
    """Reference semantics of the dispatcher, written from the property's clauses (independent of the Lean model).
    Returns (lines, notes): the observation lines without STATE lines, and per line a dict with what the monitor
    needs to name a clause (`removed`: ids removed so far in the batch, `entry`: (id, mask) whose turn it is)."""
    cfg = {}
    reg = []
    lines, notes = [], []
    answers, waits = [], []
    hist = {}

    def emit(s, **kw):
        lines.append(s)
        notes.append(kw)

    def bump(k):
        hist[k] = hist.get(k, 0) + 1

    emit("RESET")
    for op in ops:
        k = op[0]
        if k == "ev":
            cfg[op[1]] = ("r" in op[2], "w" in op[2])
            emit("EV %d r=%d w=%d" % (op[1], "r" in op[2], "w" in op[2]))
        elif k == "add":
            ok = bool(op[2]) and op[1] not in reg
            if ok:
                reg.append(op[1])
            emit("ADD %d %s" % (op[1], "ok" if ok else "fail"))
        elif k == "remove":
            if op[1] in reg:
                reg.remove(op[1])
            emit("REMOVE %d" % op[1])
        elif k == "ans":
            answers.append((op[1], op[2]))
        elif k == "wait":
            waits.append(op[1])
        elif k == "run":
            go = True
            ai = 0
            wi = 0
            while True:
                if not go:
                    emit("RET 0", after="loop")
                    break
                if wi >= len(waits):
                    emit("TERM")
                    bump("term")
                    go = False
                    continue
                w = waits[wi]
                wi += 1
                if w == "EINTR":
                    emit("EINTR")
                    bump("eintr")
                    continue
                if w == "ERR":
                    emit("WAITERR")
                    bump("waiterr")
                    emit("RET -1", after="waiterr")
                    break
                entries = [(x, m) for x, m in w if x in reg][:maxev]
                emit("HARVEST n=%d %s" % (len(entries), ",".join("%d:%x" % e for e in entries) or "-"))
                bump("batch")
                removed = set()
                aborted = False
                for pos, (x, m) in enumerate(entries):
                    if x in removed:
                        bump("skip_nulled")
                        continue
                    r_fn, w_fn = cfg.get(x, (True, True))

                    def cb(fn):
                        nonlocal ai, go
                        emit("CALL %d %s" % (x, fn), removed=set(removed), entry=(x, m), pos=pos)
                        bump("call_" + fn)
                        if ai < len(answers):
                            ret, acts = answers[ai]
                            ai += 1
                        else:
                            if strict:
                                raise Need({"self": x, "fn": fn, "pos": pos, "ids": [e[0] for e in entries],
                                            "nans": len(answers)})
                            ret, acts = "C", []
                        for a in acts:
                            if a[0] == "-":
                                if a[1] in reg:
                                    reg.remove(a[1])
                                removed.add(a[1])
                                emit("REMOVE %d" % a[1])
                                bump("remove_self" if a[1] == x else "remove_other")
                            elif a[0] in "+!":
                                ok = a[0] == "+" and a[1] not in reg
                                if ok:
                                    reg.append(a[1])
                                emit("ADD %d %s" % (a[1], "ok" if ok else "fail"))
                                bump("add_ok" if ok else "add_fail")
                            else:
                                go = False
                                emit("STOP")
                                bump("stop")
                        emit("RETCB " + ret)
                        bump("ret_" + ret)
                        return ret

                    if m & ~(IN | OUT) & 0xffffffff:
                        if cb("error") == "A":
                            aborted = True
                    else:
                        skip = False
                        if m & IN:
                            if r_fn:
                                r = cb("read")
                                if r == "A":
                                    aborted = True
                                    skip = True
                                elif r == "R":
                                    skip = True
                            else:
                                bump("null_read_fn")
                        if not skip:
                            if x in removed:
                                bump("skip_write_current_null")
                            elif m & OUT:
                                if w_fn:
                                    if cb("write") == "A":
                                        aborted = True
                                else:
                                    bump("null_write_fn")
                    if aborted:
                        break
                if aborted:
                    bump("abort")
                    emit("RET -1", after="abort")
                    break
            emit("LEFT answers=%d" % (len(answers) - ai))
            answers, waits = [], []
    return lines, notes, hist


CALL_RE = re.compile(r"^CALL (\S+) (read|write|error)$")


def monitor(ops, impl_lines, crash, maxev):
    """Judge ONE implementation trace against the property's clauses.  Returns (fails, hist)."""
    fails = []
    ref, notes, hist = ref_sim(ops, maxev)
    if impl_lines and impl_lines[0].startswith("RESET "):
        got = ["RESET"] + [ln for ln in impl_lines[1:] if not ln.startswith("STATE ")]
    else:
        got = [ln for ln in impl_lines if not ln.startswith("STATE ")]
    for ln in impl_lines:
        if ln.startswith("FAULT "):
            fails.append("memory_discipline: " + ln)
    got = [ln for ln in got if not ln.startswith("FAULT ")]
    # internal state that the property speaks about directly
    after_ret = False
    for ln in impl_lines:
        if ln.startswith("RET "):
            after_ret = True
            continue
        if ln.startswith("STATE "):
            m = re.match(r"STATE cur=(\S+) pend=(\S+) reg=(\S+) go=(\d)$", ln)
            if not m:
                fails.append("unparsable state line %r" % ln)
                continue
            if m.group(1).endswith("!freed"):
                fails.append("no_use_after_free: current_ev refers to a freed io_event (%s)" % ln)
            if after_ret and m.group(2) != "-":
                fails.append("pending_cleared_between_batches: array still published after eventloop_epoll_run returned (%s)" % ln)
            after_ret = False
    n = min(len(ref), len(got))
    k = next((i for i in range(n) if ref[i] != got[i]), n)
    if k < len(ref) or k < len(got):
        r = ref[k] if k < len(ref) else None
        g = got[k] if k < len(got) else None
        note = notes[k] if k < len(notes) else {}
        fails.append(classify(r, g, note, crash, ref, k))
    elif crash:
        fails.append("no_crash: %s" % crash)
    return fails, hist


def classify(r, g, note, crash, ref, k):
    where = "line %d: expected %r, implementation %r" % (k, r, g)
    if g is None:
        if crash:
            return "no_use_after_free/no_crash: implementation stopped (%s) where the property prescribes %r" % (crash, r)
        return "trace ends early; " + where
    mg = CALL_RE.match(g)
    if mg:
        ident = mg.group(1)
        removed = note.get("removed")
        if removed is None:
            # not inside a callback slot: find the enclosing batch's removed set
            removed = set()
            for j in range(k - 1, -1, -1):
                if ref[j].startswith("HARVEST"):
                    break
                mm = re.match(r"REMOVE (\d+)$", ref[j])
                if mm:
                    removed.add(int(mm.group(1)))
        prev_abort = k > 0 and ref[k - 1] == "RETCB A"
        if prev_abort or (r is not None and r.startswith("RET -1")):
            return "abort_stops_everything: callback after EL_ABORT_LOOP; " + where
        if ident.isdigit() and int(ident) in removed:
            return "no_call_after_remove: function of io_event %s invoked after it was removed in this batch; %s" % (ident, where)
        if not ident.isdigit():
            return "no_call_after_remove: function invoked with an io_event that is not alive; " + where
        ent = note.get("entry")
        if ent and ent[1] & ~(IN | OUT) and mg.group(2) != "error":
            return "error_mask_only_error_function: mask %x; %s" % (ent[1], where)
        if r is not None and CALL_RE.match(r) and CALL_RE.match(r).group(1) == ident:
            return "read_before_write/at_most_one_call_per_function: " + where
        return "others_undisturbed/dispatch order: " + where
    if r is not None and CALL_RE.match(r):
        return "others_undisturbed: prescribed call missing; " + where
    if g.startswith("RET ") or (r or "").startswith("RET "):
        return "abort_stops_everything/run result: " + where
    if g.startswith("HARVEST") or (r or "").startswith("HARVEST"):
        return "loop continues/stops wrongly or kernel model differs: " + where
    return "trace differs from the property's reference: " + where


# --------------------------------------------------------------------------- scenario families

def A(ret, *acts):
    return ("ans", ret, list(acts))


def W(*entries):
    return ("wait", list(entries))


def reg(*ids):
    return [("add", i, True) for i in ids]


RUN = ("run",)


def corpus():
    c = []

    def add(name, *ops):
        flat = []
        for o in ops:
            if isinstance(o, list):
                flat += o
            else:
                flat.append(o)
        c.append((name, flat))

    add("self_remove_in_read_out_pending", reg(1, 2), A("C", ("-", 1)), W((1, IN | OUT), (2, IN)), RUN)
    add("self_remove_in_read_returns_removed", reg(1, 2), A("R", ("-", 1)), W((1, IN | OUT), (2, IN | OUT)), RUN)
    add("lying_removed_without_remove", reg(1, 2), A("R"), W((1, IN | OUT), (2, IN | OUT)), W((1, OUT)), RUN)
    add("remove_later_ev", reg(1, 2, 3), A("C", ("-", 2)), W((1, IN), (2, IN), (3, IN)), RUN)
    add("remove_later_ev_in_write", reg(1, 2, 3), A("C"), A("C", ("-", 3)), W((1, IN | OUT), (2, IN), (3, IN | OUT)), RUN)
    add("remove_earlier_ev", reg(1, 2, 3), A("C"), A("C", ("-", 1)), W((1, IN), (2, IN), (3, IN)), W((1, IN), (3, OUT)), RUN)
    add("remove_then_readd_same_id", reg(1, 2), A("C", ("-", 2), ("+", 2)), W((1, IN), (2, IN | OUT)), W((2, IN | OUT)), RUN)
    add("self_remove_then_readd", reg(1), A("C", ("-", 1), ("+", 1)), W((1, IN | OUT)), W((1, IN | OUT)), RUN)
    add("remove_all_others", reg(1, 2, 3, 4), A("C", ("-", 2), ("-", 3), ("-", 4)),
        W((1, IN), (2, IN), (3, OUT), (4, ERR)), RUN)
    add("remove_chain", reg(1, 2, 3), A("C", ("-", 3)), A("C", ("-", 1)), W((1, IN), (2, IN), (3, IN)), W((1, IN), (2, IN)), RUN)
    add("abort_mid_batch", reg(1, 2, 3), A("C"), A("A"), W((1, IN), (2, IN), (3, IN)), W((1, IN)), RUN)
    add("abort_in_read_with_out", reg(1, 2), A("A"), W((1, IN | OUT), (2, IN)), RUN)
    add("abort_in_write", reg(1, 2), A("C"), A("A"), W((1, IN | OUT), (2, IN)), RUN)
    add("abort_in_error", reg(1, 2), A("A", ("-", 1)), W((1, ERR), (2, IN)), RUN)
    add("abort_and_remove_others", reg(1, 2, 3), A("A", ("-", 2), ("-", 3)), W((1, IN), (2, IN), (3, IN)), RUN)
    add("eintr", reg(1), ("wait", "EINTR"), W((1, IN)), ("wait", "EINTR"), ("wait", "EINTR"), W((1, OUT)), RUN)
    add("wait_error", reg(1), W((1, IN)), ("wait", "ERR"), W((1, IN)), RUN)
    add("err_hup_with_in", reg(1, 2), W((1, IN | ERR | HUP), (2, IN | HUP)), RUN)
    add("err_with_out_and_remove", reg(1, 2), A("C", ("-", 1)), W((1, IN | OUT | ERR), (2, OUT | HUP)), RUN)
    add("error_returns_removed", reg(1, 2), A("R", ("-", 1)), W((1, HUP), (2, IN)), RUN)
    add("rdhup_pri", reg(1, 2), W((1, IN | RDHUP), (2, PRI)), RUN)
    add("null_read_function", ("ev", 1, "w"), reg(1, 2), W((1, IN | OUT), (2, IN)), RUN)
    add("null_write_function", ("ev", 1, "r"), reg(1, 2), W((1, IN | OUT), (2, OUT)), RUN)
    add("null_both_functions", ("ev", 1, ""), reg(1, 2), W((1, IN | OUT), (1, ERR), (2, OUT)), RUN)
    add("add_failure_outside", ("add", 1, False), ("add", 2, True), ("add", 2, True), W((1, IN), (2, IN)), RUN)
    add("add_failure_in_callback", reg(1), A("C", ("!", 2), ("+", 3), ("+", 1)), W((1, IN)), W((2, IN), (3, IN)), RUN)
    add("add_in_callback_not_in_this_batch", reg(1), A("C", ("+", 2)), W((1, IN), (2, IN)), W((2, IN)), RUN)
    add("stop_mid_batch", reg(1, 2), A("C", ("S",)), W((1, IN), (2, IN)), W((1, IN)), RUN)
    add("stop_and_abort", reg(1, 2), A("A", ("S",)), W((1, IN), (2, IN)), RUN)
    add("empty_batch", reg(1), W(), W((1, IN)), RUN)
    add("zero_mask", reg(1, 2), W((1, 0), (2, IN)), RUN)
    add("unregistered_ready", reg(1), W((7, IN), (1, IN), (8, OUT)), RUN)
    add("duplicate_entry", reg(1, 2), A("C"), A("C", ("-", 1)), W((1, IN), (2, IN), (1, OUT)), RUN)
    add("duplicate_entry_removed_between", reg(1, 2), A("C"), A("C", ("-", 1)), W((1, IN), (2, IN), (1, IN)), RUN)
    add("more_than_max_events", reg(*range(1, 15)), W(*[(i, IN) for i in range(1, 15)]), RUN)
    add("max_events_then_remove_last", reg(*range(1, 13)), A("C", ("-", 10), ("-", 11)), W(*[(i, IN) for i in range(1, 13)]), RUN)
    add("remove_outside_between_runs", reg(1, 2), W((1, IN), (2, IN)), RUN, ("remove", 2), W((1, IN), (2, IN)), RUN,
        ("remove", 1), ("remove", 1), W((1, IN)), RUN)
    add("remove_unknown_in_callback", reg(1, 2), A("C", ("-", 9)), W((1, IN | OUT), (2, IN)), RUN)
    add("remove_current_after_run", reg(1), W((1, IN)), RUN, ("remove", 1), ("add", 1, True), W((1, IN | OUT)), RUN)
    add("readd_other_then_remove_again", reg(1, 2, 3), A("C", ("-", 2), ("+", 2), ("-", 2)), W((1, IN), (2, IN), (3, IN)),
        W((2, IN), (3, IN)), RUN)
    add("write_removes_self_returns_continue", reg(1, 2), A("C"), A("C", ("-", 1)), W((1, IN | OUT), (2, IN | OUT)), RUN)
    add("two_runs_after_abort", reg(1, 2), A("A"), W((1, IN), (2, IN)), RUN, W((1, IN), (2, IN)), RUN)
    add("no_waits", reg(1), RUN)
    add("answers_left_over", reg(1), A("C"), A("C"), A("C"), W((1, IN)), RUN)
    return c


MASKS_RANDOM = [IN, OUT, IN | OUT, IN | OUT, IN, ERR, HUP, IN | HUP, IN | OUT | ERR, OUT | HUP, IN | RDHUP, PRI, 0,
                0x80000001, 0xffffffff, IN | OUT | ERR | HUP]


def random_scenario(r):
    nids = r.choice([1, 2, 3, 3, 4, 5, 6, 12])
    ids = list(range(1, nids + 1))
    ops = []
    for i in ids:
        if r.random() < 0.15:
            ops.append(("ev", i, r.choice(["r", "w", "", "rw"])))
    for i in ids:
        if r.random() < 0.9:
            ops.append(("add", i, r.random() < 0.93))
    for _ in range(r.choice([1, 1, 2, 3])):
        nb = r.choice([1, 1, 2, 3, 4])
        ncb = 0
        for _ in range(nb):
            u = r.random()
            if u < 0.08:
                ops.append(("wait", "EINTR"))
                continue
            if u < 0.11:
                ops.append(("wait", "ERR"))
                continue
            k = r.choice([0, 1, 2, 2, 3, 3, 4, min(nids, 6), nids + 2])
            pool = ids + [nids + 1]
            ent = []
            for _ in range(k):
                x = r.choice(pool)
                if r.random() < 0.85 and any(e[0] == x for e in ent):
                    continue
                ent.append((x, r.choice(MASKS_RANDOM)))
            ops.append(("wait", ent))
            ncb += 2 * len(ent)
        for _ in range(r.randint(0, ncb + 1)):
            u = r.random()
            ret = "C" if u < 0.72 else "R" if u < 0.9 else "A" if u < 0.95 else "C"
            acts = []
            for _ in range(r.choice([0, 0, 0, 1, 1, 2, 3])):
                v = r.random()
                x = r.choice(ids + [nids + 1])
                if v < 0.6:
                    acts.append(("-", x))
                elif v < 0.85:
                    acts.append(("+", x))
                elif v < 0.95:
                    acts.append(("!", x))
                else:
                    acts.append(("S",))
            ops.append(("ans", ret, acts))
        ops.append(RUN)
        if r.random() < 0.3:
            ops.append(("remove", r.choice(ids)))
        if r.random() < 0.2:
            ops.append(("add", r.choice(ids), True))
    return ops


# exhaustive family: ONE batch of n registered io_events 1..n in array order, every mask of EXH_MASKS per entry,
# every answer of the alphabet for every callback that actually happens (enumerated adaptively: a branch is
# extended only while the reference semantics asks for another answer).
EXH_MASKS = [IN, OUT, IN | OUT, ERR, IN | HUP]


def alphabet(n, me, level):
    """Answers for a callback of io_event `me` in a batch over ids 1..n.
    level 2 (full):    {C,R,A} x {nothing, remove self, remove any other, remove+re-add self, remove+re-add any other, stop}
    level 1 (medium):  {C,R,A} x {nothing, remove self, remove any other}
    level 0 (reduced): {C} x {nothing, remove self, remove any other} + {R, R with remove self, A}"""
    others = [i for i in range(1, n + 1) if i != me]
    acts = [[], [("-", me)]] + [[("-", o)] for o in others]
    if level >= 2:
        acts += [[("-", me), ("+", me)]] + [[("-", o), ("+", o)] for o in others] + [[("S",)]]
    if level >= 1:
        return [(ret, a) for ret in "CRA" for a in acts]
    return [("C", a) for a in acts] + [("R", []), ("R", [("-", me)]), ("A", [])]


def exhaustive_for_masks(n, masks, level, maxev):
    """All scenarios of the family for one mask tuple."""
    base = reg(*range(1, n + 1)) + [("wait", [(i + 1, masks[i]) for i in range(n)])]
    out = []
    stack = [[]]
    while stack:
        ans = stack.pop()
        ops = base + [("ans", r, a) for r, a in ans] + [RUN]
        try:
            ref_sim(ops, maxev, strict=True)
            out.append(ops)
        except Need as nd:
            for r, a in alphabet(n, nd.ctx["self"], level):
                stack.append(ans + [(r, a)])
    return out


def mask_tuples(n):
    if n == 0:
        return [()]
    return [t + (m,) for t in mask_tuples(n - 1) for m in EXH_MASKS]


# --------------------------------------------------------------------------- one chunk of work (runs in a pool worker)

def first_diff(a, b):
    n = min(len(a), len(b))
    for i in range(n):
        if a[i] != b[i]:
            return i
    return None if len(a) == len(b) else n


def judge(binp, scns, maxev):
    """Run a list of scenarios on both sides.  Returns a summary dict with counts and the failures."""
    impl = run_impl(binp, scns)
    scns = [s for s, r in zip(scns, impl) if r is not None]
    impl = [r for r in impl if r is not None]
    model = run_model(scns)
    res = {"n": len(scns), "callbacks": 0, "removes": 0, "adds": 0, "hist": {}, "prop_fail": [], "diff": [],
           "lines": 0}
    for s, (il, crash), ml in zip(scns, impl, model):
        fails, hist = monitor(s, il, crash, maxev)
        for k, v in hist.items():
            res["hist"][k] = res["hist"].get(k, 0) + v
        res["callbacks"] += sum(1 for ln in il if ln.startswith("CALL "))
        res["removes"] += sum(1 for ln in il if ln.startswith("REMOVE "))
        res["adds"] += sum(1 for ln in il if ln.startswith("ADD "))
        res["lines"] += len(il)
        d = first_diff(il, ml)
        if fails:
            res["prop_fail"].append((s, fails, crash))
        if d is not None or crash:
            res["diff"].append((s, d, crash))
    return res


def work(task):
    kind, binp, maxev, payload = task
    if kind == "list":
        scns = payload
    elif kind == "random":
        lo, hi = payload
        scns = [random_scenario(C.rng("evloop", i)) for i in range(lo, hi)]
    elif kind == "exh":
        n, tuples, level = payload
        scns = []
        for t in tuples:
            scns += exhaustive_for_masks(n, t, level, maxev)
    else:
        raise ValueError(kind)
    tot = None
    for i in range(0, len(scns), CHUNK):
        r = judge(binp, scns[i:i + CHUNK], maxev)
        if tot is None:
            tot = r
        else:
            for k in ("n", "callbacks", "removes", "adds", "lines"):
                tot[k] += r[k]
            for k, v in r["hist"].items():
                tot["hist"][k] = tot["hist"].get(k, 0) + v
            tot["prop_fail"] += r["prop_fail"]
            tot["diff"] += r["diff"]
        if len(tot["prop_fail"]) >= 3:
            break
    if tot is None:
        tot = {"n": 0, "callbacks": 0, "removes": 0, "adds": 0, "hist": {}, "prop_fail": [], "diff": [], "lines": 0}
    tot["prop_fail"] = tot["prop_fail"][:5]
    tot["diff"] = tot["diff"][:5]
    tot["kind"] = kind
    return tot


# --------------------------------------------------------------------------- shrinking

def shrink(binp, ops, maxev, pred, budget=400):
    """Greedy: drop ops, drop actions, drop batch entries, simplify masks, while `pred(ops)` stays true."""
    cur = list(ops)
    tries = 0

    def ok(cand):
        nonlocal tries
        tries += 1
        if tries > budget:
            return False
        try:
            return pred(cand)
        except Exception:
            return False

    changed = True
    while changed and tries <= budget:
        changed = False
        i = 0
        while i < len(cur):
            if cur[i] == RUN and sum(1 for o in cur if o == RUN) == 1:
                i += 1
                continue
            cand = cur[:i] + cur[i + 1:]
            if ok(cand):
                cur = cand
                changed = True
            else:
                i += 1
        for i, op in enumerate(cur):
            if op[0] == "ans":
                for j in range(len(op[2])):
                    cand = cur[:i] + [("ans", op[1], op[2][:j] + op[2][j + 1:])] + cur[i + 1:]
                    if ok(cand):
                        cur = cand
                        changed = True
                        break
                if op[1] != "C":
                    cand = cur[:i] + [("ans", "C", cur[i][2])] + cur[i + 1:]
                    if ok(cand):
                        cur = cand
                        changed = True
            elif op[0] == "wait" and isinstance(op[1], list):
                for j in range(len(op[1])):
                    cand = cur[:i] + [("wait", op[1][:j] + op[1][j + 1:])] + cur[i + 1:]
                    if ok(cand):
                        cur = cand
                        changed = True
                        break
                for j, (x, m) in enumerate(cur[i][1]):
                    for m2 in (IN, OUT, IN | OUT, ERR):
                        if m2 != m and bin(m2).count("1") <= bin(m).count("1"):
                            cand = cur[:i] + [("wait", cur[i][1][:j] + [(x, m2)] + cur[i][1][j + 1:])] + cur[i + 1:]
                            if ok(cand):
                                cur = cand
                                changed = True
                                break
    return cur


def run_one(binp, ops, maxev):
    (il, crash), = run_impl(binp, [ops], max_crashes=1)
    ml, = run_model([ops])
    fails, _ = monitor(ops, il, crash, maxev)
    return il, ml, crash, fails


# --------------------------------------------------------------------------- entry point

def harness_consts(binp):
    rc, out, err = C.sh([binp], inp=b"reset\n", timeout=60)
    m = re.match(r"RESET max=(\d+) in=([0-9a-f]+) out=([0-9a-f]+)", out)
    if not m:
        raise C.BuildError("evloop harness does not answer `reset`: rc=%d %r %r" % (rc, out[:200], err[-500:]))
    return int(m.group(1)), int(m.group(2), 16), int(m.group(3), 16), out.splitlines()[0]


def run_evloop_tie(ctx, out):
    t0 = time.time()
    cov = out.coverage
    binp = build()
    try:
        return _run(ctx, out, binp, t0)
    finally:
        cleanup_private()
        cov["evloop_wall_s"] = round(time.time() - t0, 1)


def _run(ctx, out, binp, t0):
    cov = out.coverage
    maxev, c_in, c_out, reset_line = harness_consts(binp)
    model_reset = C.run_drv("evloop", "reset\n")
    const_ok = bool(model_reset) and model_reset[0] == reset_line and (c_in, c_out) == (IN, OUT)
    cov["evloop_constants"] = {"impl": reset_line, "model": model_reset[0] if model_reset else None}
    if not const_ok:
        out.violation("evloop: constants of model and code differ (CONFIG_MAX_EPOLL_EVENTS / EPOLLIN / EPOLLOUT)",
                      {"component": "evloop", "impl": reset_line, "model": model_reset,
                       "broken": "Cjet.Generated.cfgMaxEpollEvents / Cjet.Evloop.EPOLLIN, EPOLLOUT"}, no_input=True)

    quick = not ctx.thorough
    directed = corpus()
    n_random = 20000 if quick else 300000
    exh_plan = [(1, 2), (2, 2), (3, 0)] if quick else [(1, 2), (2, 2), (3, 1)]

    tasks = [("list", binp, maxev, [ops for _, ops in directed])]
    step = 2000 if quick else 10000
    for lo in range(0, n_random, step):
        tasks.append(("random", binp, maxev, (lo, min(n_random, lo + step))))
    for n, level in exh_plan:
        tuples = mask_tuples(n)
        per = 1 if n >= 2 else len(tuples)
        if n == 3:
            per = 5
        for i in range(0, len(tuples), per):
            tasks.append(("exh", binp, maxev, (n, tuples[i:i + per], level)))

    tot = {"n": 0, "callbacks": 0, "removes": 0, "adds": 0, "lines": 0, "hist": {}, "prop_fail": [], "diff": []}
    per_kind = {}
    with concurrent.futures.ProcessPoolExecutor(max_workers=WORKERS) as ex:
        for r in ex.map(work, tasks):
            for k in ("n", "callbacks", "removes", "adds", "lines"):
                tot[k] += r[k]
            for k, v in r["hist"].items():
                tot["hist"][k] = tot["hist"].get(k, 0) + v
            tot["prop_fail"] += r["prop_fail"]
            tot["diff"] += r["diff"]
            per_kind[r["kind"]] = per_kind.get(r["kind"], 0) + r["n"]

    cov["evloop_scripts"] = tot["n"]
    cov["evloop_scripts_by_family"] = {"directed": per_kind.get("list", 0), "random": per_kind.get("random", 0),
                                       "exhaustive": per_kind.get("exh", 0)}
    cov["evloop_callbacks_invoked"] = tot["callbacks"]
    cov["evloop_removes"] = tot["removes"]
    cov["evloop_adds"] = tot["adds"]
    cov["evloop_lines_compared"] = tot["lines"]
    cov["evloop_branch_hist"] = dict(sorted(tot["hist"].items()))
    cov["evloop_exhaustive"] = not tot["prop_fail"] and not tot["diff"]
    cov["evloop_exhaustive_space"] = (
        "one batch of n registered io_events (ids 1..n in array order), n <= %d, masks per entry in %s, every callback that "
        "happens answered by every member of the alphabet: n <= 2: {C,R,A} x {nothing, remove self, remove any other, "
        "remove+re-add self, remove+re-add any other, clear go_ahead}; n = 3: %s"
        % (max(n for n, _ in exh_plan), ["%x" % m for m in EXH_MASKS],
           "{C} x {nothing, remove self, remove any other} + {R, R with remove self, A}" if quick
           else "{C,R,A} x {nothing, remove self, remove any other}"))
    cov["evloop_samples"] = [" ; ".join(to_lines(ops)[1:]) for _, ops in directed[:4]]
    cov["evloop_directed_names"] = [n for n, _ in directed]
    # sensitivity: the model of the code BEFORE commit 676ccd4 (no nulling) must be told apart from the current code
    legacy = run_model([ops for _, ops in directed], args=("legacy",))
    now = run_model([ops for _, ops in directed])
    cov["evloop_legacy_model_told_apart_on"] = [n for (n, _), a, b in zip(directed, legacy, now) if a != b]
    if "Python reference of the dispatcher semantics (vlib/evloop_tie.py: ref_sim) judges the implementation trace" not in out.assumptions:
        out.assumptions.append("evloop: the kernel is scripted (epoll_wait reports only descriptors in the interest list, at most "
                               "maxevents, in the scripted order; epoll_ctl ADD fails on EEXIST or when scripted); callbacks are "
                               "scripted answers; a removed io_event is freed by the remover")

    # ---- failures
    reported = 0
    seen = set()
    for s, fails, crash in tot["prop_fail"]:
        if reported >= 2:
            break
        clause = fails[0].split(":")[0]
        if clause in seen:
            continue
        seen.add(clause)

        def pred(c, clause=clause):
            il, ml, cr, fl = run_one(binp, c, maxev)
            return any(f.split(":")[0] == clause for f in fl)
        small = shrink(binp, s, maxev, pred)
        il, ml, cr, fl = run_one(binp, small, maxev)
        if not fl:
            small = s
            il, ml, cr, fl = run_one(binp, small, maxev)
        out.violation("evloop: the dispatcher violates the property on the real code: " + (fl[0] if fl else fails[0])[:300],
                      {"component": "evloop", "script": to_lines(small), "original_script": to_lines(s),
                       "variant": "default", "seed": C.base_seed(), "failing_clauses": fl or fails, "sanitizer": cr,
                       "implementation_trace": il, "model_trace": ml,
                       "how_to_replay": "feed `script` to the harness built from harness/comp/evloop.c + src/linux/eventloop_epoll.c"})
        reported += 1
    if tot["diff"] and not tot["prop_fail"]:
        s, d, crash = tot["diff"][0]

        def pred2(c):
            il, ml, cr, fl = run_one(binp, c, maxev)
            return first_diff(il, ml) is not None
        small = shrink(binp, s, maxev, pred2)
        il, ml, cr, fl = run_one(binp, small, maxev)
        d = first_diff(il, ml)
        out.violation("evloop: model and code differ (no clause of the property fails on the implementation's own trace)",
                      {"component": "evloop", "script": to_lines(small), "variant": "default", "seed": C.base_seed(),
                       "first_difference_at_line": d, "implementation_trace": il, "model_trace": ml, "sanitizer": cr,
                       "broken": "correspondence lean/Cjet/Evloop.lean <-> src/linux/eventloop_epoll.c; the theorems of "
                                 "Cjet.Props.Evloop speak about the model only"}, no_input=True)
    return {"scripts": tot["n"], "property_failures": len(tot["prop_fail"]), "differences": len(tot["diff"])}
