"""H2: the whole daemon on the simulated kernel — build, run, parse the observation log."""
import glob
import os
import re
import subprocess

from . import common as C

WRAPS = ["socket", "setsockopt", "bind", "listen", "fcntl", "getsockname", "unlink", "daemon", "epoll_create",
         "epoll_ctl", "epoll_wait", "close", "accept", "read", "writev", "timerfd_create", "timerfd_settime",
         "malloc", "calloc", "realloc", "syslog", "buffered_socket_writev", "init_peer", "http_parser_execute",
         "find_url_handler"]


_NO_INTERNALS = set()


def daemon_sources():
    """Every cjet source file except posix/main.c, as listed by globbing the tree (so a new file is picked up)."""
    src = C.SRC
    files = []
    for pat in ("*.c", "linux/*.c", "posix/*.c", "json/cJSON.c", "http-parser/http_parser.c", "sha1/sha1.c", "zlib/*.c"):
        files += glob.glob(os.path.join(src, pat))
    skip = {os.path.join(src, "posix", "main.c"), os.path.join(src, "jet_string.c")}
    # jet_string.c at top level is a dispatcher that #includes the platform file on some trees; keep it if it compiles alone
    out = []
    for f in sorted(files):
        if f in skip and f.endswith("main.c"):
            continue
        out.append(f)
    return out


def build(variant="default", extra_defines=()):
    srcs = [os.path.join(C.ROOT, "harness", "simk", "simk.c")] + daemon_sources()
    link = ["-Wl," + ",".join("--wrap=" + w for w in WRAPS), "-lcrypt", "-lm"]
    key = (C.SRC, variant, tuple(extra_defines))
    if key in _NO_INTERNALS:
        return C.cc_build("simk", srcs, variant=variant, link_flags=link, defines=tuple(extra_defines) + ("SIMK_NO_INTERNALS",))
    try:
        return C.cc_build("simk", srcs, variant=variant, link_flags=link, defines=extra_defines)
    except C.BuildError as ex:
        if "simk.c" not in str(ex) or "has no member named" not in str(ex):
            raise
        # The snapshot code reads the daemon's own structures (peer list, element lists, fetcher and routing tables); a
        # declaration it names was renamed.  The harness is rebuilt without that part: the runs then carry no state images
        # (image comparisons and the monitors that need them are skipped), everything observed at the kernel boundary stays.
        _NO_INTERNALS.add(key)
        C.HARNESS_DEGRADED.append("whole-daemon harness built without access to the daemon's internal structures "
                                  "(a declaration changed): no state images in this run")
        return C.cc_build("simk", srcs, variant=variant, link_flags=link, defines=tuple(extra_defines) + ("SIMK_NO_INTERNALS",))


def run(binary, script, args=(), timeout=60):
    """Run one scenario.  Returns dict(rc, lines, stderr, sanitizer)"""
    if isinstance(script, (list, tuple)):
        script = "\n".join(script) + "\n"
    env = dict(os.environ)
    env["ASAN_OPTIONS"] = "detect_leaks=1:abort_on_error=0:exitcode=77:allocator_may_return_null=1"
    env["UBSAN_OPTIONS"] = "print_stacktrace=1:halt_on_error=1:exitcode=78"
    env["LSAN_OPTIONS"] = "exitcode=79"
    try:
        p = subprocess.run([binary] + list(args), input=script.encode(), stdout=subprocess.PIPE,
                           stderr=subprocess.PIPE, timeout=timeout, env=env)
        rc, outb, errb = p.returncode, p.stdout, p.stderr
    except subprocess.TimeoutExpired as ex:
        rc, outb, errb = -999, ex.stdout or b"", (ex.stderr or b"") + b"\nTIMEOUT"
    err = errb.decode("utf-8", "replace")
    san = None
    m = re.search(r"(ERROR: AddressSanitizer: [^\n]*|runtime error: [^\n]*|ERROR: LeakSanitizer: [^\n]*|SUMMARY: [^\n]*)", err)
    if m:
        san = m.group(1)
    elif rc != 0:
        san = "abnormal exit rc=%d %s" % (rc, err[-300:])
    return {"rc": rc, "lines": outb.decode("utf-8", "replace").splitlines(), "stderr": err, "sanitizer": san}
