"""Parser for the simk observation log + encoders for the three transports."""
import base64
import hashlib
import json
import re
import struct


def raw_frame(msg):
    if isinstance(msg, str):
        msg = msg.encode()
    return struct.pack(">I", len(msg)) + msg


def ws_frame(payload, opcode=1, fin=1, mask=b"\x11\x22\x33\x44", rsv=0, masked=True):
    if isinstance(payload, str):
        payload = payload.encode()
    b0 = (fin << 7) | (rsv << 4) | opcode
    n = len(payload)
    hdr = bytes([b0])
    mbit = 0x80 if masked else 0
    if n <= 125:
        hdr += bytes([mbit | n])
    elif n <= 65535:
        hdr += bytes([mbit | 126]) + struct.pack(">H", n)
    else:
        hdr += bytes([mbit | 127]) + struct.pack(">Q", n)
    if masked:
        hdr += mask
        payload = bytes(b ^ mask[i % 4] for i, b in enumerate(payload))
    return hdr + payload


WS_KEY = "dGhlIHNhbXBsZSBub25jZQ=="


def ws_upgrade(path="/api/jet/", key=WS_KEY, protocol="jet", version="13", extra=""):
    req = "GET %s HTTP/1.1\r\nHost: localhost\r\nUpgrade: websocket\r\nConnection: Upgrade\r\n" % path
    if key is not None:
        req += "Sec-WebSocket-Key: %s\r\n" % key
    if version is not None:
        req += "Sec-WebSocket-Version: %s\r\n" % version
    if protocol is not None:
        req += "Sec-WebSocket-Protocol: %s\r\n" % protocol
    req += extra + "\r\n"
    return req.encode()


def ws_accept(key=WS_KEY):
    return base64.b64encode(hashlib.sha1((key + "258EAFA5-E914-47DA-95CA-C5AB0DC85B11").encode()).digest()).decode()


def hexs(b):
    return b.hex() if b else "-"


def unhex(s):
    return b"" if s == "-" else bytes.fromhex(s)


class Conn:
    def __init__(self, n):
        self.n = n
        self.out = b""          # every byte the kernel accepted, in order
        self.closed = False
        self.close_step = None
        self.peer_addr = None
        self.sends = []         # (step, ret)
        self.accepted = False
        self.out_by_step = {}   # step -> bytes accepted during that step


class Log:
    """Structured view of one simk run."""

    def __init__(self, lines):
        self.lines = lines
        self.conns = {}
        self.faults = []
        self.logs = []            # (prio, text)
        self.snaps = []           # (step, dict)
        self.events = []          # ordered (step, kind, ...) for W/CLOSE/SEND/TIMER/ACCEPT
        self.timers = {}          # n -> dict(created_step, sets=[(step,ns)], closed_step, expired)
        self.final = None
        self.base = None
        self.preterm = None
        self.runio_ret = None
        self.exit_heap = None
        self.steps = []
        self.bad = []
        self.replies = {}         # step -> JSON text the REPLY command produced
        self.reply_list = []      # (step, conn, k, text)
        step = -1
        cur_snap = None
        for ln in lines:
            w = ln.split(" ")
            k = w[0]
            if k == "STEP":
                step = int(w[1])
                self.steps.append(" ".join(w[2:]))
                cur_snap = None
            elif k == "W":
                c = self.conn(w[1])
                m = re.match(r"W (\S+) asked=(\d+) ret=(\S+)(?: (\S+))?", ln)
                ret = m.group(3)
                data = unhex(m.group(4)) if m.group(4) and ret not in ("EAGAIN", "ERR") else b""
                c.out += data
                c.out_by_step[step] = c.out_by_step.get(step, b"") + data
                self.events.append((step, "W", c.n, int(m.group(2)), ret, data))
            elif k == "SEND":
                c = self.conn(w[1]) if w[1].startswith("c") else None
                ret = int(w[2].split("=")[1])
                data = unhex(w[4]) if len(w) > 4 else b""
                if c is None:
                    self.faults.append("send on a descriptor that is not a connection: " + ln)
                else:
                    c.sends.append((step, ret, data))
                    if w[3] != "open=1":
                        self.faults.append("send on released connection: " + ln[:80])
                    self.events.append((step, "SEND", c.n, ret, data))
            elif k == "CLOSE":
                if w[1].startswith("c"):
                    c = self.conn(w[1])
                    c.closed = True
                    c.close_step = step
                    self.events.append((step, "CLOSE", c.n))
                elif w[1].startswith("t"):
                    t = self.timer(w[1])
                    t["closed_step"] = step
                    self.events.append((step, "TCLOSE", int(w[1][1:])))
            elif k == "ACCEPT":
                c = self.conn(w[1])
                c.accepted = True
                c.endpoint = w[3][1:]
                self.events.append((step, "ACCEPT", c.n))
            elif k == "PEER":
                if w[1].startswith("c"):
                    c = self.conn(w[1])
                    c.peer_addr = w[2]
                    c.peer_local = w[3] == "local=1" if len(w) > 3 else None
                    self.events.append((step, "PEER", c.n, w[2]))
            elif k == "TIMER":
                t = self.timer(w[1])
                if w[2] == "create":
                    t["created_step"] = step
                    self.events.append((step, "TCREATE", int(w[1][1:])))
                elif w[2] == "set":
                    if w[3] == "invalid":
                        self.faults.append(ln)
                    else:
                        t["sets"].append((step, int(w[3])))
                        self.events.append((step, "TSET", int(w[1][1:]), int(w[3])))
                elif w[2] == "disarm":
                    t["sets"].append((step, 0))
                    self.events.append((step, "TSET", int(w[1][1:]), 0))
            elif k == "EXPIRE":
                self.events.append((step, "EXPIRE", int(w[1][1:])))
            elif k == "FAULT":
                self.faults.append(ln)
            elif k == "LOG":
                self.logs.append((int(w[1]), unhex(w[2]).decode("utf-8", "replace")))
            elif k in ("SNAP", "BASE", "PRETERM", "FINAL"):
                d = dict(x.split("=", 1) for x in w[1:])
                d["peers"] = int(d["peers"])
                d["heap"] = int(d["heap"])
                d["fds"] = [] if d["fds"] == "-" else d["fds"].split(",")
                d["armed"] = [] if d["armed"] == "-" else d["armed"].split(",")
                d["allocs"] = int(d.get("allocs", 0))
                d["peerlist"] = []
                d["elems"] = []
                d["internals"] = d.pop("internals", "1") == "1"   # 0: the harness could not read the daemon's structures (see simk.py)
                d["step"] = step
                if k == "SNAP":
                    self.snaps.append(d)
                    cur_snap = d
                elif k == "BASE":
                    self.base = d
                elif k == "PRETERM":
                    self.preterm = d
                else:
                    self.final = d
            elif k == "SNAPPEER" and cur_snap is not None:
                d = dict(x.split("=", 1) for x in w[2:])
                d["addr"] = w[1]
                cur_snap["peerlist"].append(d)
            elif k == "SNAPELEM" and cur_snap is not None:
                d = dict(x.split("=", 1) for x in w[2:])
                d["path"] = unhex(w[1])
                cur_snap["elems"].append(d)
            elif k == "RUNIO":
                self.runio_ret = int(w[1].split("=")[1])
            elif k == "EXIT":
                self.exit_heap = int(w[1].split("=")[1])
            elif k == "REPLYTEXT":
                self.replies[step] = unhex(w[3])
                self.reply_list.append((step, int(w[1][1:]), int(w[2].split(",")[0]), unhex(w[3])))
            elif k in ("BADCMD", "BADBATCH", "FATAL"):
                self.bad.append(ln)

    def conn(self, h):
        n = int(h[1:])
        if n not in self.conns:
            self.conns[n] = Conn(n)
        return self.conns[n]

    def timer(self, h):
        n = int(h[1:])
        if n not in self.timers:
            self.timers[n] = {"created_step": None, "sets": [], "closed_step": None}
        return self.timers[n]

    # ---- decoding of output streams

    def raw_messages(self, n):
        """Decode connection n's output as length-prefixed frames -> (list of payload bytes, leftover)."""
        return split_raw(self.conns[n].out if n in self.conns else b"")

    def ws_output(self, n):
        """Decode a WebSocket connection's output: (http_head bytes or None, frames [(fin,rsv,opcode,masked,payload)], leftover)."""
        return split_ws(self.conns[n].out if n in self.conns else b"")


def split_raw(buf):
    msgs = []
    i = 0
    while i + 4 <= len(buf):
        ln = struct.unpack(">I", buf[i:i + 4])[0]
        if i + 4 + ln > len(buf):
            break
        msgs.append(buf[i + 4:i + 4 + ln])
        i += 4 + ln
    return msgs, buf[i:]


def split_ws(buf):
    head = None
    if buf.startswith(b"HTTP/"):
        j = buf.find(b"\r\n\r\n")
        if j < 0:
            return buf, [], b""
        head = buf[:j + 4]
        buf = buf[j + 4:]
    frames = []
    i = 0
    while i + 2 <= len(buf):
        b0, b1 = buf[i], buf[i + 1]
        n = b1 & 0x7f
        j = i + 2
        if n == 126:
            if j + 2 > len(buf):
                break
            n = struct.unpack(">H", buf[j:j + 2])[0]
            j += 2
            enc = 16
        elif n == 127:
            if j + 8 > len(buf):
                break
            n = struct.unpack(">Q", buf[j:j + 8])[0]
            j += 8
            enc = 64
        else:
            enc = 7
        masked = bool(b1 & 0x80)
        if masked:
            j += 4
        if j + n > len(buf):
            break
        frames.append({"fin": b0 >> 7, "rsv": (b0 >> 4) & 7, "opcode": b0 & 15, "masked": masked, "payload": buf[j:j + n], "lenenc": enc})
        i = j + n
    return head, frames, buf[i:]


def jloads(b):
    """JSON text -> python value with objects as lists of pairs (order and duplicates preserved)."""
    return json.loads(b.decode("utf-8", "surrogateescape") if isinstance(b, bytes) else b, object_pairs_hook=lambda ps: ("obj", ps))
