"""Correspondence between the Lean model `Cjet.Startup` (driver `drv_startup`) and the REAL start-up / shut-down
paths of /repo/src/linux/linux_io.c (harness/comp/startup.c), plus the property clauses evaluated on the
implementation's own traces.

    run_startup_tie(ctx, out) -> dict        (called from the C07 / C15 checks and from startup_dev)

One script = one run of run_io: configuration (only-local, user name, foreground) and the answers of every call
whose result the code inspects, in call order (missing answers are `ok`).  Enumeration (adaptive, complete):
for every configuration the all-ok run, then every script that differs from it in ONE answer (every call position x
every alternative answer of that call), then every script that differs in TWO answers (positions of the second
taken from the run with the first deviation), thorough: THREE; plus
seeded random multi-deviation scripts.  Both sides print the same lines; they are compared line by line.

Independently of the model every implementation trace is judged by the property clauses (Python reference
monitor written from the property text):
  fd        every listener descriptor handed out by socket() is closed exactly once: no close of a descriptor that
            is not open, no system call / loop registration on a descriptor that is not open, none open at return
  order     a descriptor is never closed while it is registered with the event loop (remove before close)
  reg       add / remove are balanced, nothing registered at return, the loop is destroyed iff it was initialised and
            with no registration left, every addrinfo list is freed exactly once
  success   when the loop is run the open, bound, listening and registered descriptors are exactly the listeners the
            configuration asks for; handlers installed
  shutdown  after the loop returned: peers and connections destroyed, listeners stopped newest first, loop destroyed,
            SIGINT / SIGTERM reset, in this order; result = the loop's
  unix      the unix listener is bound to the abstract name; unlink(UDS_FILE) exactly once, after the close, iff the
            unix listener had been started (a bound file-system path must always be unlinked)
  err       run_io returns -1 iff some step failed for good (per-address failures inside the getaddrinfo loop count
            only when no address could be bound), 0 otherwise; go_ahead is cleared iff loop init failed
  sig       SIGTERM / SIGINT dispositions are back to default at return (code as it is: not when ignoring SIGPIPE
            failed — counted as an observation, not a violation), SIGPIPE ignored iff that call succeeded
  peers     no connection accepted during start-up is left alive when run_io returns
A failing clause is a VIOLATION with the failing input (for a failure that a listed open known finding explains:
KNOWN-FINDING); a mere model/code difference is reported with no_input=True naming the theorems that no longer
describe the code.  Coverage keys are prefixed `startup_`."""
import concurrent.futures
import os
import time

from vlib import common as C

WRAP = ["-Wl," + ",".join("--wrap=" + s for s in (
    "socket setsockopt bind listen fcntl unlink close accept getsockname getaddrinfo freeaddrinfo "
    "signal sigaction daemon getpwnam setgid setuid").split())]
MAX_PAR = 6
CONFIGS = [(l, u, f) for l in (0, 1) for u in (0, 1) for f in (0, 1)]
CONSUMING = {"INIT", "GAI", "SOCKET", "SOCKOPT", "FCNTL", "BIND", "LISTEN", "ADD", "ACCEPT", "GETPWNAM", "SETGID",
             "SETUID", "DAEMON", "RUN"}
PEER_LEAK_TRIGGER = "startup_peer_leak"

THEOREMS_BY_CLAUSE = {
    "fd": ["startup_releases_all_listeners", "startup_failure_releases_all_partial", "remove_before_close", "no_use_after_close"],
    "order": ["remove_before_close"],
    "reg": ["startup_releases_all_listeners", "no_use_after_close"],
    "success": ["startup_success_owns_exactly", "success_implies_all_up"],
    "shutdown": ["shutdown_releases_all", "shutdown_order"],
    "unix": ["unix_path_unlinked"],
    "err": ["error_reported"],
    "sig": ["startup_releases_all_listeners", "signals_restored_counterexample"],
    "peers": ["startup_failure_releases_all_partial", "startup_failure_releases_all_counterexample",
              "startup_failure_leaks_peer_when_daemon_fails", "shutdown_releases_all"],
    "memory": ["(memory safety: sanitizer)"],
}

EXPECT = {
    0: [("inet6", "any:jet", "jet"), ("inet6", "any:ws", "http"), ("unix", "uds-abstract", "jet")],
    1: [("inet6", "lo6:jet", "jet"), ("inet", "lo4:jet", "jet"), ("inet6", "lo6:ws", "http"), ("inet", "lo4:ws", "http"),
        ("unix", "uds-abstract", "jet")],
}


class Script:
    __slots__ = ("cfg", "toks", "tag")

    def __init__(self, cfg, toks=(), tag=""):
        self.cfg, self.toks, self.tag = tuple(cfg), list(toks), tag

    def line(self):
        return " ".join(["run"] + [str(x) for x in self.cfg] + self.toks)

    def key(self):
        return (self.cfg, tuple(self.toks))


def parse_line(line):
    t = line.split()
    if len(t) < 4 or t[0] != "run":
        return None
    return Script((int(t[1]), int(t[2]), int(t[3])), t[4:])


# --------------------------------------------------------------------------- running both sides

def split_blocks(lines):
    blocks, cur = [], []
    for ln in lines:
        if ln == "END":
            blocks.append(cur)
            cur = []
        else:
            cur.append(ln)
    return blocks, cur


def run_impl(binp, scripts):
    """-> list of (lines, sanitizer_text or None) per script; a sanitizer abort / crash is a result: the run is
    resumed behind the script that died."""
    res = []
    i = 0
    while i < len(scripts):
        text = "".join(s.line() + "\n" for s in scripts[i:])
        rc, out, err = C.sh([binp], inp=text.encode(), timeout=900,
                            env={"ASAN_OPTIONS": "detect_leaks=1:abort_on_error=0:exitcode=77", "UBSAN_OPTIONS": "print_stacktrace=1"})
        blocks, rest = split_blocks(out.splitlines())
        for b in blocks[:len(scripts) - i]:
            res.append((b, None))
        done = len(blocks)
        if i + done >= len(scripts):
            if rc != 0 and res:
                res[-1] = (res[-1][0], "exit code %d after the last script of a batch: %s" % (rc, err[-3000:]))
            break
        res.append((rest, "exit code %d: %s" % (rc, err[-3000:])))
        i += done + 1
    return res


MODEL_ARGS = []      # which code version the model runs (set by probe_code_version)


def probe_code_version(binp):
    """Which of the two repaired code paths does the tree under test have?  Decided by behaviour on two probe
    runs of the implementation (not by the source text): does run_io destroy peers / connections on a failed
    start-up, does register_signal_handler reset SIGINT / SIGTERM when ignoring SIGPIPE fails."""
    probes = [Script((0, 0, 1), ["ok"] * 11 + ["conn", "fail"]), Script((0, 0, 1), ["ok", "ok", "fail"])]
    res = run_impl(binp, probes)
    args = []
    if "DESTROYPEERS" in res[0][0]:
        args.append("destroy-at-end")
    if "SIG int dfl ok" in res[1][0]:
        args.append("restore-on-pipe-fail")
    MODEL_ARGS[:] = args
    return args


def run_model(scripts):
    text = "".join(s.line() + "\n" for s in scripts)
    blocks, _ = split_blocks(C.run_drv("startup", text, args=MODEL_ARGS))
    if len(blocks) != len(scripts):
        raise RuntimeError("drv_startup answered %d blocks for %d scripts" % (len(blocks), len(scripts)))
    return blocks


def consuming_calls(lines):
    """the calls of a trace that took an answer, in order: list of line heads"""
    out = []
    for ln in lines:
        t = ln.split()
        if not t:
            continue
        if t[0] in CONSUMING or (t[0] == "SIG" and len(t) > 2 and t[2] != "dfl"):
            out.append(t[0])
    return out


def alternatives(head, thorough):
    if head == "ACCEPT":
        return ["fail", "retry", "conn"]
    if head == "GAI":
        return ["fail", "a:0", "a:2"] + (["a:3"] if thorough else [])
    return ["fail"]


# --------------------------------------------------------------------------- the property clauses (reference)

def eval_clauses(sc, lines, sanitizer=None):
    """Property clauses on one implementation trace -> (list of (clause, text), observations)."""
    fails = []
    obs = []
    if sanitizer:
        fails.append(("memory", "sanitizer / crash: " + sanitizer[-1500:]))
    local = sc.cfg[0]
    fds = {}            # fd -> dict(fam, target, listening, open)
    reg = {}            # fd -> kind
    peers = {}          # fd -> kind
    ai = 0
    windows = []        # per getaddrinfo window: [bound_ok, failures]
    win = None
    hard = 0
    init = None
    destroyed = False
    disp = {"term": "dfl", "int": "dfl", "pipe": "dfl"}
    pipe_failed = False
    unix_fd = None
    unix_started = False
    unix_pass_aborted = False
    unix_path_bound = False
    unlinks = []        # line indices
    close_at = {}
    run_at = None
    run_ret = None
    ret = None
    goahead = None
    tables = {}
    after_run = []
    open_at_run = []

    def use(fd, what):
        if fd not in fds or not fds[fd]["open"]:
            fails.append(("fd", "%s on descriptor %d which is not open" % (what, fd)))
            return False
        return True

    for idx, ln in enumerate(lines):
        t = ln.split()
        if not t:
            continue
        h = t[0]
        if run_at is not None and h not in ("OPEN", "REG", "PEERS", "HANDLERS", "AI", "RET", "FAULT"):
            after_run.append(ln)
        if h == "FAULT":
            cl = "order" if "while it is registered" in ln else "reg" if ("registered" in ln or "registration" in ln or "loop" in ln) else "fd"
            fails.append((cl, "harness monitor: " + ln))
        elif h == "ERROR":
            fails.append(("machinery", ln))
        elif h == "SIG":
            ok = t[3] == "ok"
            if ok and t[1] in disp:
                disp[t[1]] = t[2]
            if not ok:
                hard += 1
                if t[1] == "pipe":
                    pipe_failed = True
        elif h == "INIT":
            init = t[1] == "ok"
            if not init:
                hard += 1
        elif h == "DESTROY":
            if reg:
                fails.append(("reg", "loop destroyed with descriptors %s still registered" % sorted(reg)))
            if destroyed or not init:
                fails.append(("reg", "loop destroyed although it is not initialised"))
            destroyed = True
        elif h == "GAI":
            if t[3] == "fail":
                hard += 1
            else:
                ai += 1
                win = [False, 0]
                windows.append(win)
        elif h == "FREEAI":
            if ai <= 0:
                fails.append(("reg", "freeaddrinfo without an outstanding list"))
            ai -= 1
            if win is not None:
                if not win[0]:
                    hard += 1       # no address could be bound
                win = None
        elif h == "SOCKET":
            if t[2] == "fail":
                if win is not None:
                    win[1] += 1
                else:
                    hard += 1
            else:
                fd = int(t[2])
                if fd in fds:
                    fails.append(("fd", "descriptor number %d handed out twice (harness)" % fd))
                fds[fd] = {"fam": t[1], "target": None, "listening": False, "open": True}
                if t[1] == "unix":
                    unix_fd = fd
        elif h in ("SOCKOPT", "FCNTL"):
            fd = int(t[1])
            use(fd, h.lower() + " " + t[2])
            if t[3] == "fail":
                if win is not None:
                    win[1] += 1
                else:
                    hard += 1
        elif h == "BIND":
            fd = int(t[1])
            ok = t[3] == "ok"
            if use(fd, "bind") and ok:
                fds[fd]["target"] = t[2]
            if fd == unix_fd:
                if t[2] != "uds-abstract":
                    if t[2] == "uds-path" and ok:
                        unix_path_bound = True
                    else:
                        fails.append(("unix", "unix listener bound to %s" % t[2]))
            if ok and win is not None:
                win[0] = True
            if not ok:
                if win is not None:
                    win[1] += 1
                else:
                    hard += 1
        elif h == "LISTEN":
            fd = int(t[1])
            if use(fd, "listen") and t[2] == "ok":
                fds[fd]["listening"] = True
            if t[2] != "ok":
                hard += 1
        elif h == "ADD":
            fd = int(t[1])
            use(fd, "loop add")
            if fd in reg:
                fails.append(("reg", "descriptor %d registered twice" % fd))
            if not init or destroyed:
                fails.append(("reg", "loop add without an initialised loop"))
            if t[3] == "ok":
                reg[fd] = t[2]
                if fd == unix_fd:
                    unix_started = True
            else:
                hard += 1
        elif h == "REMOVE":
            fd = int(t[1])
            if fd not in reg:
                fails.append(("reg", "remove of descriptor %d which is not registered" % fd))
            reg.pop(fd, None)
        elif h == "ACCEPT":
            fd = int(t[1])
            use(fd, "accept")
            if fd not in reg:
                fails.append(("reg", "accept on descriptor %d which is not registered" % fd))
            if t[2] == "fatal":
                hard += 1
                if fd == unix_fd:
                    unix_pass_aborted = True
        elif h == "PEER":
            peers[int(t[1])] = t[2]
        elif h == "CLOSE":
            fd = int(t[1])
            if fd not in fds:
                fails.append(("fd", "close of descriptor %d which was never opened" % fd))
            elif not fds[fd]["open"]:
                fails.append(("fd", "descriptor %d closed twice" % fd))
            else:
                if fd in reg:
                    fails.append(("order", "descriptor %d closed while registered with the event loop" % fd))
                fds[fd]["open"] = False
                close_at[fd] = idx
        elif h == "UNLINK":
            if t[1] != "uds":
                fails.append(("unix", "unlink of a path that is not the unix socket path"))
            unlinks.append(idx)
        elif h in ("GETPWNAM", "SETGID", "SETUID", "DAEMON"):
            if t[1] != "ok":
                hard += 1
        elif h == "RUN":
            run_at = idx
            run_ret = int(t[1])
            open_at_run = sorted((fd for fd, d in fds.items() if d["open"]), reverse=True)
            if run_ret != 0:
                hard += 1
            # ---- success: exactly the listeners the configuration asks for
            have = sorted((d["fam"], d["target"], reg.get(fd)) for fd, d in fds.items() if d["open"])
            want = sorted(EXPECT[local])
            if have != want:
                fails.append(("success", "listeners when the loop starts: %s, configuration asks for %s" % (have, want)))
            notl = [fd for fd, d in fds.items() if d["open"] and not d["listening"]]
            if notl:
                fails.append(("success", "descriptors %s registered but not listening" % notl))
            if sorted(reg) != sorted(fd for fd, d in fds.items() if d["open"]):
                fails.append(("success", "registered %s, open %s when the loop starts" % (sorted(reg), sorted(fd for fd, d in fds.items() if d["open"]))))
            if disp["term"] != "handler" or disp["int"] != "handler" or disp["pipe"] != "ign":
                fails.append(("success", "signal dispositions when the loop starts: %s" % disp))
            if hard - (1 if run_ret != 0 else 0) != 0:
                fails.append(("err", "the loop is run although a start-up step failed"))
            if sc.cfg[1] and not any(l.startswith("SETUID ok") for l in lines[:idx]):
                fails.append(("success", "loop runs without the privileges having been dropped"))
            if not sc.cfg[2] and not any(l.startswith("DAEMON ok") for l in lines[:idx]):
                fails.append(("success", "loop runs without daemon()"))
        elif h == "DESTROYPEERS":
            for fd in [fd for fd, k in peers.items() if k == "jet"]:
                peers.pop(fd)
        elif h == "DESTROYCONNS":
            for fd in [fd for fd, k in peers.items() if k == "http"]:
                peers.pop(fd)
        elif h in ("OPEN", "REG", "PEERS"):
            tables[h] = [] if t[1:] == ["-"] else [int(x) for x in t[1:]]
        elif h == "HANDLERS":
            tables[h] = dict(x.split("=") for x in t[1:])
        elif h == "AI":
            tables[h] = int(t[1])
        elif h == "RET":
            ret = int(t[1])
            goahead = int(t[2].split("=")[1])
    if sanitizer and ret is None:
        return fails, obs
    if ret is None:
        fails.append(("machinery", "run_io did not return"))
        return fails, obs
    # ---- at return
    still = sorted(fd for fd, d in fds.items() if d["open"])
    if still or tables.get("OPEN"):
        fails.append(("fd", "descriptors %s still open when run_io returns (harness table: %s)" % (still, tables.get("OPEN"))))
    if reg or tables.get("REG"):
        fails.append(("reg", "descriptors %s still registered when run_io returns" % sorted(set(reg) | set(tables.get("REG") or []))))
    if ai != 0 or tables.get("AI", 0) != 0:
        fails.append(("reg", "%d addrinfo list(s) not freed" % ai))
    if init and not destroyed:
        fails.append(("reg", "event loop initialised but not destroyed"))
    if peers or tables.get("PEERS"):
        fails.append(("peers", "connection(s) on descriptor(s) %s accepted during start-up are still alive when run_io returns %d" % (
            sorted(set(peers) | set(tables.get("PEERS") or [])), ret)))
    # err
    if (hard > 0) != (ret != 0):
        fails.append(("err", "%d failing step(s), run_io returned %d" % (hard, ret)))
    if ret not in (0, -1):
        fails.append(("err", "run_io returned %d" % ret))
    if (goahead == 0) != (init is False):
        fails.append(("err", "go_ahead=%s although loop init %s" % (goahead, "failed" if init is False else "did not fail")))
    if run_at is not None and ret != run_ret:
        fails.append(("shutdown", "loop returned %d, run_io %d" % (run_ret, ret)))
    # sig
    hd = tables.get("HANDLERS", disp)
    if hd.get("term") != "dfl" or hd.get("int") != "dfl":
        if pipe_failed and run_at is None and hd.get("term") == "handler" and hd.get("int") == "handler":
            obs.append("sigpipe_failure_leaves_handlers")
        else:
            fails.append(("sig", "dispositions at return: %s" % hd))
    if (hd.get("pipe") == "ign") != any(l == "SIG pipe ign ok" for l in lines):
        fails.append(("sig", "SIGPIPE disposition %s" % hd.get("pipe")))
    # unix
    started = unix_started and not unix_pass_aborted
    if started or unix_path_bound:
        if len(unlinks) != 1:
            fails.append(("unix", "unix listener was %s, unlink(UDS_FILE) executed %d times" % ("started" if started else "bound to a path", len(unlinks))))
        elif unix_fd in close_at and unlinks[0] < close_at[unix_fd]:
            fails.append(("unix", "unix socket path unlinked before the descriptor is closed"))
    elif unlinks:
        fails.append(("unix", "unlink(UDS_FILE) although the unix listener never came up (the path is not the daemon's)"))
    # shutdown order
    if run_at is not None:
        order = open_at_run
        want = ["DESTROYPEERS", "DESTROYCONNS"]
        for fd in order:
            want += ["REMOVE %d" % fd, "CLOSE %d" % fd]
            if fd == unix_fd:
                want.append("UNLINK uds")
        want += ["DESTROY", "SIG int dfl ok", "SIG term dfl ok"]
        seen_destroy = set()
        got = []
        for ln in after_run:        # destroying peers / connections again later is harmless (nothing is left)
            if ln in ("DESTROYPEERS", "DESTROYCONNS"):
                if ln in seen_destroy:
                    continue
                seen_destroy.add(ln)
            got.append(ln)
        if got != want and not any(f[0] in ("fd", "order", "reg", "unix") for f in fails):
            fails.append(("shutdown", "after the loop returned: %s; intended: %s" % (after_run, want)))
    return fails, obs


# --------------------------------------------------------------------------- shrinking / classification

def shrink(sc, still_bad, budget=120):
    cur = sc
    steps = 0
    changed = True
    while changed and steps < budget:
        changed = False
        while cur.toks and cur.toks[-1] == "ok":
            cur = Script(cur.cfg, cur.toks[:-1], cur.tag)
        for n in range(len(cur.toks) - 1, -1, -1):
            if cur.toks[n] == "ok":
                continue
            for rep in (["ok"] if cur.toks[n] in ("fail", "retry") else ["ok", "fail"]):
                cand = Script(cur.cfg, cur.toks[:n] + [rep] + cur.toks[n + 1:], cur.tag)
                steps += 1
                if still_bad(cand):
                    cur, changed = cand, True
                    break
        for i, good in enumerate((0, 0, 1)):
            if cur.cfg[i] != good:
                cfg = list(cur.cfg)
                cfg[i] = good
                cand = Script(cfg, cur.toks, cur.tag)
                steps += 1
                if still_bad(cand):
                    cur, changed = cand, True
    while cur.toks and cur.toks[-1] == "ok":
        cur = Script(cur.cfg, cur.toks[:-1], cur.tag)
    return cur


class Judge:
    def __init__(self, binp, have_model):
        self.binp, self.have_model = binp, have_model

    def verdict(self, sc):
        (lines, san), = run_impl(self.binp, [sc])
        model = run_model([sc])[0] if self.have_model else None
        fails, obs = eval_clauses(sc, lines, san)
        differs = model is not None and (model != lines or san is not None)
        return fails, differs, lines, model, san


def peer_leak_known():
    for e in C.known_findings():
        if e.get("status") != "open":
            continue
        blob = " ".join(str(e.get(k, "")) for k in ("id", "trigger", "replay", "component", "what"))
        if PEER_LEAK_TRIGGER in blob or str(e.get("id", "")).startswith("Fstartup"):
            return e
    return None


def report(out, judge, sc, where):
    fails, differs, lines, model, san = judge.verdict(sc)
    clause = sorted({f[0] for f in fails})
    if fails:
        key = clause[0]

        def bad(s):
            return any(x[0] == key for x in judge.verdict(s)[0])
    else:
        def bad(s):
            return judge.verdict(s)[1]
    small = shrink(sc, bad)
    fails, differs, lines, model, san = judge.verdict(small)
    if not fails and not differs:
        small = sc
        fails, differs, lines, model, san = judge.verdict(small)
    clause = sorted({f[0] for f in fails})
    obj = {"component": "startup", "where": where, "script": small.line(), "original_script": sc.line(), "tag": sc.tag,
           "variant": "default", "seed": C.base_seed(), "impl_trace": lines, "model_trace": model, "sanitizer": san,
           "failing_clauses": ["%s: %s" % f for f in fails][:12],
           "theorems": sorted({t for cl in clause for t in THEOREMS_BY_CLAUSE.get(cl, [])}),
           "how_to_replay": "printf '%s\\n' \"<script>\" | <harness startup binary>   and   | lean/.lake/build/bin/drv_startup"}
    if fails:
        if clause == ["peers"] and not differs:
            e = peer_leak_known()
            if e is not None:
                out.known_finding("%s connection accepted during start-up is not released when a later start-up step fails (%s)" % (
                    e.get("id"), small.line()))
                return
        out.violation("start-up / shut-down: property clause fails on the implementation (%s): %s" % (",".join(clause), fails[0][1][:300]), obj)
    else:
        obj["broken_correspondence"] = "Cjet.Startup no longer describes linux_io.c on this script; no property clause fails on it"
        obj["theorems"] = sorted({t for ts in THEOREMS_BY_CLAUSE.values() for t in ts if not t.startswith("(")})
        out.violation("start-up / shut-down: model and implementation differ (no property clause fails on the inputs tried)", obj, no_input=True)


# --------------------------------------------------------------------------- entry point

def driver_usable(ctx):
    drv = C.drv_path("startup")
    if not os.path.exists(drv):
        return False
    if getattr(ctx, "lean_ok", True):
        return True
    try:
        srcs = [os.path.join(C.LEAN, *p) for p in (("Cjet", "Startup.lean"), ("Cjet", "Drv", "Startup.lean"), ("Cjet", "Basic.lean"),
                                                   ("DrvStartup.lean",))]
        return os.path.getmtime(drv) >= max(os.path.getmtime(p) for p in srcs)
    except OSError:
        return False


def build():
    return C.cc_build("startup", [os.path.join(C.ROOT, "harness", "comp", "startup.c")], link_flags=WRAP)


def random_script(r):
    cfg = r.choice(CONFIGS)
    p = r.choice([0.02, 0.05, 0.1, 0.25])
    toks = []
    for _ in range(r.choice([30, 60, 60, 90])):
        if r.random() < p:
            toks.append(r.choice(["fail", "fail", "fail", "retry", "conn", "a:0", "a:1", "a:2", "a:3", "a:5"]))
        else:
            toks.append("ok")
    return Script(cfg, toks, "random")


def run_startup_tie(ctx, out):
    t0 = time.time()
    cov = out.coverage
    binp = build()
    have_model = driver_usable(ctx)
    if not have_model:
        out.notes.append("startup: model driver not available or stale (Lean build failed): property clauses are evaluated on the implementation only")
    judge = Judge(binp, have_model)
    code_version = probe_code_version(binp)
    thorough = bool(getattr(ctx, "thorough", False))
    stats = {"scripts": 0, "lines": 0, "diffs": 0, "clause_fail": 0, "ret": {}, "ends": {}, "obs": {}, "clauses": {},
             "positions": {}, "nontrivial": set(), "by_depth": {}}
    reported = []
    MAXREP = 4

    def digest(scripts, impl, model, depth):
        for sc, (lines, san), mb in zip(scripts, impl, model):
            stats["scripts"] += 1
            stats["lines"] += len(lines)
            stats["by_depth"][depth] = stats["by_depth"].get(depth, 0) + 1
            fails, obs = eval_clauses(sc, lines, san)
            for o in obs:
                stats["obs"][o] = stats["obs"].get(o, 0) + 1
            differs = mb is not None and (mb != lines or san is not None)
            last = [ln for ln in lines if ln.startswith("RET")]
            stats["ret"][last[0] if last else "none"] = stats["ret"].get(last[0] if last else "none", 0) + 1
            sig = tuple(ln for ln in lines if ln.endswith(" fail") or ln.endswith("fatal") or ln.endswith("retry") or " conn " in ln or ln == "RUN -1"
                        or ln.startswith("GAI"))
            if len(sig) > 0:
                stats["nontrivial"].add((sc.cfg, tuple(" ".join(x.split()[:1] + x.split()[2:]) for x in sig)))
            for ln in lines:
                if ln.endswith(" fail") or ln.endswith(" fatal") or ln == "RUN -1":
                    hd = ln.split()[0] + (" " + ln.split()[2] if ln.split()[0] in ("SOCKOPT", "FCNTL") else "")
                    stats["positions"][hd] = stats["positions"].get(hd, 0) + 1
            if fails:
                stats["clause_fail"] += 1
                for cl in {f[0] for f in fails}:
                    stats["clauses"][cl] = stats["clauses"].get(cl, 0) + 1
            if differs:
                stats["diffs"] += 1
            if (fails or differs) and len(reported) < MAXREP:
                key = (tuple(sorted({f[0] for f in fails})), bool(differs) and not fails)
                if key not in [r[0] for r in reported]:
                    reported.append((key, sc))

    def run_batch(scripts):
        impl = run_impl(binp, scripts)
        if len(impl) != len(scripts):
            raise RuntimeError("startup harness answered %d blocks for %d scripts" % (len(impl), len(scripts)))
        model = run_model(scripts) if have_model else [None] * len(scripts)
        return impl, model

    def run_parallel(scripts, depth):
        chunk = 1500
        parts = [scripts[i:i + chunk] for i in range(0, len(scripts), chunk)]
        with concurrent.futures.ThreadPoolExecutor(max_workers=MAX_PAR) as ex:
            results = list(ex.map(run_batch, parts))
        impl_all = []
        for part, (impl, model) in zip(parts, results):
            digest(part, impl, model, depth)
            impl_all += impl
        return impl_all

    # ---- adaptive complete enumeration of deviations
    n_positions = {}
    level = [Script(cfg, [], "all ok") for cfg in CONFIGS]
    impl0 = run_parallel(level, 0)
    frontier = list(zip(level, [r[0] for r in impl0], [0] * len(level)))
    for sc, lines, _ in frontier:
        n_positions[sc.cfg] = len(consuming_calls(lines))
    max_depth = 2
    seen = {s.key() for s in level}
    depth_counts = {0: len(level)}
    for depth in (1, 2, 3):
        if depth > max_depth and not thorough:
            break
        nxt = []
        for sc, lines, first_free in frontier:
            calls = consuming_calls(lines)
            for pos in range(first_free, len(calls)):
                for alt in alternatives(calls[pos], thorough):
                    toks = sc.toks + ["ok"] * (pos - len(sc.toks)) + [alt]
                    cand = Script(sc.cfg, toks, "deviation depth %d" % depth)
                    if cand.key() not in seen:
                        seen.add(cand.key())
                        nxt.append((cand, pos + 1))
        if not nxt:
            break
        scripts = [x[0] for x in nxt]
        impl = run_parallel(scripts, depth)
        depth_counts[depth] = len(scripts)
        frontier = [(s, r[0], ff) for (s, ff), r in zip(nxt, impl)]
        if depth >= (3 if thorough else 2):
            break

    # ---- directed: shutdown with loop result 0 / -1 is part of the enumeration (RUN position); the finding's replay
    directed = [Script((0, 0, 1), ["ok"] * 11 + ["conn", "ok", "fail"], "peer accepted, next listener fails"),
                Script((1, 1, 0), ["ok"] * 4 + ["a:3", "fail", "ok", "fail", "ok", "ok", "ok", "ok", "fail"], "three addresses, two fail"),
                Script((0, 0, 1), ["ok", "ok", "fail"], "ignoring SIGPIPE fails"),
                Script((0, 0, 0), ["ok"] * 11 + ["conn"] + ["ok"] * 17 + ["fail"], "peer accepted, daemon() fails"),
                Script((1, 0, 1), ["ok"] * 13 + ["retry"] * 40 + ["conn"] * 20, "many retries and connections in the first pass")]
    run_parallel(directed, "directed")

    # ---- seeded random multi-deviation scripts
    n_random = 60000 if thorough else 6000
    rs = [random_script(C.rng("startup", i)) for i in range(n_random)]
    run_parallel(rs, "random")

    with_input = [r for r in reported if r[0][0]]
    for key, sc in (with_input or reported):
        report(out, judge, sc, "startup tie")

    cov.update({
        "startup_traces_validated_against_impl": stats["scripts"] if have_model else 0,
        "startup_evaluations": stats["scripts"],
        "startup_trace_lines_compared": stats["lines"],
        "startup_configs": len(CONFIGS),
        "startup_code_version": code_version or ["as committed (no repair of Fstartup-1 / Fstartup-2)"],
        "startup_failure_positions": n_positions and {"%d%d%d" % k: v for k, v in sorted(n_positions.items())},
        "startup_failure_kinds_hit": stats["positions"],
        "startup_enumeration_by_depth": {str(k): v for k, v in depth_counts.items()},
        "startup_traces": stats["scripts"],
        "startup_exhaustive": True,
        "startup_exhaustive_what": "every configuration (only-local x user x foreground) x every call position x every alternative answer of that call (fail; accept: fatal / retry / connection; getaddrinfo: fail / 0 / 2%s entries), for one and for two deviations%s, positions of later deviations taken adaptively from the run with the earlier ones; includes the loop returning 0 and -1" % (
            " / 3" if thorough else "", " and for three deviations" if thorough else ""),
        "startup_random_scripts": n_random,
        "startup_distinct_nontrivial": len(stats["nontrivial"]),
        "startup_distinct_nontrivial_rule": "distinct (configuration, sequence of failing / retried / accepting calls and addrinfo answers) with at least one such event",
        "startup_return_hist": stats["ret"],
        "startup_clause_failures": stats["clause_fail"],
        "startup_clause_failure_hist": stats["clauses"],
        "startup_observations": stats["obs"],
        "startup_disagreements": stats["diffs"],
        "startup_samples": [directed[0].line(), directed[1].line(), rs[0].line() if rs else None],
        "startup_wall_s": round(time.time() - t0, 2),
    })
    a = "startup: kernel / libc / event loop replaced by scripted socket, setsockopt, bind, listen, fcntl, unlink, close, accept, getaddrinfo, signal, daemon, getpwnam, setgid, setuid (-Wl,--wrap) and a recording stub loop; peers created by the first accept pass are stub records owning their descriptor"
    if a not in out.assumptions:
        out.assumptions.append(a)
    return {"scripts": stats["scripts"], "diffs": stats["diffs"], "clause_failures": stats["clause_fail"], "have_model": have_model}


def replay(d):
    """Re-run the script of a replay object; 1 if it still fails."""
    binp = build()
    line = d.get("script", "")
    sc = parse_line(line)
    rc, o, e = C.sh([binp], inp=(line + "\n").encode(), timeout=120)
    print("script:", line)
    print("implementation:\n" + o)
    if e.strip():
        print("stderr:\n" + e[-3000:])
    lines = [ln for ln in o.splitlines() if ln != "END"]
    model = None
    if os.path.exists(C.drv_path("startup")):
        probe_code_version(binp)
        model = [ln for ln in C.run_drv("startup", line + "\n", args=MODEL_ARGS) if ln != "END"]
        print("model:\n" + "\n".join(model))
    fails, obs = eval_clauses(sc, lines, None if rc == 0 else "exit code %d" % rc) if sc else ([], [])
    print("failing clauses:", fails)
    differs = model is not None and model != lines
    print("model/implementation differ:", differs)
    return 1 if (fails or differs) else 0
